"""C04 - a committed path serves the value of the latest evaluation that kept it."""
import concurrent.futures as cf
import copy
import json
import random

import c04_config as K
import c04_prior as R
import common as C
import hist
import progs as P
import values as V

COQ_FILES = ("L3_Sig/Sig.v", "L4_Eval/DdsEval.v", "L4_Eval/RunEval.v", "L4_Eval/EvalProofs.v", "Properties/C04.v")
EXTRACTED = ("ConstHash", "ConstSig")
ALLOWED_AXIOMS = ()


def all_paths(prog):
    ps = []
    for m in prog["modules"].values():
        for f in m["funcs"]:
            if f.get("annot"):
                ps.append(f["annot"])
            for st in f["stmts"]:
                if st["k"] == "keep":
                    ps.append(st["path"])
    return ps


def plan(seed, n_steps, store_kind):
    rng = random.Random(seed)
    prog = P.gen_program(rng)
    call = P.root_call(prog, rng)
    paths = sorted(set(all_paths(prog) + ([call["path"]] if call.get("path") else [])))
    events = [("prog", prog), ("act", call)]
    cur = prog
    same_process = store_kind == "memory"

    def probes():
        out = [] if same_process else [("restart",)]
        for p in paths:
            out.append(("act", {"a": "load", "path": p}))
            if store_kind.startswith("local"):
                out.append(("act", {"a": "rawfile", "path": p}))
        return out
    events += probes()
    for _ in range(n_steps):
        if same_process:
            cands = [(m, v) for (m, n) in P.reachable(cur, *cur["root"]) for v in P.find_func(cur, m, n)["reads"]]
            if not cands:
                break
            m, v = rng.choice(cands)
            new = rng.choice([x for x in P.VAR_VALUES if V.canon(x) != V.canon(cur["modules"][m]["vars"][v])])
            events.append(("act", {"a": "setvar", "mod": m, "name": v, "value": new}))
            cur = copy.deepcopy(cur)
            cur["modules"][m]["vars"][v] = new
        else:
            kind, info, cur = rng.choice([e for e in P.edit_catalogue(cur, rng) if e[0] in ("body", "var", "literal")] or P.edit_catalogue(cur, rng))
            cur = copy.deepcopy(cur)
            events.append(("prog", cur))
        events.append(("act", call))
        events += probes()
    return {"seed": seed, "store": store_kind, "events": events, "paths": paths, "call": call}


def plan_interleaved(seed, store_kind):
    """A long-lived process evaluates, ANOTHER process evaluates an edited copy of the code on the same store, the first
    process evaluates its (unchanged) code again: every path must serve what the latest evaluation kept."""
    rng = random.Random(seed)
    prog = P.gen_program(rng)
    call = P.root_call(prog, rng)
    paths = sorted(set(all_paths(prog) + ([call["path"]] if call.get("path") else [])))
    edits = [e for e in P.edit_catalogue(prog, rng) if e[0] in ("body", "var", "literal")]
    kind, info, p2 = rng.choice(edits)
    p2 = copy.deepcopy(p2)

    def probes():
        out = [("restart",)]
        for p in paths:
            out.append(("act", {"a": "load", "path": p}))
            out.append(("act", {"a": "rawfile", "path": p}))
        return out
    events = [("prog", prog), ("act", call), ("act", {"a": "subprocess", "prog": p2, "actions": [call]}), ("act", call)] + probes()
    events += [("prog", prog), ("act", call), ("act", {"a": "subprocess", "prog": p2, "actions": [call]})] + probes()
    return {"seed": seed, "store": store_kind, "events": events, "paths": paths, "call": call, "interleaved": True}


def run_one(pl):
    try:
        if pl.get("config"):
            return K.run_config_history(pl["events"], pl["store"])
        if pl.get("prior"):
            return R.run_prior_history(pl["events"], pl["store"])
        return hist.run_history(pl["events"], store_kind=pl["store"])
    except Exception as e:  # noqa
        return {"error": str(e)[-1000:]}


def run(rep, tier, seed, proof_ok):
    n = 9 if tier == "quick" and proof_ok else 72
    n_steps = 2 if tier == "quick" else 4
    n_cfg = 2 * len(K.SHAPES) * (1 if tier == "quick" and proof_ok else 4)
    prior_plans = R.draw_plans(seed, tier, tier == "quick" and proof_ok)
    rep.rule = (f"{n} random pipelines (kept paths of 1..3 segments with shared directories) x edit histories of {n_steps} steps x store kinds "
                "{local, local+object-cache, memory} (+ histories in which another process evaluates an edited copy of the code on the same "
                "store between two evaluations of a long-lived process); after every evaluation each path kept so far is loaded through dds.load from a "
                "fresh process (same process for the memory store) and, for the local store, read from the file under the data "
                "directory; compared with the Coq model's store state and with the dds-free reference (value most recently kept); "
                f"+ {n_cfg} histories in which the CONFIGURATION of the local store changes between evaluations ({len(K.SHAPES)} shapes x "
                "{new process, possibly with edited code | dds.set_store in the process that evaluated before} x {local, local+object-cache}; "
                "on one data directory: internal directory replaced by a fresh one / by a copy / renamed / renamed with a symbolic link left "
                "at the old location, two internal directories alternating, old location re-created empty, only part of the paths kept again "
                "under the new one; on one internal directory: data directory switched and switched back; retired internal directories are "
                "then deleted): after every evaluation and after every deletion each path is loaded from a fresh process, read from the "
                "file under the data directory and its link inspected - a path kept by the latest evaluation must serve the value of the "
                "dds-free reference through a link inside the internal directory of that evaluation, also once the other internal "
                "directories are gone; a path not kept again retains what it served; "
                f"+ {len(prior_plans)} histories in which ONE PROCESS uses dds in other ways before the evaluation whose commit is checked "
                f"({sum(len(p['cells']) for p in prior_plans)} steps = preceding call x call style of the evaluation that follows, over "
                f"{len(R.PRIORS)} kinds of preceding call x {{dds.eval, top-level dds.keep, data function called directly}}; preceding calls, of "
                "the entry point or of a node below it: nothing / dds.eval under each proper prefix of the stage order / full evaluation with "
                "dds_export_graph or dds_extra_debug / failing evaluations (a user function raising an Exception or BaseException subclass "
                "in code reloaded into the process, too many arguments, a kept path nested under another, a graph export that cannot be written, "
                "an ill-formed stage list) / dds.load of a kept or never kept path; x {fresh store, paths kept by an earlier process with the "
                "previous version of the code, that edit reloaded into the process that kept them} x {local, local+object-cache}): after "
                "every evaluation each path is loaded in the process itself and, by ANOTHER process started at that moment, through dds.load "
                "and from the file under the data directory (beyond the quick tier also after every preceding call) - it must serve what the "
                "dds-free reference keeps there when the dry runs and the failing calls are left out (C15, C10: they commit nothing and leave "
                "no trace for the next evaluation), and every call must end as the plain execution does (dry run without eval stage: None); "
                "distinct = distinct (history, probe); non-trivial = probe of a path that has been committed")
    kinds = ["local", "local+lru", "memory"]
    plans = [plan(seed * 1000 + i, n_steps, kinds[i % 3]) for i in range(n)]
    plans += [plan_interleaved(seed * 1000 + 500 + i, ["local+lru", "local"][i % 2]) for i in range(4 if tier == "quick" and proof_ok else 24)]
    # store configuration changing inside the history: every shape x {new process, same process}, store kinds alternating
    plans += [K.plan_config(seed * 1000 + 700 + j + len(K.SHAPES) * r, K.SHAPES[j], ["local", "local+lru"][(j + r + r // 2) % 2], bool(r % 2))
              for r in range(n_cfg // len(K.SHAPES)) for j in range(len(K.SHAPES))]
    # what the process did with dds before the evaluation whose commit is checked (dry runs, failures, exports, loads)
    plans += prior_plans
    # minimised past failures first
    import glob
    import os
    corpus_plans = []
    for fn in sorted(glob.glob(os.path.join(C.VERIF, "corpus", "C04", "*.json"))):
        c = json.load(open(fn))
        evs = []
        for e in c["events"]:
            if e[0] == "prog":
                pr = e[1]
                pr["root"] = tuple(pr["root"])
                for m in pr["modules"].values():
                    for f in m["funcs"]:
                        for st in f["stmts"]:
                            if "callee" in st:
                                st["callee"] = tuple(st["callee"])
            evs.append(tuple(e))
        corpus_plans.append({"seed": "corpus:" + c["name"], "store": c["store"], "events": evs, "paths": c["paths"], "call": c["call"]})
    plans = corpus_plans + plans
    with cf.ThreadPoolExecutor(max_workers=C.NPROC) as ex:
        results = list(ex.map(run_one, plans))
    nprobe = {"load": 0, "rawfile": 0, "linkinfo": 0}
    ncfg = {"histories": 0, "in_process": 0, "by_shape": {}, "probes": 0, "probes_of_committed_paths": 0, "probes_after_a_directory_was_deleted": 0}
    nprior = {"histories": 0, "steps": {}, "base": {}, "evaluations": 0, "preceding_calls": 0, "probes": 0, "probes_of_committed_paths": 0,
              "probes_in_the_same_process": 0, "probes_not_judged_after_a_violation": 0}
    for pl, recs in zip(plans, results):
        if isinstance(recs, dict):
            rep.violation("harness-error:c04", "history could not be run: " + recs["error"][-300:], {"events": pl["events"]}, no_input=True)
            continue
        if pl.get("config"):
            problems, st = K.judge(recs, pl["store"], pl["shape"])
            for key, what, i in problems:
                rep.violation(key, what, {"config": True, "events": pl["events"], "action": i, "store": pl["store"], "shape": pl["shape"],
                                          "in_process": pl["in_process"]}, no_input=key.startswith("harness-error"))
            for i, committed in st["cases"]:
                rep.case(f"{pl['seed']}:{i}", nontrivial=committed)
            for k in nprobe:
                nprobe[k] += st[k]
            ncfg["histories"] += 1
            ncfg["in_process"] += pl["in_process"]
            ncfg["by_shape"][pl["shape"]] = ncfg["by_shape"].get(pl["shape"], 0) + 1
            ncfg["probes"] += len(st["cases"])
            ncfg["probes_of_committed_paths"] += st["committed"]
            ncfg["probes_after_a_directory_was_deleted"] += st["after_retire"]
            rep.sample({"store": pl["store"], "entry": pl["call"], "paths": pl["paths"], "configuration_shape": pl["shape"],
                        "in_process": pl["in_process"]}, cap=5)
            continue
        if pl.get("prior"):
            problems, st = R.judge(recs, pl["store"])
            for key, what, i in problems:
                rep.violation(key, what, {"prior": True, "events": pl["events"], "action": i, "store": pl["store"], "steps": pl["cells"],
                                          "base": pl["base"], "arrival": pl["arrival"]}, no_input=key.startswith("harness-error"))
            for i, committed in st["cases"]:
                rep.case(f"{pl['seed']}:{i}", nontrivial=committed)
            for k in ("load", "rawfile"):
                nprobe[k] += st[k]
            nprobe["load"] += st["same_process_load"]
            nprior["histories"] += 1
            for kind, style in pl["cells"]:
                nprior["steps"][f"{kind} -> {style}"] = nprior["steps"].get(f"{kind} -> {style}", 0) + 1
            b = pl["base"] + (":" + pl["arrival"] if pl["arrival"] else "")
            nprior["base"][b] = nprior["base"].get(b, 0) + 1
            nprior["evaluations"] += st["evaluations"]
            nprior["preceding_calls"] += st["priors"]
            nprior["probes"] += len(st["cases"])
            nprior["probes_of_committed_paths"] += sum(1 for _, c in st["cases"] if c)
            nprior["probes_in_the_same_process"] += st["same_process_load"]
            nprior["probes_not_judged_after_a_violation"] += st["not_judged"]
            rep.sample({"store": pl["store"], "entry": pl["call"], "paths": pl["paths"], "steps (preceding call, call style)": pl["cells"],
                        "base": pl["base"], "arrival_of_the_edit": pl["arrival"]}, cap=7)
            continue
        last_model_load = {}
        for i, r in enumerate(recs):
            a = r["act"]
            if a["a"] == "call":
                d = hist.compare(r)
                if d:
                    rep.violation("model-mismatch:" + d[0][0], f"implementation and model disagree: {json.dumps(d[:2])[:300]}", {"events": pl["events"], "action": i})
            elif a["a"] == "load":
                nprobe["load"] += 1
                committed = r["ref"]["out"] is not None and r["ref"]["out"].startswith("ok:")
                rep.case(f"{pl['seed']}:{i}", nontrivial=committed)
                m = r["model"]["out"]
                last_model_load[a["path"]] = m
                if r["impl"]["out"] != m:
                    rep.violation("model-mismatch:load", f"dds.load({a['path']}): implementation {r['impl']['out'][:80]} vs model {m[:80]}",
                                  {"events": pl["events"], "action": i, "store": pl["store"]})
                if r["impl"]["out"] != r["ref"]["out"]:
                    rep.violation("load-wrong:" + pl["store"], f"dds.load({a['path']}) returns {r['impl']['out'][:80]} but the latest evaluation kept "
                                  f"{(r['ref']['out'] or '')[:80]}", {"events": pl["events"], "action": i, "store": pl["store"]})
            elif a["a"] == "rawfile":
                nprobe["rawfile"] += 1
                rep.case(f"{pl['seed']}:{i}")
                if r["ref"]["out"] and r["ref"]["out"].startswith("ok:") and r["impl"]["out"] != r["ref"]["out"]:
                    rep.violation("file-wrong:" + pl["store"], f"the file under the data directory for {a['path']} holds {r['impl']['out'][:80]} but the latest "
                                  f"evaluation kept {r['ref']['out'][:80]}", {"events": pl["events"], "action": i, "store": pl["store"]})
        rep.sample({"store": pl["store"], "entry": pl["call"], "paths": pl["paths"]}, cap=3)
    rep.extra["input_distribution"] = {"histories": len(plans), "probes": nprobe, "store_configuration_histories": ncfg,
                                       "same_process_histories": nprior}


def replay(path):
    r = json.load(open(path))["replay"]
    if r.get("config"):
        return K.replay(r)
    if r.get("prior"):
        return R.replay(r)
    import c01
    return c01.replay(path)
