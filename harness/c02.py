"""C02 - nothing is recomputed unless something it depends on changed."""
import concurrent.futures as cf
import copy
import json
import random

import common as C
import hist
import progs as P
import c02_crash as X
import c02_env as E

COQ_FILES = ("L3_Sig/Program.v", "L3_Sig/Sig.v", "L4_Eval/DdsEval.v", "L4_Eval/RunEval.v", "L3_Sig/SigProofs.v", "Properties/C02.v")
EXTRACTED = ("ConstHash", "ConstSig")
ALLOWED_AXIOMS = ()

OUTSIDE = ("unrelated-defs", "reorder", "non-accepted-code", "unread-var", "move-module", "move-package")


def reach_names(prog, m, n):
    return set(P.reachable(prog, m, n))


def reads_in_reach(prog, m, n):
    out = set()
    for (mm, nn) in P.reachable(prog, m, n):
        for v in P.find_func(prog, mm, nn)["reads"]:
            out.add((mm, v))
    return out


def unaffected_data_functions(prog, kind, info):
    """Zero-argument data functions whose dependency cone (DESIGN.md 4.1) cannot contain the edit: the edited
    function / variable is not reachable from them (their signature has no call-site context)."""
    out = []
    for (m, n) in P.reachable(prog, *prog["root"]):
        f = P.find_func(prog, m, n)
        if not f.get("annot"):
            continue
        if kind in ("body", "literal"):
            if tuple(info["fn"]) in reach_names(prog, m, n):
                continue
        elif kind == "move-module+text":
            # callers that spell the callee as <module>.<name> change their own text when the module is renamed
            if any(tuple(t) in reach_names(prog, m, n) for t in info["touched"]):
                continue
        elif kind == "var":
            if (info["mod"], info["name"]) in reads_in_reach(prog, m, n):
                continue
        out.append((m, n))
    return out


def plan_program(seed, n_edits):
    """The histories to run for one random program: (label, kind, info, events)."""
    rng = random.Random(seed)
    prog = P.gen_program(rng, allow_classes=(seed % 3 == 0))      # every third pipeline may contain plain classes
    call = P.root_call(prog, rng)
    kept = {n for (_, n) in P.kept_only_functions(prog)}
    if call.get("style") in ("keep", "direct"):
        kept.add(call["fn"])
    cat = P.edit_catalogue(prog, rng)
    m_old = sorted(prog["modules"])[rng.randrange(len(prog["modules"]))]
    touched = [[mn, f["name"]] for mn, m in prog["modules"].items() for f in m["funcs"]
               if any(st.get("via") == "attr" and st["k"] == "call" and st["callee"][0] == m_old and mn != m_old for st in f["stmts"])]
    # renaming a module changes the text of callers that spell the callee as <module>.<name>: that is an edit of their bodies
    cat.append(("move-module+text" if touched else "move-module", {"old": m_old, "touched": touched}, P.move_module(prog, m_old, m_old + "b")))
    p_pkg = copy.deepcopy(prog)
    p_pkg["pkg"] = prog["pkg"] + "b"
    cat.append(("move-package", {"new": p_pkg["pkg"]}, p_pkg))
    rng.shuffle(cat)
    chosen = [e for e in cat if e[0] in OUTSIDE or e[0] == "move-module+text"] + \
        [e for e in cat if e[0] not in OUTSIDE and e[0] != "move-module+text"][:n_edits]
    ev = [("prog", prog), ("act", call), ("act", call), ("restart",), ("act", call)]
    f = P.find_func(prog, *prog["root"])
    if f.get("annot"):
        ev.append(("act", dict(call, style="eval" if call["style"] == "direct" else "direct")))
    hs = [("rerun", None, None, ev)]
    for kind, info, p2 in chosen:
        call2 = dict(call, mod=p2["root"][0])
        hs.append(("edit", kind, info, [("prog", prog), ("act", call), ("prog", p2), ("act", call2), ("prog", prog), ("act", call)]))
    return {"seed": seed, "prog": prog, "call": call, "kept": kept, "histories": hs}


def load_pipelines():
    """Pipelines with dds.load and keeps with run-time arguments in various orders (the random generator has no loads)."""
    import values as V
    out = []
    for order in (("prod", "dbl", "reader"), ("prod", "reader", "dbl"), ("dbl0", "prod", "reader", "dbl")):
        funcs = [{"name": "prod", "params": [], "annot": None, "salt": "p0", "stmts": [], "reads": ["VAR_P"]},
                 {"name": "leaf", "params": [{"name": "a", "default": None}], "annot": None, "salt": "l0", "stmts": [], "reads": []},
                 {"name": "reader", "params": [], "annot": None, "salt": "r0", "stmts": [{"k": "load", "path": "/p"}], "reads": []}]
        stmts = []
        for what in order:
            if what == "prod":
                stmts.append({"k": "keep", "path": "/p", "callee": ("m0", "prod"), "pos": [], "kw": [], "layout": "single"})
            elif what == "reader":
                stmts.append({"k": "keep", "path": "/reader", "callee": ("m0", "reader"), "pos": [], "kw": [], "layout": "single"})
            elif what == "dbl0":
                stmts.append({"k": "keep", "path": "/dbl0", "callee": ("m0", "leaf"), "pos": [["param", 0]], "kw": [], "layout": "single"})
            else:
                stmts.append({"k": "keep", "path": "/dbl", "callee": ("m0", "leaf"), "pos": [["local", 0] if order[0] == "prod" else ["param", 0]], "kw": [], "layout": "single"})
        funcs.append({"name": "root", "params": [{"name": "z", "default": V.i_(4)}], "annot": None, "salt": "t0", "stmts": stmts, "reads": []})
        prog = {"pkg": "vpl2", "ext_helpers": {}, "root": ("m0", "root"), "modules": {"m0": {"vars": {"VAR_P": V.i_(1)}, "funcs": funcs}}}
        call = {"a": "call", "mod": "m0", "fn": "root", "style": "eval", "pos": [], "kw": []}
        ev = [("prog", prog), ("act", call), ("act", call), ("act", call), ("restart",), ("act", call)]
        out.append({"seed": "load-pipeline:" + "-".join(order), "prog": prog, "call": call, "kept": {"prod", "leaf", "reader"},
                    "histories": [("rerun", None, None, ev)]})
    return out


def run_one_history(ev):
    try:
        return hist.run_history(ev, run_ref=False)
    except Exception as e:  # noqa
        return {"error": str(e)[-1200:]}


def judge_program(plan, recs_list):
    prog, kept = plan["prog"], plan["kept"]
    res = {"seed": plan["seed"], "checks": 0, "bad": [], "diffs": [], "kinds": {}}
    sig0 = None
    for (label, kind, info, ev), recs in zip(plan["histories"], recs_list):
        if isinstance(recs, dict):
            res["error"] = recs["error"]
            continue
        for i, r in enumerate(recs):
            d = hist.compare(r)
            if d:
                res["diffs"].append({"where": f"{kind or label}[{i}]", "diffs": d[:2], "events": ev})
        if label == "rerun":
            sig0 = hist.impl_obs(recs[0])["sigs"]
            for i, r in enumerate(recs):
                if i >= 1:
                    res["checks"] += 1
                    ran = [t for t in r["impl"]["log"] if t in kept]
                    if ran or hist.impl_obs(r)["sigs"] != sig0:
                        labels = ["", "unchanged", "fresh-process", "entry-style-switch"] if len(recs) <= 4 else ["", "unchanged", "unchanged-again", "fresh-process"]
                        res["bad"].append({"kind": labels[min(i, 3)], "ran": ran,
                                           "sigs_changed": hist.impl_obs(r)["sigs"] != sig0, "events": ev})
            continue
        res["kinds"][kind] = res["kinds"].get(kind, 0) + 1
        sig0 = hist.impl_obs(recs[0])["sigs"]
        after, reverted = recs[1], recs[2]
        res["checks"] += 2
        ran_after = [t for t in after["impl"]["log"] if t in kept]
        if kind in OUTSIDE:
            if ran_after or hist.impl_obs(after)["sigs"] != sig0:
                res["bad"].append({"kind": kind, "info": info, "ran": ran_after,
                                   "sigs_changed": hist.impl_obs(after)["sigs"] != sig0, "events": ev})
        else:
            un = unaffected_data_functions(prog, kind, info)
            ran_un = [n for (_, n) in un if n in after["impl"]["log"]]
            s_before = dict(x.split("=") for x in sig0.split(",")) if sig0 else {}
            s_after = dict(x.split("=") for x in (hist.impl_obs(after)["sigs"] or "").split(",") if x)
            changed_un = [n for (m, n) in un if s_before.get(P.find_func(prog, m, n)["annot"]) != s_after.get(P.find_func(prog, m, n)["annot"])]
            if ran_un or changed_un:
                res["bad"].append({"kind": kind + ":data-function-outside-cone", "info": info, "ran": ran_un, "sig_changed": changed_un, "events": ev})
        ran_rev = [t for t in reverted["impl"]["log"] if t in kept]
        if ran_rev or hist.impl_obs(reverted)["sigs"] != sig0:
            res["bad"].append({"kind": "revert-after-" + kind, "ran": ran_rev, "events": ev})
    res["sample"] = {"root": list(prog["root"]), "entry": plan["call"], "kept_only": sorted(kept),
                     "edits": [h[1] for h in plan["histories"] if h[1]]}
    return res


RAW_MOD = '''import dds
import rawlog2
SHAPE = (3, 4)
def build():
    rawlog2.ran("build")
    return SHAPE[0] * SHAPE[1]
'''
RAW_RUN2 = '''import dds, sys, json, importlib
dds.accept_module("rawpk2")
dds.set_store("local", internal_dir=sys.argv[1] + "/i", data_dir=sys.argv[1] + "/d")
import rawlog2
m = importlib.import_module("rawpk2." + sys.argv[2])
r = dds.keep("/built", m.build)
print("@@" + json.dumps({"value": r, "ran": rawlog2.LOG}))
'''


def run_raw(rep):
    """Outside the generated grammar: the kept function mentions a module-level object that is not tracked by value (a
    tuple); the module is then copied to another accepted module and evaluated there."""
    import os
    import shutil
    import tempfile
    base = tempfile.mkdtemp(prefix="c02raw_", dir=C.scratch_dir())
    try:
        os.makedirs(os.path.join(base, "rawpk2"))
        open(os.path.join(base, "rawpk2", "__init__.py"), "w").write("")
        open(os.path.join(base, "rawlog2.py"), "w").write("LOG = []\ndef ran(t):\n    LOG.append(t)\n")
        open(os.path.join(base, "run.py"), "w").write(RAW_RUN2)
        for mn in ("m1", "m1copy"):
            open(os.path.join(base, "rawpk2", mn + ".py"), "w").write(RAW_MOD)
        outs = []
        for mn in ("m1", "m1", "m1copy"):
            env = C.impl_env()
            env["PYTHONPATH"] = C.REPO + os.pathsep + base
            rc, out = C.sh([C.PY, os.path.join(base, "run.py"), base, mn], env=env, cwd=base, timeout=120)
            line = [l for l in out.splitlines() if l.startswith("@@")]
            if not line:
                rep.violation("harness-error:c02raw", "raw scenario could not be run: " + out[-300:], {"out": out[-800:]}, no_input=True)
                return
            outs.append(json.loads(line[-1][2:]))
        rep.evaluations += 2
        if outs[1]["ran"]:
            rep.violation("recomputed:unchanged", "raw scenario: an unchanged re-evaluation from a fresh process executed the kept body", {"outs": outs})
        if outs[2]["ran"]:
            rep.violation("recomputed:move-module:untracked-object-name", "the code was copied to another accepted module: the kept body ran again because it "
                          "mentions a module-level object that is hashed by its canonical name (which contains the module path)",
                          {"module": RAW_MOD, "copied_to": "rawpk2.m1copy", "outs": outs})
    finally:
        shutil.rmtree(base, ignore_errors=True)


def interrupted_histories(rep, tier, seed):
    """What happened to the store before, as a dimension: an evaluation is interrupted (process killed at a file-system
    operation, the store raising, a user function raising), then the unchanged pipeline is evaluated repeatedly: c02_crash.py."""
    import time
    t0 = time.time()
    quick = tier == "quick"
    rng = random.Random(seed)
    shapes = X.fixed_shapes(full=not quick) + X.random_shapes(seed, 1 if quick else 5)
    dist = {"shapes": len(shapes), "histories_by_interruption": {}, "interrupted_by_class": {}, "evaluations_after_an_interruption": 0}
    try:
        with cf.ThreadPoolExecutor(max_workers=C.NPROC) as ex:
            plains = list(ex.map(X.plain_reference, shapes))
            uns = list(ex.map(lambda sh: X.safe(X.uncrashed, sh), shapes))
        jobs = []
        for n_sh, (sh, plain, un) in enumerate(zip(shapes, plains, uns)):
            if "harness_error" in un:
                rep.violation("harness-error:c02-interrupted", f"{sh['name']}: {un['harness_error']}", {"shape": sh}, no_input=True)
                continue
            if un["out"] != plain[0]:
                rep.violation("interrupted:uncrashed-evaluation-differs-from-plain-execution", f"pipeline {sh['name']}: an evaluation from the starting "
                              f"state returns {un['out'][:100]}, plain execution {plain[0][:100]}", {"shape": sh, "plain": plain})
                continue
            faults = X.fault_points(un, reads=False, excs=("Exception",) if quick else ("Exception", "KeyboardInterrupt"))
            dist["interruption_points"] = dist.get("interruption_points", 0) + len(faults)
            if quick:
                # a seeded sample: one point of every class of interruption (kind x operation x object of the store), every
                # other class for a given pipeline (each class is met with about half of the pipelines)
                faults = X.sample_by_class(un, faults, rng)[n_sh % 2::2]
            elif sh["name"].startswith("generated"):
                faults = X.sample_by_class(un, faults, rng, per_class=2)
            jobs += [(sh, f, un, plain) for f in faults]
        jobs = [j for _, j in sorted(enumerate(jobs), key=lambda x: (x[0] % 7, x[0]))]      # (interleaved: a few process servers per pipeline)
        with cf.ThreadPoolExecutor(max_workers=C.NPROC) as ex:
            results = list(ex.map(X.safe_history, jobs))
    finally:
        X.close_servers()
    for (sh, fault, un, plain), r in zip(jobs, results):
        rep.case(json.dumps(["interrupted", sh["name"], fault]), nontrivial=bool(r["interrupted"] and sh["kept"]))
        k = fault["kind"]
        dist["histories_by_interruption"][k] = dist["histories_by_interruption"].get(k, 0) + 1
        if r.get("harness_error"):
            rep.violation("harness-error:c02-interrupted", f"{X.describe(sh, fault, r)}: history could not be run: {r['harness_error']}",
                          {"shape": sh, "fault": fault}, no_input=True)
            continue
        if r["interrupted"]:
            oc = X.op_class(fault, r)
            dist["interrupted_by_class"][oc] = dist["interrupted_by_class"].get(oc, 0) + 1
        dist["evaluations_after_an_interruption"] += r["evaluations"]
        for kind, where, detail in r["problems"]:
            rep.violation(f"{'interrupted:read-' if kind.startswith('failed-operation') else 'recomputed:interrupted:'}{kind}:{X.key_class(fault, r)}", f"{X.describe(sh, fault, r)}; then the unchanged pipeline is "
                          f"evaluated again: {where}: {kind} -> {detail}",
                          {"interrupted_history": {"shape": sh, "fault": fault}, "problem": kind, "where": where, "detail": detail,
                           "operation": r.get("operation"), "uncrashed": {k: un[k] for k in ("out", "log", "puts", "sigs")}, "plain": plain})
    dist["wall_seconds"] = round(time.time() - t0, 1)
    rep.sample({"interrupted_history": {"shape": shapes[2]["name"], "fault": {"kind": "kill", "at": 27, "half": False}}})
    return dist


def run(rep, tier, seed, proof_ok):
    run_raw(rep)
    dist_int = interrupted_histories(rep, tier, seed)
    n_prog = 6 if tier == "quick" and proof_ok else 60
    n_edits = 2 if tier == "quick" else 8
    rep.rule = (f"{n_prog} random pipelines; for each: unchanged re-evaluation, fresh process, entry-style switch (data functions), and "
                f"single edits (all outside-cone kinds: unrelated definitions, reordering, non-accepted code, unread variable, code moved "
                f"to another module; {n_edits} sampled inside-cone edits: body / tracked variable / literal argument), each followed by a "
                "revert; expectation: no body that runs only through keep / data function executes and no signature changes for "
                "outside-cone edits, reverts, restarts and style switches; zero-argument data functions that cannot reach the edit keep "
                "signature and are served; execution logs and signature maps also compared with the Coq model; distinct = distinct "
                "(program, edit); non-trivial = program has at least one kept-only function.  Further dimension, what happened to the "
                "store before (c02_crash.py): histories in which an evaluation is INTERRUPTED and the unchanged pipeline is then "
                "evaluated again and again; pipelines {kept root + nested keep with argument + data function, data function calling a "
                f"data function + keep of a run-time value" + ("" if tier == "quick" else ", the first one entered through dds.eval") +
                f", {1 if tier == 'quick' else 5} generated pipeline(s)}} x {{new store, store of the previous code version (the "
                "interrupted evaluation is the one after the edit)} x interruption {process killed before a file-system operation "
                "(every point after a state-changing one) / in the middle of a write; a writing file-system operation raises OSError "
                "(the store raises, the process survives); the k-th function body raises" + ("" if tier == "quick" else
                " Exception / KeyboardInterrupt; also reading operations raise") + "} (quick: seeded sample with one point per class "
                "kind x operation x store object, every other class per pipeline; thorough: all points, two per class for the generated pipelines); then the same process (if it "
                "survived) evaluates twice more, a fresh process twice, another fresh process once + calls every data function "
                "directly + loads every path; expectation: the first evaluation completing after the interruption returns the value "
                "of plain execution and executes only kept bodies that the uncrashed evaluation from the same starting state "
                "executes and whose result the store had not acknowledged before the interruption; every later evaluation / direct "
                "call executes NO kept body, returns the plain value and commits the signatures of the uncrashed run.  Further dimension, "
                f"the execution environment of the unchanged re-evaluation (c02_env.py): {E.n_pipelines(tier)} generated pipelines (entry "
                "through dds.eval / dds.keep with run-time arguments) whose kept functions and data functions depend on values that look like "
                "pieces of the environment {relative / absolute / '~' / '$VAR' concrete pathlib.Path, PurePosixPath, strings that look like "
                "paths or mention $HOME / ${TMPDIR}} x wrapping {bare, list, dict, tuple, nested, dataclass} x position {module variable, "
                "default value, run-time argument, literal argument}; evaluated once on a bare store, then - nothing changed - in the same "
                "process after os.chdir (3 directories) / HOME changed / unset / TMPDIR / the variable a value mentions / umask / locale / "
                "sys.path order, and from fresh processes on the same store {started in another directory (+ os.chdir back), other HOME / "
                "TMPDIR / variable, all of these + LC_ALL + umask + random hash seed, an identical copy of the code tree imported from "
                "another directory" + ("" if tier == "quick" else ", 4 random combinations with chains of os.chdir") + "}; expectation: the first "
                "evaluation returns the value of plain execution (which is the same in every environment: checked), every later one "
                "executes NO kept body, returns that value and commits the same path -> signature map")
    plans = [plan_program(seed * 1000 + i, n_edits) for i in range(n_prog)] + load_pipelines()
    flat = [h[3] for pl in plans for h in pl["histories"]]
    with cf.ThreadPoolExecutor(max_workers=C.NPROC) as ex:
        env_started = E.start(tier, seed, ex)
        flat_res = list(ex.map(run_one_history, flat))
    dist_env = E.finish(rep, env_started)
    results, k = [], 0
    for pl in plans:
        n = len(pl["histories"])
        results.append(judge_program(pl, flat_res[k:k + n]))
        k += n
    kinds = {}
    for res in results:
        if "error" in res:
            rep.violation("harness-error:c02", "history could not be run: " + res["error"][-300:], res, no_input=True)
            continue
        for k, n in res["kinds"].items():
            kinds[k] = kinds.get(k, 0) + n
        for _ in range(res["checks"]):
            rep.evaluations += 1
        rep.nontrivial.update(f"{res['seed']}:{i}" for i in range(res["checks"] if res["sample"]["kept_only"] else 0))
        for b in res["bad"]:
            rep.violation("recomputed:" + b["kind"], f"{b['kind']}: kept bodies {b.get('ran')} were executed again / signatures changed "
                          f"although nothing they depend on changed", b)
        for d in res["diffs"]:
            rep.violation("model-mismatch:" + d["diffs"][0][0], f"implementation and model disagree at {d['where']}: {json.dumps(d['diffs'])[:300]}", d)
        rep.sample(res["sample"], cap=3)
    rep.extra["input_distribution"] = {"programs": len(results), "edits_by_kind": kinds, "interrupted_evaluations": dist_int,
                                       "unchanged_evaluations_in_another_environment": dist_env}


def replay(path):
    r = json.load(open(path))["replay"]
    if "interrupted_history" in r:
        return X.replay(r)
    if "exec_env_c02" in r:
        return E.replay(r)
    import c01
    return c01.replay(path)
