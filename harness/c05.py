"""C05 - value hashing is total, deterministic and collision-free on supported values."""
import json
import random

import common as C
import values as V

COQ_FILES = ("Base/Bytes.v", "Base/Sha256.v", "Extracted/ConstHash.v", "L0_Hash/PyVal.v", "L0_Hash/DdsHash.v",
             "L0_Hash/RunHash.v", "L0_Hash/Norm.v", "L0_Hash/HashSpec.v", "L0_Hash/HashProofs.v", "Properties/C05.v")
EXTRACTED = ("ConstHash",)
ALLOWED_AXIOMS = ()

PRELUDE = """From Coq Require Import List String ZArith NArith.
From DDS Require Import Base.Bytes L0_Hash.PyVal L0_Hash.DdsHash L0_Hash.RunHash L0_Hash.Norm.
Import ListNotations.
"""


def impl_str(o):
    if o["r"] == "ok":
        return "ok:" + o["h"]
    if o["r"] == "dds":
        return "dds:" + o["code"]
    if o["r"] == "low":
        return "low:" + o["exc"]
    return o["r"]


def mx_coq(mx):
    if mx == "default":
        return "(Some 10000%N)"
    if mx is None:
        return "None"
    return f"(Some {mx}%N)"


SUPPORTED_TAGS = {"none", "bool", "int", "float", "str", "strbad", "list", "tuple", "path", "dict", "odict", "data", "date"}


def supported(e):
    t = e[0]
    if t in ("list", "tuple"):
        return all(supported(x) for x in e[1])
    if t in ("dict", "odict"):
        return all(supported(k) and supported(v) for (k, v) in e[1])
    if t == "data":
        return all(supported(v) for (_, v) in e[2])
    return t in SUPPORTED_TAGS


def low_class(case, o):
    """Key of a low-level exception on a supported value (totality violation)."""
    return f"lowlevel:{o['exc']}"


def run_cases(rep, cases, label):
    """cases: list of {"v":enc,"max":..}.  Compares impl (two hash seeds) with the model; returns impl outcomes."""
    out0 = C.run_driver("drive_c05.py", {"cases": cases}, hashseed="0")
    out1 = C.run_driver("drive_c05.py", {"cases": cases}, hashseed="12345")
    exprs = [f"run_hash {mx_coq(c.get('max', 'default'))} {V.to_coq(c['v'])}" for c in cases]
    model = C.coq_eval_strings(PRELUDE, exprs, label=label)
    # model-side validation of the normal-form theorem (HashProofs.hash_norm) on the same inputs
    nexprs = [f"run_hash None (norm {V.to_coq(c['v'])})" for c in cases]
    nmodel = C.coq_eval_strings(PRELUDE, nexprs, label=label + "n")
    for c, a, nm in zip(cases, out0, nmodel):
        if a["r"] == "ok" and nm != "ok:" + a["h"]:
            rep.violation("norm-mismatch", f"hash of the normal form differs from the implementation: {nm} vs {a['h']}",
                          {"case": c, "impl": a, "model_norm": nm})
    for c, a, b, m in zip(cases, out0, out1, model):
        if a["r"] == "skip":
            continue
        key = json.dumps(c, sort_keys=True)
        rep.case(key, nontrivial=V.size(c["v"]) > 1 or c["v"][0] not in ("other",))
        if a != b:
            rep.violation("nondeterministic-across-processes", "dds_hash differs between two processes with different hash seeds",
                          {"case": c, "seed0": a, "seed12345": b, "cmd": "harness/drive_c05.py"})
        ia = impl_str(a)
        if ia != m:
            rep.violation("model-mismatch:" + (ia.split(":")[0] + "-vs-" + m.split(":")[0]),
                          f"implementation and Coq model disagree: impl={ia} model={m}",
                          {"case": c, "impl": ia, "model": m, "replay_cmd": "./check C05 --replay <this file>"})
        if a["r"] == "low" and supported(c["v"]):
            rep.violation(low_class(c, a), f"low-level exception {a['exc']} escapes dds_hash on a supported value",
                          {"case": c, "impl": ia})
    return out0


def run(rep, tier, seed, proof_ok):
    rng = random.Random(seed)
    rep.rule = ("values enumerated over an alphabet of boundary atoms (ints around +-2^31 and beyond, signed zeros, nan/inf, "
                "empty/separator/marker/4-byte/8-byte/hex-join strings, lone surrogate, paths, dates, unsupported types), all "
                "width<=1 and sampled width-2 sequences, dicts, dataclasses, constructed confusions, random nesting<=4; each run in two "
                "processes (PYTHONHASHSEED 0 / 12345) and in the Coq model (vm_compute, executable SHA-256); distinct = distinct "
                "encoded (value, option) case; non-trivial = not a bare unsupported atom; all pairs grouped by signature for collisions")
    rep.assumptions += [
        "SHA-256 collision resistance (theorems conclude '... or H_collision H')",
        "RecursionError for nesting beyond the interpreter limit is outside the model",
        "repr() of datetime objects and str() of PurePosixPath are taken from CPython (generator side)",
    ]
    vals = V.enumerate_values(rng, tier if proof_ok else "thorough")
    cases = [{"v": v, "max": "default"} for v in vals]
    # option variations on a sample
    for v in rng.sample(vals, 120 if tier == "quick" else 800):
        cases.append({"v": v, "max": rng.choice([0, 1, 2, None])})
    outs = run_cases(rep, cases, "c05")
    # distribution
    dist = {}
    for c in cases:
        dist[c["v"][0]] = dist.get(c["v"][0], 0) + 1
    kinds = {}
    for o in outs:
        k = o["r"] if o["r"] != "dds" else "dds:" + o["code"]
        k = k if o["r"] != "low" else "low:" + o["exc"]
        kinds[k] = kinds.get(k, 0) + 1
    rep.extra["input_distribution"] = {"top_level_kind": dist, "outcome_kind": kinds,
                                       "max_depth": max(V.depth(c["v"]) for c in cases),
                                       "max_size": max(V.size(c["v"]) for c in cases)}
    for c in cases[:3] + cases[len(vals) // 2: len(vals) // 2 + 2]:
        rep.sample({"value": c["v"], "max_sequence_size": c["max"]})
    # collision search: all pairs, grouped by signature (default option only)
    groups = {}
    for c, o in zip(cases[:len(vals)], outs[:len(vals)]):
        if o["r"] == "ok":
            cf = V.canon(c["v"])
            if cf is not None:
                groups.setdefault(o["h"], {}).setdefault(cf, c["v"])
    ncoll = 0
    for h, m in groups.items():
        if len(m) > 1:
            items = list(m.items())
            for i in range(len(items)):
                for j in range(i + 1, len(items)):
                    ncoll += 1
                    cls = V.collision_class(items[i][0], items[j][0])
                    rep.violation(cls, f"two values that differ beyond the documented identifications share signature {h[:12]}..",
                                  {"v1": items[i][1], "v2": items[j][1], "signature": h})
    rep.extra["collision_search"] = {"signatures": len(groups), "colliding_pairs_beyond_documented": ncoll}


def replay(path):
    r = json.load(open(path))["replay"]
    cases = [r["case"]] if "case" in r else [{"v": r["v1"], "max": "default"}, {"v": r["v2"], "max": "default"}]
    out = C.run_driver("drive_c05.py", {"cases": cases})
    print(json.dumps({"cases": cases, "impl": out}, indent=1))
    if "case" in r:
        bad = out[0]["r"] == "low"
    else:
        bad = out[0].get("h") == out[1].get("h")
    print("REPRODUCED" if bad else "not reproduced")
    return 1 if bad else 0
