"""C05 - value hashing is total, deterministic and collision-free on supported values."""
import hashlib
import json
import random

import c05_decl as D
import c05_len as L
import common as C
import values as V

COQ_FILES = ("Base/Bytes.v", "Base/Sha256.v", "Extracted/ConstHash.v", "L0_Hash/PyVal.v", "L0_Hash/DdsHash.v",
             "L0_Hash/RunHash.v", "L0_Hash/Norm.v", "L0_Hash/HashSpec.v", "L0_Hash/HashProofs.v", "Properties/C05.v")
EXTRACTED = ("ConstHash",)
ALLOWED_AXIOMS = ()

PRELUDE = """From Coq Require Import List String ZArith NArith.
From DDS Require Import Base.Bytes L0_Hash.PyVal L0_Hash.DdsHash L0_Hash.RunHash L0_Hash.Norm.
Import ListNotations.
"""


def impl_str(o):
    if o["r"] == "ok":
        return "ok:" + o["h"]
    if o["r"] == "dds":
        return "dds:" + o["code"]
    if o["r"] == "low":
        return "low:" + o["exc"]
    return o["r"]


def mx_coq(mx):
    if mx == "default":
        return "(Some 10000%N)"
    if mx is None:
        return "None"
    return f"(Some {mx}%N)"


SUPPORTED_TAGS = {"none", "bool", "int", "float", "str", "strbad", "list", "tuple", "path", "dict", "odict", "data", "date"}


def supported(e):
    t = e[0]
    if t in ("list", "tuple"):
        return all(supported(x) for x in e[1])
    if t in ("dict", "odict"):
        return all(supported(k) and supported(v) for (k, v) in e[1])
    if t == "data":
        return all(supported(v) for (_, v) in e[2])
    return t in SUPPORTED_TAGS


def shown(e, cap=300):
    t = D.show(e)
    return t if len(t) <= cap else t[:cap] + ".."


def differing_field(v1, v2):
    """Two values of the same shape: the innermost dataclass field whose values differ, as (holder, field name)."""
    t1, t2 = v1[0], v2[0]
    if t1 == t2 == "data" and [n for (n, _) in v1[2]] == [n for (n, _) in v2[2]]:
        for (n, a), (_, b) in zip(v1[2], v2[2]):
            if V.canon(a) != V.canon(b):
                return differing_field(a, b) or (v1, n)
    elif t1 in ("list", "tuple") and t2 in ("list", "tuple") and len(v1[1]) == len(v2[1]):
        for a, b in zip(v1[1], v2[1]):
            if V.canon(a) != V.canon(b):
                return differing_field(a, b)
    elif t1 in ("dict", "odict") and t2 in ("dict", "odict") and len(v1[1]) == len(v2[1]):
        for (ka, a), (kb, b) in zip(v1[1], v2[1]):
            if V.canon(ka) != V.canon(kb):
                return differing_field(ka, kb)
            if V.canon(a) != V.canon(b):
                return differing_field(a, b)
    return None


def collision_key(v1, v2):
    """Class of a collision between two values with different canonical forms: the classes of values.py (the known
    confusions of the encoding), refined for values that differ in one field of a declared dataclass."""
    cls = V.collision_class(V.canon(v1), V.canon(v2))
    if "UNCLASSIFIED" in cls:
        df = differing_field(v1, v2)
        if df is not None:
            # one class per leading declared property of the ignored field (the message shows all of them)
            cls = "collide:dataclass-field-ignored:" + D.field_flags(*df).split(",")[0]
    return cls


# A dataclass instance with a declared field that never got a value (init=False, no default, not assigned) is a legal
# Python object but not a value of the model (a field without a value): its outcome is recorded as an observation;
# set to True to report a low-level exception on it as a totality violation.
UNSET_FIELD_IS_VIOLATION = True


def keep_pairs(rep, tier, rng, groups, sig):
    """End to end on the real store: keep(path, f, a) then keep(path, f, b) for unequal a, b of one declared class must
    return f(b) (plain execution), never the result computed for a."""
    pairs = []
    for (fam, g) in groups:
        if fam.startswith("same:"):
            continue
        ok = [v for v in g if sig(v) is not None and V.canon(v) is not None]
        cand = [(ok[0], w) for w in ok[1:] if V.canon(w) != V.canon(ok[0])] if ok else []
        if tier == "quick" and len(cand) > 1:
            cand = [rng.choice(cand)]
        pairs += [(fam, a, b) for (a, b) in cand]
    outs = C.run_driver("drive_c05_keep.py", {"pairs": [[a, b] for (_, a, b) in pairs]}) if pairs else []
    kinds = {}
    for (fam, a, b), o in zip(pairs, outs):
        rep.case("keep:" + json.dumps([a, b], sort_keys=True))
        kinds[o["r"]] = kinds.get(o["r"], 0) + 1
        replay = {"pair": [a, b], "family": fam, "impl": o, "cmd": "harness/drive_c05_keep.py"}
        if o["r"] != "ok":
            rep.violation("keep-fails-on-hashable-values:" + o["r"], f"dds.keep fails ({o}) on values that dds_hash accepts: "
                          f"{shown(a)} / {shown(b)}", replay)
        elif o["r1"] != o["p1"] or o["r2"] != o["p2"]:
            cls = collision_key(a, b)
            key = cls if any(f.get("key") == cls for f in rep.known) else "stale-result-served:" + cls.split(":", 1)[1]
            rep.violation(key, f"keep(p, f, a) then keep(p, f, b) returned {o['r2']!r} for b (plain execution: {o['p2']!r}) with "
                          f"a = {shown(a)}, b = {shown(b)}", replay)
    return {"pairs": len(pairs), "outcomes": kinds}


def low_class(case, o):
    """Key of a low-level exception on a supported value (totality violation)."""
    return f"lowlevel:{o['exc']}"


def run_cases(rep, cases, label, texts=None):
    """cases: list of {"v":enc,"max":..}.  Compares impl (two hash seeds) with the model; returns impl outcomes.
    texts: a description of each case for the messages (default: the value itself)."""
    text = dict((id(c), t) for c, t in zip(cases, texts or []))
    out0 = C.run_driver("drive_c05.py", {"cases": cases}, hashseed="0")
    out1 = C.run_driver("drive_c05.py", {"cases": cases}, hashseed="12345")
    exprs = [f"run_hash {mx_coq(c.get('max', 'default'))} {V.to_coq(c['v'])}" for c in cases]
    model = C.coq_eval_strings(PRELUDE, exprs, label=label)
    # model-side validation of the normal-form theorem (HashProofs.hash_norm) on the same inputs
    nexprs = [f"run_hash None (norm {V.to_coq(c['v'])})" for c in cases]
    nmodel = C.coq_eval_strings(PRELUDE, nexprs, label=label + "n")
    for c, a, nm in zip(cases, out0, nmodel):
        if a["r"] == "ok" and nm != "ok:" + a["h"]:
            rep.violation("norm-mismatch", f"hash of the normal form differs from the implementation: {nm} vs {a['h']}",
                          {"case": c, "impl": a, "model_norm": nm})
    for c, a, b, m in zip(cases, out0, out1, model):
        if a["r"] == "skip":
            continue
        key = json.dumps(c, sort_keys=True)
        rep.case(key, nontrivial=V.size(c["v"]) > 1 or c["v"][0] not in ("other",))
        if a != b:
            rep.violation("nondeterministic-across-processes", "dds_hash differs between two processes with different hash seeds",
                          {"case": c, "seed0": a, "seed12345": b, "cmd": "harness/drive_c05.py"})
        ia = impl_str(a)
        if ia != m:
            rep.violation("model-mismatch:" + (ia.split(":")[0] + "-vs-" + m.split(":")[0]),
                          f"implementation and Coq model disagree on {text.get(id(c)) or shown(c['v'])}: impl={ia} model={m}",
                          {"case": c, "impl": ia, "model": m, "replay_cmd": "./check C05 --replay <this file>"})
        if a["r"] == "low" and supported(c["v"]):
            rep.violation(low_class(c, a), f"low-level exception {a['exc']} escapes dds_hash on the supported value {shown(c['v'])}",
                          {"case": c, "impl": ia})
    return out0


def is_spec(x):
    """Members of the collision groups: encoded values, or {"spec": ..} for the long values of harness/c05_len.py."""
    return isinstance(x, dict)


def val_of(x):
    return L.expand(x["spec"]) if is_spec(x) else x


def text_of(x):
    return L.describe(x["spec"]) if is_spec(x) else shown(x)


def length_dimension(rep, tier, rng, groups):
    """Containers and texts of the boundary lengths, their re-groupings and edits (harness/c05_len.py): every one ends as the
    documented rule says (a signature, or SEQUENCE_TOO_LONG iff some container is longer than hash.max_sequence_size), the same
    in two processes; the signatures join the collision search (groups); a few go to the Coq model; a few pairs go end to end."""
    specs, opts, model, pairs = L.enumerate_specs(rng, tier)
    todo = [(s, "default") for s in specs] + opts
    payload = {"cases": [{"v": L.expand(s), "max": mx} for (s, mx) in todo]}
    out0, out1, batch, nb = [], [], [], 0
    for i, c in enumerate(payload["cases"]):        # batches of bounded size: the values are long
        batch.append(c)
        nb += V.size(c["v"])
        if nb > 400000 or i == len(todo) - 1:
            out0 += C.run_driver("drive_c05.py", {"cases": batch}, hashseed="0")
            out1 += C.run_driver("drive_c05.py", {"cases": batch}, hashseed="12345")
            batch, nb = [], 0
    kinds, nel = {}, 0
    for (s, mx), c, a, b in zip(todo, payload["cases"], out0, out1):
        rep.case(L.skey(s, mx))
        nel += V.size(c["v"])
        replay = {"spec": s, "max": mx, "impl": a, "cmd": "harness/drive_c05.py"}
        if a != b:
            rep.violation("nondeterministic-across-processes", f"dds_hash differs between two processes with different hash seeds on "
                          f"{L.describe(s)}", dict(replay, seed12345=b))
        want = "dds:SEQUENCE_TOO_LONG" if L.too_long(c["v"], L.MAXLEN if mx == "default" else mx) else "ok"
        got = "ok" if a["r"] == "ok" else impl_str(a)
        kinds[got] = kinds.get(got, 0) + 1
        if a["r"] == "low":
            rep.violation(low_class(c, a), f"low-level exception {a['exc']} escapes dds_hash on {L.describe(s)}", replay)
        elif got != want:
            rep.violation(f"length-outcome:{got}-vs-{want}", f"dds_hash ends with {got} (documented: {want}, hash.max_sequence_size="
                          f"{L.MAXLEN if mx == 'default' else mx}) on {L.describe(s)}", dict(replay, expected=want))
        if a["r"] == "ok" and mx == "default":
            cf = ("long", hashlib.sha256(repr(V.canon(c["v"])).encode()).hexdigest())
            groups.setdefault(a["h"], {}).setdefault(cf, {"spec": s})
    # the Coq model on a few
    mcases = [{"v": L.expand(s), "max": mx} for (s, mx) in model]
    run_cases(rep, mcases, "c05len", texts=[L.describe(s) for (s, _) in model])
    # end to end
    pouts = C.run_driver("drive_c05_keep.py", {"pairs": [[L.expand(a), L.expand(b)] for (a, b) in pairs]})
    for (a, b), o in zip(pairs, pouts):
        rep.case("keep:" + L.skey(a) + L.skey(b))
        replay = {"pair_spec": [a, b], "impl": dict((k, (v if len(str(v)) < 200 else str(v)[:200] + "..")) for (k, v) in o.items()),
                  "cmd": "harness/drive_c05_keep.py"}
        if o["r"] != "ok":
            rep.violation("keep-fails-on-hashable-values:" + o["r"], f"dds.keep fails ({o}) on values that dds_hash accepts: "
                          f"{L.describe(a)} / {L.describe(b)}", replay)
        elif o["r1"] != o["p1"] or o["r2"] != o["p2"]:
            rep.violation("stale-result-served:" + L.relation(a, b).split(":", 1)[1],
                          f"keep(p, f, a) then keep(p, f, b) returned the text of {'a' if o['r2'] == o['p1'] else 'neither a nor b'} for b "
                          f"(plain execution: f(b)) with a = {L.describe(a)}, b = {L.describe(b)}", replay)
    by = {}
    for (s, _) in todo:
        k = s["kind"] + ("" if not s.get("group") else ":regrouped") + ("" if not s.get("edit") else ":edited")
        by[k] = by.get(k, 0) + 1
    return {"lengths": L.LENGTHS, "block_sizes_of_the_regroupings": L.BLOCKS, "values": len(specs), "values_by_shape": by,
            "option_cases": len(opts), "elements_hashed": nel, "outcome_kind": kinds, "sent_to_the_model": len(model),
            "keep_pairs": len(pairs)}


def run(rep, tier, seed, proof_ok):
    rng = random.Random(seed)
    rep.rule = ("values enumerated over an alphabet of boundary atoms (ints around +-2^31 and beyond, signed zeros, nan/inf, "
                "empty/separator/marker/4-byte/8-byte/hex-join strings, lone surrogate, paths, dates, unsupported types), all "
                "width<=1 and sampled width-2 sequences, dicts, dataclasses, constructed confusions, random nesting<=4; DECLARED classes "
                "(harness/c05_decl.py: dataclasses written as source - fields with init=False set in __post_init__ from an InitVar / a "
                "constant / another field or assigned after construction, default / default_factory, compare / repr / hash / kw_only "
                "flags, ClassVar / InitVar / class attributes / methods / properties / non-field attributes (not fields), frozen / slots "
                "/ eq / order / unsafe_hash / kw_only classes, inheritance chains with redeclared fields, private / unicode / marker-like "
                "field names, nesting in fields / lists / dicts / dict keys; namedtuples, subclasses of builtin types, defaultdict / "
                "Counter, enum members; nested empty containers), in groups of one class whose members differ in exactly one field of "
                "dataclasses.fields() (systematic families + random declarations); the expected field view comes from a model of "
                "the dataclass semantics re-checked in the driver against fields() / getattr / asdict; each run in two "
                "processes (PYTHONHASHSEED 0 / 12345) and in the Coq model (vm_compute, executable SHA-256); distinct = distinct "
                "encoded (value, option) case; non-trivial = not a bare unsupported atom; all pairs grouped by signature for collisions; one "
                "pair per declared group (all pairs in the thorough tier) end to end: keep(p, f, a) then keep(p, f, b) on a local store "
                "against the plain execution f(b); LENGTH dimension (harness/c05_len.py): lists / tuples / dicts / OrderedDicts / dataclass "
                "field lists / texts of the boundary lengths 255, 256, 257, 1023, 1024, 1025, 2048, 2049, 4096, 9999, 10000 "
                "(= hash.max_sequence_size), 10001 over four element families (distinct ints, constant, strings, mixed atoms), with "
                "their RE-GROUPINGS (the list of the k-element slices for k in the same set and 2, 16; k-ary trees of slices; [x[:p], "
                "x[p:]]; [x]; x[:p] + [x[p:]]; [x[:p]] + x[p:]: the flat sequence is the flattening / concatenation of each) and EDITS "
                "at block-boundary positions (one element / key / field name replaced, removed, two elements swapped, rotation), at top "
                "level and inside a list / dict value / dataclass field, and under hash.max_sequence_size = n-1, n, None: outcome "
                "against the documented rule (signature, or SEQUENCE_TOO_LONG iff a container is longer than the option) in two "
                "processes, all signatures in the same all-pairs collision search (no model needed), a few per run in the Coq model, "
                "a few (sequence, re-grouping) and (sequence, edit) pairs end to end through dds.keep")
    rep.assumptions += [
        "SHA-256 collision resistance (theorems conclude '... or H_collision H')",
        "RecursionError for nesting beyond the interpreter limit is outside the model",
        "repr() of datetime objects and str() of PurePosixPath are taken from CPython (generator side)",
    ]
    vals = V.enumerate_values(rng, tier if proof_ok else "thorough")
    dvals, dgroups = D.enumerate_declared(rng, tier if proof_ok else "thorough")
    vals = vals + dvals
    cases = [{"v": v, "max": "default"} for v in vals]
    # option variations on a sample
    for v in rng.sample(vals, 120 if tier == "quick" else 800):
        cases.append({"v": v, "max": rng.choice([0, 1, 2, None])})
    outs = run_cases(rep, cases, "c05")
    # distribution
    dist = {}
    for c in cases:
        dist[c["v"][0]] = dist.get(c["v"][0], 0) + 1
    kinds = {}
    for o in outs:
        k = o["r"] if o["r"] != "dds" else "dds:" + o["code"]
        k = k if o["r"] != "low" else "low:" + o["exc"]
        kinds[k] = kinds.get(k, 0) + 1
    fams = {}
    for (fam, g) in dgroups:
        fam = "random" if fam.startswith("random") else fam
        fams[fam] = fams.get(fam, 0) + len(g)
    rep.extra["input_distribution"] = {"top_level_kind": dist, "outcome_kind": kinds,
                                       "max_depth": max(V.depth(c["v"]) for c in cases),
                                       "max_size": max(V.size(c["v"]) for c in cases),
                                       "declared_classes": {"values": len(dvals), "groups": len(dgroups),
                                                            "random_declarations": sum(1 for (f, _) in dgroups if f.startswith("random")),
                                                            "random_by_kind_of_the_differing_field": dict(
                                                                (k, sum(1 for (f, _) in dgroups if f == k)) for k in sorted(
                                                                    set(f for (f, _) in dgroups if f.startswith("random")))),
                                                            "values_by_family": fams}}
    for c in cases[:3] + cases[len(vals) // 2: len(vals) // 2 + 2]:
        rep.sample({"value": c["v"], "max_sequence_size": c["max"]})
    # collision search: all pairs, grouped by signature (default option only)
    groups = {}
    for c, o in zip(cases[:len(vals)], outs[:len(vals)]):
        if o["r"] == "ok":
            cf = V.canon(c["v"])
            if cf is not None:
                groups.setdefault(o["h"], {}).setdefault(cf, c["v"])
    # the length dimension: its own generator (the draws above are unchanged), the same collision groups
    rep.extra["input_distribution"]["length_dimension"] = length_dimension(rep, tier, random.Random(f"{seed}:length"), groups)
    ncoll = 0
    for h, m in groups.items():
        if len(m) > 1:
            items = list(m.items())
            for i in range(len(items)):
                for j in range(i + 1, len(items)):
                    ncoll += 1
                    x1, x2 = items[i][1], items[j][1]
                    cls = collision_key(val_of(x1), val_of(x2))
                    if "UNCLASSIFIED" in cls and is_spec(x1) and is_spec(x2):
                        cls = L.relation(x1["spec"], x2["spec"])
                    rep.violation(cls, f"two values that differ beyond the documented identifications share signature {h[:12]}..: "
                                  f"{text_of(x1)} / {text_of(x2)}",
                                  {("spec1" if is_spec(x1) else "v1"): (x1["spec"] if is_spec(x1) else x1),
                                   ("spec2" if is_spec(x2) else "v2"): (x2["spec"] if is_spec(x2) else x2), "signature": h})
    rep.extra["collision_search"] = {"signatures": len(groups), "colliding_pairs_beyond_documented": ncoll}
    # declared classes, end to end: the result computed for one value is never served for the other
    sigs = dict((json.dumps(c["v"], sort_keys=True), o["h"]) for c, o in zip(cases[:len(vals)], outs[:len(vals)]) if o["r"] == "ok")
    rep.extra["keep_pairs"] = keep_pairs(rep, tier, rng, dgroups, lambda v: sigs.get(json.dumps(v, sort_keys=True)))
    # observation: a declared field without a value
    probes = D.unset_probes()
    pouts = C.run_driver("drive_c05.py", {"cases": [{"v": v, "max": "default"} for v in probes]})
    rep.extra["observations"] = {"dataclass_with_unset_init_false_field": [
        {"value": shown(v) + " + field " + ",".join(v[3]["unset"]) + " declared with init=False and never assigned", "outcome": impl_str(o)}
        for v, o in zip(probes, pouts)]}
    for v, o in zip(probes, pouts):
        if UNSET_FIELD_IS_VIOLATION and o["r"] == "low":
            rep.violation("lowlevel-unset-field:" + o["exc"], f"low-level exception {o['exc']} escapes dds_hash on {shown(v)} whose field "
                          "was never assigned", {"case": {"v": v, "max": "default"}, "impl": impl_str(o)})


def replay(path):
    r = json.load(open(path))["replay"]
    # the long values of harness/c05_len.py are stored as specs
    if "pair_spec" in r:
        r["pair"] = [L.expand(x) for x in r["pair_spec"]]
    if "spec" in r:
        v = L.expand(r["spec"])
        out = C.run_driver("drive_c05.py", {"cases": [{"v": v, "max": r["max"]}]})
        print(json.dumps({"spec": r["spec"], "value": L.describe(r["spec"]), "max": r["max"], "impl": out, "expected": r.get("expected")}, indent=1))
        bad = out[0]["r"] == "low" or ("expected" in r and ("ok" if out[0]["r"] == "ok" else impl_str(out[0])) != r["expected"])
        print("REPRODUCED" if bad else "not reproduced")
        return 1 if bad else 0
    for (k, sk) in (("v1", "spec1"), ("v2", "spec2")):
        if sk in r:
            print(k, "=", L.describe(r[sk]))
            r[k] = L.expand(r[sk])
    if "pair" in r:
        out = C.run_driver("drive_c05_keep.py", {"pairs": [r["pair"]]})
        print(json.dumps({"pair": r.get("pair_spec", r["pair"]), "impl": out}, indent=1)[:4000])
        bad = out[0]["r"] != "ok" or out[0]["r1"] != out[0]["p1"] or out[0]["r2"] != out[0]["p2"]
        print("REPRODUCED" if bad else "not reproduced")
        return 1 if bad else 0
    cases = [r["case"]] if "case" in r else [{"v": r["v1"], "max": "default"}, {"v": r["v2"], "max": "default"}]
    out = C.run_driver("drive_c05.py", {"cases": cases})
    print(json.dumps({"cases": cases if len(str(cases)) < 4000 else "(long values, see above)", "impl": out}, indent=1))
    if "case" in r:
        bad = out[0]["r"] == "low" or ("model" in r and impl_str(out[0]) != r["model"])
    else:
        bad = out[0].get("h") == out[1].get("h")
    print("REPRODUCED" if bad else "not reproduced")
    return 1 if bad else 0
