"""C03 - signatures depend only on program content, never on the environment."""
import concurrent.futures as cf
import json
import random

import c03_env
import c03_imports
import common as C
import corpus
import hist
import progs as P
import values as V

COQ_FILES = ("L3_Sig/Program.v", "L3_Sig/Sig.v", "L3_Sig/RunSig.v", "L4_Eval/RunEval.v", "L0_Hash/CommutProofs.v", "Properties/C03.v")
EXTRACTED = ("ConstHash", "ConstSig")
ALLOWED_AXIOMS = ()

VARIANTS = [
    ("hashseed=1", dict(hashseed="1")),
    ("hashseed=random", dict(hashseed="random")),
    ("cwd=elsewhere", dict(cwd="some/other/dir")),
    ("store=memory", dict(store_kind="memory")),
    ("store=noop", dict(store_kind="noop")),
    ("store=local+lru", dict(store_kind="local+lru")),
    ("extra_debug=off", dict(options={"extra_debug": False})),
    ("graph-export=on", dict(export=True)),
    ("accept_list=off-irrelevant", dict(hashseed="7", cwd="x")),
]


def plan(seed):
    rng = random.Random(seed)
    prog = P.gen_program(rng, n_mods=1 if seed % 2 else None, allow_classes=(seed % 3 == 0 and seed % 2 == 0))      # single-module programs (odd seeds) also run as script / notebook; classes only in packages (inspect cannot find class sources in __main__ of the harness)
    call = P.root_call(prog, rng)
    jobs = [("baseline", [("prog", prog), ("act", call)], {})]
    for name, kw in VARIANTS:
        kw = dict(kw)
        c = dict(call)
        if kw.pop("export", False):
            c["export"] = True
        jobs.append((name, [("prog", prog), ("act", c)], kw))
    # history in the same process: evaluate, change a variable, evaluate, change it back, evaluate; and a sub-node first
    cands = [(m, v) for (m, n) in P.reachable(prog, *prog["root"]) for v in P.find_func(prog, m, n)["reads"]]
    ev = [("prog", prog), ("act", call)]
    if cands:
        m, v = rng.choice(cands)
        old = prog["modules"][m]["vars"][v]
        new = rng.choice([x for x in P.VAR_VALUES if V.canon(x) != V.canon(old)])
        ev += [("act", {"a": "setvar", "mod": m, "name": v, "value": new}), ("act", call),
               ("act", {"a": "setvar", "mod": m, "name": v, "value": old})]
    datas = [(m, n) for (m, n) in P.reachable(prog, *prog["root"]) if P.find_func(prog, m, n).get("annot") and (m, n) != tuple(prog["root"])]
    if datas:
        m, n = rng.choice(datas)
        ev.append(("act", {"a": "call", "mod": m, "fn": n, "style": "direct", "pos": [], "kw": []}))
    ev.append(("act", call))
    jobs.append(("after-earlier-evaluations-in-process", ev, dict(store_kind="memory")))
    # source edits made while the process lives (module rewritten and reloaded) that leave the compiled code of the function
    # unchanged: a comment, a default value, a decorator path; then the revert.  Each version is also analysed by a fresh process.
    import copy
    reach = P.reachable(prog, *prog["root"])
    versions = []
    p1 = copy.deepcopy(prog)
    m, n = rng.choice(reach)
    P.find_func(p1, m, n)["comment"] = "reviewed"
    versions.append(("comment", p1))
    with_def = [(m, n, i) for (m, n) in reach for i, q in enumerate(P.find_func(prog, m, n)["params"]) if q.get("default") is not None]
    if with_def:
        p2 = copy.deepcopy(p1)
        m, n, i = rng.choice(with_def)
        old = P.find_func(p2, m, n)["params"][i]["default"]
        P.find_func(p2, m, n)["params"][i]["default"] = rng.choice([d for d in P.DEFAULTS if d != old])
        versions.append(("default-value", p2))
    if datas:
        p3 = copy.deepcopy(versions[-1][1])
        m, n = rng.choice(datas)
        P.find_func(p3, m, n)["annot"] += "_moved"
        versions.append(("decorator-path", p3))
    versions.append(("revert", copy.deepcopy(prog)))
    ev = [("prog", prog), ("act", call)]
    for kind, pv in versions:
        ev += [("act", {"a": "reprog", "prog": pv}), ("act", call)]
    jobs.append(("in-process-source-edits", ev, dict(store_kind="memory")))
    if len(prog["modules"]) == 1:
        # the same code used as the __main__ script of the process, and typed into cells of an IPython shell
        jobs.append(("usage=script", [("prog", prog), ("act", call)], dict(usage="script", store_kind="memory")))
        jobs.append(("usage=notebook", [("prog", prog), ("act", call)], dict(usage="notebook", store_kind="memory")))
        edits = [e for e in P.edit_catalogue(prog, rng) if e[0] in ("body", "var", "literal")]
        if edits:
            kind, info, pe = rng.choice(edits)
            evn = [("prog", prog), ("act", call), ("act", {"a": "reprog", "prog": pe}), ("act", call), ("act", {"a": "reprog", "prog": copy.deepcopy(prog)}), ("act", call)]
            jobs.append(("notebook-redefinition", evn, dict(usage="notebook", store_kind="memory")))
    for kind, pv in versions:
        jobs.append(("fresh:" + kind, [("prog", pv), ("act", call)], dict(store_kind="memory")))
    return {"seed": seed, "prog": prog, "call": call, "jobs": jobs}


def redefinition_scenario():
    """F20: evaluate f (which calls g); then g disappears and f is redefined without it, in the same process; a fresh
    process evaluates the new code fine, so must the old one (same signatures)."""
    import values as V
    p0 = {"pkg": "vpr", "ext_helpers": {}, "root": ("m0", "f"), "modules": {"m0": {"vars": {}, "funcs": [
        {"name": "g", "params": [], "annot": None, "salt": "g0", "stmts": [], "reads": []},
        {"name": "f", "params": [], "annot": "/f", "salt": "f0", "stmts": [{"k": "call", "callee": ("m0", "g"), "args": []}], "reads": []}]}}}
    p1 = {"pkg": "vpr", "ext_helpers": {}, "root": ("m0", "f"), "modules": {"m0": {"vars": {}, "funcs": [
        {"name": "f", "params": [], "annot": "/f", "salt": "f1", "stmts": [], "reads": []}]}}}
    call = {"a": "call", "mod": "m0", "fn": "f", "style": "direct", "pos": [], "kw": []}
    same_process = [("prog", p0), ("act", call), ("act", {"a": "reprog", "prog": p1}), ("act", call)]
    fresh = [("prog", p1), ("act", call)]
    return same_process, fresh


def name_clash_scenario():
    """A module-level tracked variable has the name of a function (or of a nested-def parameter) that an EARLIER analysed
    function of another module mentions: the decision taken for one name must not leak to the other."""
    import values as V
    m0 = {"vars": {}, "funcs": [
        {"name": "scale", "params": [], "annot": None, "salt": "sc0", "stmts": [], "reads": []},
        {"name": "report", "params": [], "annot": "/report", "salt": "rp0", "stmts": [{"k": "call", "callee": ("m0", "scale"), "args": []}], "reads": []}]}
    m1 = {"vars": {"scale": V.i_(10), "window": V.i_(3)}, "funcs": [
        {"name": "feat", "params": [], "annot": "/feat", "salt": "ft0", "stmts": [], "reads": ["scale", "window"]},
        {"name": "root", "params": [], "annot": None, "salt": "rt0", "reads": [],
         "stmts": [{"k": "call", "callee": ("m0", "report"), "args": [], "via": "attr"}, {"k": "call", "callee": ("m1", "feat"), "args": []}]}]}
    prog = {"pkg": "vpn", "ext_helpers": {}, "root": ("m1", "root"), "modules": {"m0": m0, "m1": m1}}
    root = {"a": "call", "mod": "m1", "fn": "root", "style": "eval", "pos": [], "kw": []}
    rep_ = {"a": "call", "mod": "m0", "fn": "report", "style": "direct", "pos": [], "kw": []}
    feat = {"a": "call", "mod": "m1", "fn": "feat", "style": "direct", "pos": [], "kw": []}
    return [("one-evaluation", [("prog", prog), ("act", root)]),
            ("after-earlier-evaluation", [("prog", prog), ("act", rep_), ("act", feat)]),
            ("fresh", [("prog", prog), ("act", feat)])]


def run_job(job):
    name, ev, kw = job
    try:
        recs = hist.run_history(ev, run_ref=False, run_model=(name in ("baseline", "after-earlier-evaluations-in-process", "in-process-source-edits",
                                                                       "one-evaluation", "after-earlier-evaluation", "fresh",
                                                                       "usage=script", "usage=notebook", "notebook-redefinition")), **kw)
        return recs
    except Exception as e:  # noqa
        return {"error": str(e)[-1000:]}


def run(rep, tier, seed, proof_ok):
    n_prog = 5 if tier == "quick" and proof_ok else 50
    n_env = c03_env.n_programs(tier)
    n_imp = c03_imports.n_programs(tier)
    rep.rule = (f"{n_prog} random pipelines x {{PYTHONHASHSEED 0/1/7/random, other working directory, fresh package directory per run, "
                "store kinds local/memory/noop/local+object-cache, extra_debug off, graph export on, after earlier evaluations and a "
                "variable change + revert in the same process, source edits that keep the compiled code (comment / default value / decorator path / "
                "revert) made while the process lives vs a fresh process on the same files, the same single-module code run as the __main__ script and "
                "as IPython notebook cells (with redefinition of the cells)}: every signature map must equal the baseline and the Coq model's; plus "
                f"the execution environment of an evaluation: {n_env} deep pipelines (a chain of 60-100 helper functions over two modules linked by plain calls, "
                "by functions passed by name to map / max(key=) / an apply helper / bound to a local alias, by dds.keep nodes, a dds.load at the bottom; entry "
                "through dds.eval or dds.keep) x {caller stack depth " + ("0/50/100/200/400/800" if tier == "quick" else "0..975 step 25") + " extra frames under the default "
                "recursion limit, recursion limits 350/500/700/3000/20000 with caller depths up to 3000 (+ random limit x depth x thread x tracer x source-file combinations in the thorough tier), a worker "
                "thread, sys.settrace / sys.setprofile installed, source file of the helper or of the entry module gone / replaced by its .pyc / package "
                "directory renamed after import, linecache cleared, helper module imported from a .pyc without source, PYTHONHASHSEED=random}: each environment "
                "must hand the same path -> signature map to the store as the reference (limit 20000, shallow stack, sources in place; its value must equal the "
                "plain execution of the same text) and return the same value, or fail loudly with no other map synced and no blob stored under a key the reference "
                "does not assign; plus the "
                f"import state of the process: {n_imp} programs of 8-10 kept functions (the quick tier deals the whole catalogue over its programs) that bind names inside their bodies otherwise than by assignment (import X / import X as a / "
                "import X as <name of another module> / import p.sub / import p.sub.deep / from X import f / from p import sub, also where a top-level module of that name exists / "
                "import of a non-accepted and of a standard-library module / an import in a dead branch / in a helper reached by a call or passed by name / of a module that itself keeps a "
                "path; parameter of an inner function or of a lambda, name of an inner function, `except ... as` name that coincide with an importable accepted or standard-library module; "
                "controls: a helper imported at the top of the module, a function without any of these) x "
                "{fresh process, the same process again (the bodies executed their imports), helper modules imported by unrelated code before / after the module of the pipeline, a random half of "
                "them imported, imported and then removed from sys.modules before / after the module of the pipeline was imported, after another pipeline of the module that uses some of the helpers" +
                ("" if tier == "quick" else ", only top-level / only sub-modules / only standard-library modules imported, sub-modules evicted with and without the attribute of the parent "
                 "package, evicted between two evaluations, PYTHONHASHSEED=random, random import / evict / warm-up sequences") +
                "}: every evaluation of an entry function must hand the same path -> signature map to the store as its first evaluation in a fresh process (whose value must equal the plain "
                "execution of the same text with a pass-through stub for dds) and return the same value, or fail loudly with no other map synced and no stray blob; the driver reports which modules "
                "were in sys.modules before each evaluation (counted); plus the "
                f"pinned corpus corpus/C03 ({len(corpus.corpus_programs())} programs): implementation and model must reproduce the "
                "committed signatures byte for byte; distinct = distinct (program, variant); non-trivial = the evaluation keeps at least one path")
    plans = [plan(seed * 1000 + i) for i in range(n_prog)]
    flat = [j for pl in plans for j in pl["jobs"]]
    with cf.ThreadPoolExecutor(max_workers=C.NPROC) as ex:
        flat_fut = [ex.submit(run_job, j) for j in flat]
        env_started = c03_env.start(tier, seed, ex)
        imp_started = c03_imports.start(tier, seed, ex)
        flat_res = [f.result() for f in flat_fut]
        corp = ex.submit(corpus.check)
        corp = corp.result()
    k = 0
    vcount = {}
    for pl in plans:
        base = None
        inproc = []
        for (name, ev, kw) in pl["jobs"]:
            recs = flat_res[k]
            k += 1
            if isinstance(recs, dict):
                rep.violation("harness-error:c03", f"variant {name} could not be run: {recs['error'][-300:]}", {"variant": name, "events": ev}, no_input=True)
                continue
            last = [r for r in recs if r["act"]["a"] == "call"][-1]
            o = hist.impl_obs(last)
            sig = o["sigs"] if o["sigs"] is not None else o["out"]
            rep.case(f"{pl['seed']}:{name}", nontrivial=bool(o["sigs"]))
            vcount[name] = vcount.get(name, 0) + 1
            if name == "in-process-source-edits":
                inproc = [hist.impl_obs(r) for r in recs if r["act"]["a"] == "call"][1:]
                inproc = [x["sigs"] if x["sigs"] is not None else x["out"] for x in inproc]
                continue_cmp = True
            elif name.startswith("fresh:"):
                idx = [j[0] for j in pl["jobs"] if j[0].startswith("fresh:")].index(name)
                if idx < len(inproc) and inproc[idx] != sig:
                    rep.violation("history-dependent:in-process-source-edit:" + name[6:],
                                  f"after the source edit '{name[6:]}' made while the process lives the signatures are {str(inproc[idx])[:80]}, a fresh "
                                  f"process computes {str(sig)[:80]} for the same files", {"variant": name, "events": [j for j in pl["jobs"] if j[0] == "in-process-source-edits"][0][1],
                                                                                       "in_process": inproc[idx], "fresh": sig})
            elif name == "notebook-redefinition":
                pass        # compared with the model below (the edited version has other signatures than the baseline)
            elif name == "baseline":
                base = sig
            elif sig != base:
                rep.violation("env-dependent:" + name.split("=")[0], f"signatures differ between the baseline and variant '{name}'",
                              {"variant": name, "baseline": base, "variant_sigs": sig, "events": ev, "options": {k2: str(v) for k2, v in kw.items()}})
            for r in recs:
                d = [x for x in hist.compare(r) if x[0] in ("signatures", "outcome")]
                if d:
                    rep.violation("model-mismatch:signatures", f"implementation and model disagree ({name}): {json.dumps(d)[:300]}",
                                  {"variant": name, "diffs": d, "events": ev})
        rep.sample({"entry": pl["call"], "baseline_signatures": (base or "")[:200]}, cap=2)
    # redefinition in the same process (notebook style) vs a fresh process
    sp, fr = redefinition_scenario()
    r1 = run_job(("redefinition-same-process", sp, dict(store_kind="memory")))
    r2 = run_job(("baseline", fr, dict(store_kind="memory")))
    rep.case("redefinition-in-process")
    if isinstance(r1, dict) or isinstance(r2, dict):
        rep.violation("harness-error:c03", "redefinition scenario could not be run", {"r1": str(r1)[:300], "r2": str(r2)[:300]}, no_input=True)
    else:
        o1, o2 = hist.impl_obs(r1[-1]), hist.impl_obs(r2[-1])
        s1 = o1["sigs"] if o1["sigs"] is not None else o1["out"]
        s2 = o2["sigs"] if o2["sigs"] is not None else o2["out"]
        if s1 != s2:
            rep.violation("history-dependent:redefinition-after-helper-removed",
                          f"after an earlier evaluation in the same process the redefined function gives {s1[:80]}, a fresh process gives {s2[:80]}",
                          {"same_process": sp, "fresh": fr, "same_process_result": s1, "fresh_result": s2})
    # a relative path value with '..' segments, analysed from two working directories
    import values as V
    pprog = {"pkg": "vpp", "ext_helpers": {}, "root": ("m0", "feat"), "modules": {"m0": {"vars": {"DATA_DIR": ["path", b"../data/in.csv".hex()]}, "funcs": [
        {"name": "feat", "params": [{"name": "a", "default": ["path", b"../../x".hex()]}], "annot": "/feat", "salt": "ft0", "stmts": [], "reads": ["DATA_DIR"]}]}}}
    pcall = {"a": "call", "mod": "m0", "fn": "feat", "style": "direct", "pos": [], "kw": []}
    psigs = {}
    for nm, kw in (("cwd=default", {}), ("cwd=elsewhere", dict(cwd="deep/er/dir")), ("cwd=other", dict(cwd="x"))):
        recs = run_job(("baseline", [("prog", pprog), ("act", pcall)], dict(kw, store_kind="memory")))
        rep.case("relative-path-value:" + nm)
        if isinstance(recs, dict):
            rep.violation("harness-error:c03", "relative-path scenario could not be run: " + recs["error"][-300:], {}, no_input=True)
            continue
        psigs[nm] = hist.impl_obs(recs[-1])["sigs"]
        d = [x for x in hist.compare(recs[-1]) if x[0] in ("signatures", "outcome")]
        if d:
            rep.violation("model-mismatch:signatures", f"relative path value ({nm}): implementation and model disagree: {json.dumps(d)[:300]}", {"variant": nm, "diffs": d})
    if len(set(psigs.values())) > 1:
        rep.violation("env-dependent:cwd", "the signature of a function reading a relative path value with '..' depends on the working directory",
                      {"signatures_by_cwd": psigs, "program": pprog})
    # name clash between a function of one module and a tracked variable of another
    ncs = name_clash_scenario()
    nres = [run_job((n, ev, dict(store_kind="memory"))) for n, ev in ncs]
    sig_feat = {}
    for (n, ev), recs in zip(ncs, nres):
        rep.case("name-clash:" + n)
        if isinstance(recs, dict):
            rep.violation("harness-error:c03", "name-clash scenario could not be run: " + recs["error"][-300:], {"events": ev}, no_input=True)
            continue
        for r in recs:
            d = [x for x in hist.compare(r) if x[0] in ("signatures", "outcome")]
            if d:
                rep.violation("model-mismatch:signatures", f"name clash ({n}): implementation and model disagree: {json.dumps(d)[:300]}", {"variant": n, "diffs": d, "events": ev})
        o = hist.impl_obs(recs[-1])
        sig_feat[n] = dict(x.split("=") for x in (o["sigs"] or "").split(",") if x).get("/feat")
    if sig_feat.get("after-earlier-evaluation") != sig_feat.get("fresh"):
        rep.violation("history-dependent:name-clash", "the signature of a function reading a tracked variable depends on whether a function of another module "
                      "that mentions a function of the same name was analysed earlier in the process", {"signatures_of_/feat": sig_feat, "events": ncs[1][1]})
    # the execution environment of an evaluation (caller stack depth, recursion limit, thread, tracer, source files, ...)
    env_stats = c03_env.finish(rep, env_started)
    # the import state of the process (function-local imports and names that coincide with importable modules)
    imp_stats = c03_imports.finish(rep, imp_started)
    npin = 0
    for r in corp:
        rep.case("corpus:" + r["name"], nontrivial=bool(r["pinned"]))
        npin += 1
        if r["impl"] != r["pinned"]:
            rep.violation("corpus-changed:" + r["name"], f"pinned corpus entry {r['name']}: implementation no longer reproduces the committed signatures",
                          {"entry": r["name"], "pinned": r["pinned"], "impl": r["impl"], "file": f"corpus/C03/{r['name']}.json"})
        if r["model"] != r["pinned"]:
            rep.violation("model-mismatch:corpus", f"pinned corpus entry {r['name']}: the Coq model no longer reproduces the committed signatures",
                          {"entry": r["name"], "pinned": r["pinned"], "model": r["model"]})
    rep.extra["input_distribution"] = {"programs": len(plans), "variants": vcount, "corpus_entries": npin, "execution_environments": env_stats,
                                       "import_states": imp_stats}


def replay(path):
    r = json.load(open(path))["replay"]
    if "exec_env" in r:
        return c03_env.replay(r)
    if "import_state" in r:
        return c03_imports.replay(r)
    if "entry" in r:
        res = [x for x in corpus.check() if x["name"] == r["entry"]][0]
        print(json.dumps(res, indent=1))
        bad = res["impl"] != res["pinned"]
    else:
        import c01
        return c01.replay(path)
    print("REPRODUCED" if bad else "not reproduced")
    return 1 if bad else 0
