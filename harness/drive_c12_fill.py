"""Implementation driver for the C12 fill dimension (c12_fill.py): operation sequences over key sets LARGER than the
capacity, on real dds stores wrapped with the object cache, with the bound measured after EVERY operation.
stdin: {"jobs":[{"store":"memory"|"local","cap":int|"default"|"bare","via":"ctor"|"set_store","clients":n?,"ops":[...]}]}
  via=ctor       LRUCacheStore(store, num_elem=cap)
  via=set_store  dds.set_store(store, ..., cache_objects=cap)   ("default": cache_objects=True)
per job: outs (answers), lens (entries in the cache after every operation; max over the clients), alive (fetched objects
that are still alive after every operation - weak references, counted again after a gc pass when the count exceeds the
bound; [] for the memory store, which keeps every object itself), bound (the configured bound: cap, or the library's documented default for cache_objects=True)."""
import gc
import json
import os
import shutil
import sys
import tempfile


# the local store's directories live in memory when the machine offers it (the sequences are long; same file semantics)
FAST_TMP = "/dev/shm" if os.path.isdir("/dev/shm") and os.access("/dev/shm", os.W_OK | os.X_OK) else None


def open_store(job, root):
    """-> (list of client stores, configured bound or None for the bare store)"""
    import drive_store as D
    from dds._lru_store import LRUCacheStore, default_cache_size
    cap = job["cap"]
    nc = job.get("clients") or 1
    if cap == "bare":
        return [D.mk(job["store"], root)] * nc, None
    bound = default_cache_size if cap == "default" else cap
    if job.get("via") == "set_store":
        import dds
        from dds import _api
        kw = {"cache_objects": True if cap == "default" else cap}
        if job["store"] == "local":
            kw.update(internal_dir=os.path.join(root, "internal"), data_dir=os.path.join(root, "data"))
        dds.set_store(job["store"], **kw)
        st = _api._store()
        if not isinstance(st, LRUCacheStore):
            raise RuntimeError(f"set_store(cache_objects={kw['cache_objects']!r}) did not wrap the store: {st!r}")
        return [st], bound
    inner = D.mk(job["store"], root)
    return [LRUCacheStore(inner, num_elem=bound) for _ in range(nc)], bound


def main():
    import drive_store as D
    from dds._lru_store import LRUCacheStore
    payload = json.load(sys.stdin)
    res = []
    for job in payload["jobs"]:
        root = tempfile.mkdtemp(prefix="drvc12fill_", dir=FAST_TMP)
        try:
            track = job["store"] == "local"
            D.TRACK["on"], D.TRACK["refs"] = track, []
            stores, bound = open_store(job, root)
            outs, lens, alive = [], [], []
            for op in job["ops"]:
                ci, op = (op[0], op[1]) if job.get("clients") else (0, op)
                outs.append(D.do(stores[ci], op))
                if bound is not None:
                    lens.append(max(len(w._cache._cache) for w in stores if isinstance(w, LRUCacheStore)))
                if track:
                    n = D.alive()
                    if bound is not None and n > bound * len(stores):
                        # only what survives a full collection counts (a smaller count cannot grow by collecting)
                        gc.collect()
                        n = D.alive()
                    alive.append(n)
                    # forget the dead references (keeps the count linear in the sequence length)
                    D.TRACK["refs"] = [w for w in D.TRACK["refs"] if w() is not None]
            res.append({"outs": outs, "lens": lens, "alive": alive, "bound": bound})
        finally:
            D.TRACK["on"], D.TRACK["refs"] = False, []
            shutil.rmtree(root, ignore_errors=True)
    print("@@RESULT@@" + json.dumps({"jobs": res}))


if __name__ == "__main__":
    sys.path.insert(0, os.path.dirname(os.path.abspath(__file__)))
    main()
