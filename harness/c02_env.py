"""C02, execution environment of the unchanged re-evaluation as a dimension.

A generated pipeline whose kept functions depend on values that LOOK like pieces of the environment (relative / absolute /
'~' / '$VAR' concrete pathlib.Path values, PurePosixPath values, strings that look like paths; bare or inside lists / dicts
/ tuples / dataclasses; as module variables, default values, run-time arguments, literal arguments) is evaluated on a bare
store in a reference environment, and then again and again - code, tracked variables and arguments UNCHANGED - against the
same store in environments that differ by things that are not program content: the working directory (a fresh process
started elsewhere, os.chdir between two evaluations of one process), HOME, TMPDIR, the environment variable a string
mentions, umask, locale, sys.path order, PYTHONHASHSEED, the directory the (identical) code tree is imported from.

Expected results come from the property: the first evaluation returns what plain execution of the same text returns (dds
replaced by a pass-through stub; the bodies only repr() their values, so plain execution is the same in every environment:
checked) and every later evaluation executes NO kept body, returns the same value and commits the same path -> signature map."""
import copy
import json
import os
import random
import shutil
import tempfile

import common as C

DRIVER = "drive_c02env.py"

VALUES = {
    "ppath-rel": ['pathlib.Path("inputs/raw.txt")', 'pathlib.Path("../data/in.csv")', 'pathlib.Path("raw.txt")', 'pathlib.Path(".")'],
    "ppath-abs": ['pathlib.Path("/srv/data/raw.txt")', 'pathlib.Path("/")'],
    "ppath-env": ['pathlib.Path("~/data/raw.txt")', 'pathlib.Path("$C02ENV_DIR/raw.txt")', 'pathlib.Path("~")'],
    "pure-rel": ['pathlib.PurePosixPath("inputs/raw.txt")', 'pathlib.PurePosixPath("../x")'],
    "str-path": ['"inputs/raw.txt"', '"./raw.txt"', '"~/data/raw.txt"', '"$HOME/data"', '"${TMPDIR}/scratch"', '"file:raw.txt"', '"."'],
}
WRAPS = {"var": ("bare", "bare", "list", "dict", "nested"), "default": ("bare", "bare", "tuple", "list"),
         "runtime-arg": ("bare", "bare", "list", "dict", "tuple", "dataclass", "nested"), "call-literal": ("bare",)}
POSITIONS = ("var", "default", "runtime-arg")

LOGMOD = "LOG = []\n\n\ndef ran(t):\n    LOG.append(t)\n\n\ndef show(v):\n    return repr(v)\n"
STUB = '''def keep(path, f, *a, **k):
    return f(*a, **k)


def eval(f, *a, **k):
    return f(*a, **k)


def data_function(path):
    return lambda f: f
'''


def wrap_expr(wrap, e):
    return {"bare": e, "list": f"[{e}, 3]", "dict": '{"src": ' + e + ', "n": 3}', "tuple": f"({e}, 3)",
            "nested": '{"files": [' + e + ', "b.txt"], "n": [1]}', "dataclass": f"mod.Src({e}, 3)"}[wrap]


def gen_spec(rng, idx, combos, style):
    carriers = []
    for n, (vk, pos) in enumerate(combos):
        wrap = rng.choice(WRAPS[pos])
        e = rng.choice(VALUES[vk])
        carriers.append({"fn": f"f{n}", "path": f"/n{n}", "value_kind": vk, "position": pos, "wrap": wrap, "value": e,
                         "expr": wrap_expr(wrap, e), "node": "data-function" if pos == "var" and rng.random() < 0.6 else "keep", "salt": rng.randint(10, 99)})
    return {"pkg": f"vce{idx}", "style": style, "carriers": carriers}


def all_combos(rng):
    cs = [(vk, pos) for vk in VALUES for pos in POSITIONS] + [("str-path", "call-literal")]
    rng.shuffle(cs)
    return cs


def render(spec, plain=False):
    """-> {relpath: text}"""
    pkg = spec["pkg"] + ("_plain" if plain else "")
    L = ["import collections", "import dataclasses", "import pathlib", "", f"from {pkg} import ddsstub as dds" if plain else "import dds", "import c02envlog", "", "",
         "@dataclasses.dataclass(frozen=True)", "class Src:", "    where: object", "    n: int", "", ""]
    calls, params = [], []
    for c in spec["carriers"]:
        fn, pos = c["fn"], c["position"]
        if pos == "var":
            L += [f"V_{fn} = {c['expr']}", "", ""]
            if c["node"] == "data-function":
                L += [f'@dds.data_function("{c["path"]}")']
                calls.append(f"{fn}()")
            else:
                calls.append(f'dds.keep("{c["path"]}", {fn})')
            L += [f"def {fn}():", f'    c02envlog.ran("{fn}")', f'    return c02envlog.show(V_{fn}) + "#{c["salt"]}"', "", ""]
            continue
        sig = {"default": f"a={c['expr']}", "runtime-arg": "a", "call-literal": "a"}[pos]
        L += [f"def {fn}({sig}):", f'    c02envlog.ran("{fn}")', f'    return c02envlog.show(a) + "#{c["salt"]}"', "", ""]
        if pos == "default":
            calls.append(f'dds.keep("{c["path"]}", {fn})')
        elif pos == "runtime-arg":
            params.append(f"r_{fn}")
            calls.append(f'dds.keep("{c["path"]}", {fn}, r_{fn})')
        else:
            calls.append(f'dds.keep("{c["path"]}", {fn}, {c["expr"]})')
    L += [f"def main({', '.join(params)}):"]
    if spec["style"] == "keep":
        L += ['    c02envlog.ran("main")']
    L += ["    out = []"] + [f"    out.append({x})" for x in calls] + ['    return "|".join(out)', ""]
    files = {f"{pkg}/__init__.py": "", f"{pkg}/main.py": "\n".join(L)}
    if plain:
        files[f"{pkg}/ddsstub.py"] = STUB
    else:
        files["c02envlog.py"] = LOGMOD
    return files


def entry_of(spec):
    return {"style": spec["style"], "fn": "main", "path": "/out", "args": [c["expr"] for c in spec["carriers"] if c["position"] == "runtime-arg"]}


def kept_tags(spec):
    return sorted([c["fn"] for c in spec["carriers"]] + (["main"] if spec["style"] == "keep" else []))


# --------------------------------------------------------------------------- environments (symbolic: "@d" = <scenario dir>/d)

BASE_ENV = {"HOME": "@home1", "TMPDIR": "@tmp1", "C02ENV_DIR": "@proj"}
OTHER_ENV = {"HOME": "@home2", "TMPDIR": "@tmp2", "C02ENV_DIR": "@elsewhere"}
DIRS = ("proj/notebooks", "proj/reports", "elsewhere", "elsewhere2", "home1", "home2", "tmp1", "tmp2", "extra_path", "store")     # (every environment is met once: no two evaluations share a changed working directory)


def step(name, dims, ops):
    return {"name": name, "dims": dims, "ops": ops}


def processes(tier, rng):
    """-> the process lifetimes of one scenario, all on the same store; the first evaluation of the first one is the reference"""
    same = [step("reference", [], []), step("unchanged", [], []),
            step("os.chdir(elsewhere)", ["cwd"], [{"op": "chdir", "dir": "@elsewhere"}]),
            step("os.chdir(proj/notebooks)", ["cwd"], [{"op": "chdir", "dir": "@proj/notebooks"}]),
            step("os.chdir(/)", ["cwd"], [{"op": "chdir", "dir": "/"}]),
            step("HOME=other", ["HOME"], [{"op": "setenv", "k": "HOME", "v": "@home2"}]),
            step("HOME unset", ["HOME"], [{"op": "setenv", "k": "HOME", "v": None}]),
            step("TMPDIR=other", ["TMPDIR"], [{"op": "setenv", "k": "TMPDIR", "v": "@tmp2"}]),
            step("C02ENV_DIR=other", ["env-var"], [{"op": "setenv", "k": "C02ENV_DIR", "v": "@elsewhere"}]),
            step("umask 077", ["umask"], [{"op": "umask", "v": 0o077}]),
            step("locale C.UTF-8", ["locale"], [{"op": "locale", "v": "C.UTF-8"}]),
            step("sys.path: another directory first", ["sys.path"], [{"op": "syspath", "dir": "@extra_path"}]),
            step("back in the reference environment", [], [])]
    one = [step("evaluation", [], [])]
    procs = [{"name": "reference process", "cwd": "@proj", "env": {}, "hashseed": "0", "code": "code", "dims": [], "steps": same},
             {"name": "fresh process started in elsewhere2", "cwd": "@elsewhere2", "env": {}, "hashseed": "0", "code": "code", "dims": ["cwd"],
              "steps": one + [step("then os.chdir(proj)", ["-cwd"], [{"op": "chdir", "dir": "@proj"}])]},
             {"name": "fresh process with other HOME / TMPDIR / C02ENV_DIR", "cwd": "@proj", "env": OTHER_ENV, "hashseed": "0", "code": "code",
              "dims": ["HOME", "TMPDIR", "env-var"], "steps": one},
             {"name": "fresh process started in proj/reports, other HOME / TMPDIR / C02ENV_DIR / LC_ALL, umask 027, random hash seed", "cwd": "@proj/reports",
              "env": dict(OTHER_ENV, LC_ALL="C.UTF-8", LANG="C.UTF-8"), "hashseed": "random", "umask": 0o027, "code": "code",
              "dims": ["cwd", "HOME", "TMPDIR", "env-var", "locale", "umask", "hashseed"], "steps": one},
             {"name": "fresh process importing an identical copy of the code tree from another directory", "cwd": "@proj", "env": {}, "hashseed": "0",
              "code": "code_copy", "dims": ["code-location"], "steps": one}]
    if tier != "quick":
        names = [d for d in DIRS if d != "store"] + ["proj"]
        for k in range(4):
            env = {kk: vv for kk, vv in OTHER_ENV.items() if rng.random() < 0.5}
            cwd = rng.choice(names)
            steps = copy.deepcopy(one)
            for j in range(rng.randint(0, 3)):
                d = rng.choice(names + ["/"])
                steps.append(step(f"then os.chdir({d})", ["cwd"], [{"op": "chdir", "dir": d if d == "/" else "@" + d}]))
            procs.append({"name": f"fresh process #{k}: cwd={cwd} env={sorted(env)}", "cwd": "@" + cwd, "env": env, "hashseed": rng.choice(["0", "random"]),
                          "code": rng.choice(["code", "code", "code_copy"]), "dims": ["cwd"] + sorted({"C02ENV_DIR": "env-var"}.get(x, x) for x in env), "steps": steps})
    return procs


def dims_of(proc, st):
    d = [x for x in proc["dims"] if "-" + x not in st["dims"]] + [x for x in st["dims"] if not x.startswith("-") and x not in proc["dims"]]
    return "+".join(d) or "none"


# --------------------------------------------------------------------------- running


def _res(base, v):
    return os.path.join(base, v[1:]) if isinstance(v, str) and v.startswith("@") else v


def run_scenario(job):
    """job: (spec, procs) -> list of driver results (one per process), run one after the other on one store"""
    spec, procs = job
    base = tempfile.mkdtemp(prefix="c02env_", dir=C.scratch_dir())
    try:
        for d in DIRS:
            os.makedirs(os.path.join(base, d))
        files = dict(render(spec), **render(spec, plain=True))
        for code in ("code", "code_copy"):
            for rel, text in files.items():
                p = os.path.join(base, code, rel)
                os.makedirs(os.path.dirname(p), exist_ok=True)
                with open(p, "w") as f:
                    f.write(text)
        outs = []
        for proc in procs:
            steps = [{"name": s["name"], "ops": [{k: _res(base, v) for k, v in op.items()} for op in s["ops"]]} for s in proc["steps"]]
            if proc.get("umask") is not None:
                steps = [dict(s, ops=[{"op": "umask", "v": proc["umask"]}] + s["ops"]) for s in steps]
            payload = {"root": os.path.join(base, proc["code"]), "pkg": spec["pkg"], "plain_pkg": spec["pkg"] + "_plain", "store": os.path.join(base, "store"),
                       "entry": entry_of(spec), "steps": steps}
            env = {k: _res(base, v) for k, v in dict(BASE_ENV, **proc["env"]).items()}
            try:
                outs.append(C.run_driver(DRIVER, payload, hashseed=proc["hashseed"], timeout=600, cwd=_res(base, proc["cwd"]), extra_env=env))
            except Exception as e:  # noqa
                outs.append({"harness_error": str(e)[-600:]})
        return json.loads(json.dumps(outs).replace(base, "<scenario>"))
    finally:
        shutil.rmtree(base, ignore_errors=True)


def describe(spec, tags=None):
    cs = [c for c in spec["carriers"] if tags is None or c["fn"] in tags]
    return "; ".join(f"{c['fn']} ({c['node'] if c['position'] == 'var' else 'keep'} {c['path']}) <- {c['position']} {c['expr']}" for c in cs)


def judge(spec, procs, outs):
    """-> (problems [(key, what, replay detail)], stats); problems come from the property only"""
    tag = f"{spec['pkg']}[entry={spec['style']}]"
    probs, stats = [], {"evaluations": 0, "skipped": 0, "by_dims": {}}
    rp = lambda procs_: {"exec_env_c02": {"spec": spec, "processes": procs_}}  # noqa
    if any("harness_error" in o or o.get("import_error") for o in outs) or not outs[0]["evals"]:
        bad = [o.get("harness_error") or o.get("import_error") for o in outs if "harness_error" in o or o.get("import_error")]
        return [("harness-error:c02-exec-env", f"{tag}: a process could not be run: {str(bad[:1])[-300:]}", rp(procs), True)], stats
    plains = sorted({o["plain"] for o in outs})
    ref = outs[0]["evals"][0]
    if len(plains) != 1 or plains[0].startswith("exc:"):
        return [("harness-error:c02-exec-env", f"{tag}: plain execution of the generated text is not the same in every environment: {plains}", rp(procs), True)], stats
    if ref["error"] is not None or sorted(ref["ran"]) != kept_tags(spec):
        return [("harness-error:c02-exec-env", f"{tag}: the reference evaluation on the bare store did not execute every kept body once: "
                 f"error={ref['error']} ran={ref['ran']}", rp(procs), True)], stats
    if ref["value"] != plains[0]:
        probs.append(("exec-env:value-differs-from-plain-execution", f"{tag}: the first evaluation returns {ref['value'][:120]}, plain execution of the same text "
                      f"returns {plains[0][:120]}", rp(procs[:1]), False))
    path_of = {c["path"]: c["fn"] for c in spec["carriers"]}
    for n_p, (proc, o) in enumerate(zip(procs, outs)):
        for n_s, (st, e) in enumerate(zip(proc["steps"], o["evals"])):
            if (n_p, n_s) == (0, 0):
                continue
            if e["op_errors"]:
                stats["skipped"] += 1          # this environment cannot be set up on this machine (e.g. a locale that is not installed)
                continue
            dims = dims_of(proc, st)
            stats["evaluations"] += 1
            stats["by_dims"][dims] = stats["by_dims"].get(dims, 0) + 1
            where = f"{proc['name']}" + (f", {st['name']}" if st["name"] != "evaluation" else "")
            kind = "same-process" if n_p == 0 else "fresh-process"
            minimal = [dict(procs[0], steps=[procs[0]["steps"][0]] + ([st] if n_p == 0 else []))] + ([dict(proc, steps=proc["steps"][:n_s + 1])] if n_p else [])
            detail = dict(rp(minimal), observed=e, reference={k: ref[k] for k in ("value", "ran", "synced", "cwd")})
            if e["error"] is not None:
                probs.append((f"exec-env:unchanged-evaluation-fails:{dims}:{kind}", f"{tag}: unchanged re-evaluation in [{where}] raises {e['error'][:160]}; the same "
                              f"evaluation succeeded in the reference environment; pipeline: {describe(spec)}", detail, False))
                continue
            ran = [t for t in e["ran"] if t in kept_tags(spec)]
            changed = sorted(p for p in set(ref["synced"]) | set(e["synced"]) if ref["synced"].get(p) != e["synced"].get(p))
            if ran or changed:
                hit = sorted(set(ran) | {path_of[p] for p in changed if p in path_of})
                probs.append((f"recomputed:exec-env:{dims}:{kind}", f"{tag}: code, tracked variables and arguments unchanged, store of the reference evaluation "
                              f"(cwd=<scenario>/proj); re-evaluation in [{where}] executed kept bodies {ran} and committed other signatures for {changed} "
                              f"(expected: no body, same signatures); nodes concerned: {describe(spec, hit) or 'only the entry'}", detail, False))
            elif e["value"] != plains[0]:
                probs.append((f"exec-env:value:{dims}:{kind}", f"{tag}: unchanged re-evaluation in [{where}] returns {str(e['value'])[:100]}, plain execution returns "
                              f"{plains[0][:100]}", detail, False))
    return probs, stats


def n_pipelines(tier):
    return 4 if tier == "quick" else 12


def plan(tier, seed):
    rng = random.Random(seed * 6007 + 11)
    combos = all_combos(rng)
    per = 6
    n_prog = n_pipelines(tier)
    jobs = []
    for i in range(n_prog):
        if (i + 1) * per > len(combos):
            combos += all_combos(rng)
        cs = combos[i * per:(i + 1) * per]
        if not any(vk == "ppath-rel" for vk, _ in cs):          # every pipeline has a relative concrete path somewhere
            cs[rng.randrange(len(cs))] = ("ppath-rel", rng.choice(POSITIONS))
        spec = gen_spec(rng, i, cs, ("eval", "keep")[i % 2])
        jobs.append((spec, processes(tier, rng)))
    return jobs


def start(tier, seed, ex):
    """submits the scenarios to the executor of c02.run (they run next to its other histories)"""
    jobs = plan(tier, seed)
    return jobs, [ex.submit(run_scenario, j) for j in jobs]


def finish(rep, started):
    """judges the outcomes -> the input_distribution entry"""
    jobs, futs = started
    results = [f.result() for f in futs]
    dist = {"pipelines": len(jobs), "processes": sum(len(p) for _, p in jobs), "evaluations_unchanged_in_another_environment": 0,
            "environments_not_available": 0, "by_environment_dimension": {}, "carriers_by_value_kind_x_position": {}, "carriers_by_wrap": {}}
    for (spec, procs), outs in zip(jobs, results):
        for c in spec["carriers"]:
            k = c["value_kind"] + " x " + c["position"]
            dist["carriers_by_value_kind_x_position"][k] = dist["carriers_by_value_kind_x_position"].get(k, 0) + 1
            dist["carriers_by_wrap"][c["wrap"]] = dist["carriers_by_wrap"].get(c["wrap"], 0) + 1
        probs, stats = judge(spec, procs, outs)
        dist["evaluations_unchanged_in_another_environment"] += stats["evaluations"]
        dist["environments_not_available"] += stats["skipped"]
        for d, n in stats["by_dims"].items():
            dist["by_environment_dimension"][d] = dist["by_environment_dimension"].get(d, 0) + n
        for proc, o in zip(procs, outs):
            for st, e in zip(proc["steps"], o.get("evals", [])):
                rep.case(json.dumps(["exec-env", spec["pkg"], proc["name"], st["name"]]), nontrivial=bool(dims_of(proc, st) != "none" and not e["op_errors"]))
        for key, what, detail, no_input in probs:
            rep.violation(key, what, detail, no_input=no_input)
    rep.sample({"exec_env_pipeline": describe(jobs[0][0]), "entry": jobs[0][0]["style"], "processes": [p["name"] for p in jobs[0][1]]})
    return dist


def replay(r):
    x = r["exec_env_c02"]
    outs = run_scenario((x["spec"], x["processes"]))
    print(json.dumps(outs, indent=1)[:6000])
    probs, _ = judge(x["spec"], x["processes"], outs)
    for key, what, _, _ in probs:
        print(key, "--", what)
    print("REPRODUCED" if probs else "not reproduced")
    return 1 if probs else 0
