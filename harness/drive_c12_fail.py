"""Implementation driver for the C12 failure dimension (c12_fail.py): operation sequences in which some operations FAIL in the
wrapped store, on real dds stores with and without the object cache.
stdin: {"jobs":[{"store":"memory"|"local","cap":int|"unbounded"|"default"|"bare","via":"ctor"|"set_store","plant":[...],"ops":[...]}]}
operations (besides has / fetch / put / sync / fpaths of drive_store.py):
  ["putx", key, kind]        store_blob of a value the store may be unable to write:
                               lambda / file / reduce   not picklable (a lambda, an open file, an object whose __reduce__ raises)
                               unload                   picklable, but loading it back raises (the later fetch_blob fails)
                               codecraise               a value whose registered codec writes half of the file and raises
                               nocodec                  a plain string stored with a codec reference that is not registered
  ["putf", key, value, when] store_blob of a good value while the underlying store has a fault:
                               before   the underlying store_blob raises OSError before writing anything
                               mid      the local store fails between the blob file and its metadata (the clock call raises)
                               after    the underlying store_blob writes everything and then raises OSError
plant (local store only, done on the directories before the store objects exist):
  ["unknown-codec", key]     a complete blob whose metadata names a codec that is not registered (fetch_blob raises)
  ["blob-no-meta", key]      a blob file without metadata (what a crash between the two writes leaves)
per job: outs (answers; a failing operation answers the kind of its failure), lens (entries in the cache after every operation),
alive (fetched objects still alive, local store), bound."""
import gc
import json
import os
import shutil
import sys
import tempfile
import weakref
from collections import OrderedDict

FAST_TMP = "/dev/shm" if os.path.isdir("/dev/shm") and os.access("/dev/shm", os.W_OK | os.X_OK) else None


def _boom():
    raise ValueError("this object cannot be loaded back")


class NoReduce(object):
    def __reduce__(self):
        raise RuntimeError("this object refuses to be reduced")


class Unloadable(object):
    def __reduce__(self):
        return (_boom, ())


class HalfWritten(object):
    """the type handled by HalfCodec"""


def half_codec():
    from dds.structures import FileCodecProtocol, ProtocolRef
    from dds.structures_utils import SupportedTypeUtils as STU

    class HalfCodec(FileCodecProtocol):
        def ref(self):
            return ProtocolRef("c12.half")

        def handled_types(self):
            return [STU.from_type(HalfWritten)]

        def serialize_into(self, blob, loc):
            with open(str(loc), "wb") as f:
                f.write(b"half")
            raise ValueError("the codec failed in the middle of the file")

        def deserialize_from(self, loc):
            return HalfWritten()

    return HalfCodec()


OPEN_FILES = []


def bad_value(kind):
    """-> (value, codec reference)"""
    from dds.structures import ProtocolRef
    if kind == "lambda":
        return (lambda: 0), None
    if kind == "file":
        f = open(os.devnull, "rb")
        OPEN_FILES.append(f)
        return f, None
    if kind == "reduce":
        return NoReduce(), None
    if kind == "unload":
        return Unloadable(), None
    if kind == "codecraise":
        return HalfWritten(), None
    if kind == "nocodec":
        return "plain", ProtocolRef("c12.not-registered")
    raise ValueError(kind)


def faulty(inner):
    """The underlying store with a fault point in store_blob (armed for ONE call by the putf operation).  Everything else is
    the underlying store's own behaviour."""
    from dds.store import Store
    import dds.store as S

    class FaultyStore(Store):
        def __init__(self):
            self.inner = inner
            self.armed = None

        def has_blob(self, key):
            return inner.has_blob(key)

        def fetch_blob(self, key):
            return inner.fetch_blob(key)

        def store_blob(self, key, blob, codec=None):
            when, self.armed = self.armed, None
            if when == "before":
                raise OSError("injected: the store is not reachable")
            if when == "mid":
                orig = S.current_timestamp

                def clock():
                    raise OSError("injected: failure between the blob and its metadata")
                S.current_timestamp = clock
                try:
                    return inner.store_blob(key, blob, codec)
                finally:
                    S.current_timestamp = orig
            inner.store_blob(key, blob, codec)
            if when == "after":
                raise OSError("injected: the acknowledgement was lost")

        def sync_paths(self, paths):
            return inner.sync_paths(paths)

        def fetch_paths(self, paths):
            return inner.fetch_paths(paths)

        def codec_registry(self):
            return inner.codec_registry()

    return FaultyStore()


def plant(root, items):
    blobs = os.path.join(root, "internal", "blobs")
    os.makedirs(blobs, exist_ok=True)
    os.makedirs(os.path.join(root, "data"), exist_ok=True)
    for how, key in items:
        with open(os.path.join(blobs, key), "wb") as f:
            f.write(b"planted")
        if how == "unknown-codec":
            with open(os.path.join(blobs, key + ".meta"), "wb") as f:
                f.write(json.dumps({"protocol": "c12.never-registered", "timestamp_millis": 0}).encode("utf-8"))
        elif how != "blob-no-meta":
            raise ValueError(how)


def show(r):
    import drive_store as D
    if r is None:
        return "N"
    if isinstance(r, (str, D.Val)):
        return "V:" + str(r)
    return "V:<" + type(r).__name__ + ">"


def do(store, fault, op):
    """the answer of one operation; a failing operation answers the kind of its failure"""
    import drive_store as D
    from dds.structures import DDSException
    t = op[0]
    try:
        if t == "fetch":
            r = store.fetch_blob(op[1])
            if D.TRACK["on"] and r is not None:
                try:
                    D.TRACK["refs"].append(weakref.ref(r))
                except TypeError:
                    pass
            return show(r)
        if t == "putx":
            v, codec = bad_value(op[2])
            store.store_blob(op[1], v, codec)
            return "U"
        if t == "putf":
            fault.armed = op[3]
            try:
                store.store_blob(op[1], D.val(op[2]), None)
            finally:
                fault.armed = None
            return "U"
        if t in ("has", "put", "sync", "fpaths"):
            return D.do(store, op)
    except DDSException as e:
        return "E:" + str(getattr(e, "error_code", None) and e.error_code.name)
    except Exception as e:
        return "X:" + type(e).__name__
    raise ValueError(t)


def open_store(job, root):
    """-> (store the operations go to, fault point, cache wrapper or None, bound or None)"""
    import drive_store as D
    from dds._lru_store import LRUCacheStore, default_cache_size
    cap = job["cap"]
    if job.get("via") == "set_store":
        # the store objects are the ones dds.set_store builds; only the bad values / planted states are available (no fault point)
        import dds
        from dds import _api
        kw = {"cache_objects": None if cap == "bare" else True if cap == "default" else -1 if cap == "unbounded" else cap}
        if job["store"] == "local":
            kw.update(internal_dir=os.path.join(root, "internal"), data_dir=os.path.join(root, "data"))
        dds.set_store(job["store"], **kw)
        st = _api._store()
        if (cap != "bare") != isinstance(st, LRUCacheStore):
            raise RuntimeError(f"set_store(cache_objects={kw['cache_objects']!r}) gave {st!r}")
        bound = None if cap in ("bare", "unbounded") else default_cache_size if cap == "default" else cap
        return st, None, (st if cap != "bare" else None), bound
    fault = faulty(D.mk(job["store"], root))
    if cap == "bare":
        return fault, fault, None, None
    n = sys.maxsize // 2 if cap == "unbounded" else default_cache_size if cap == "default" else cap
    w = LRUCacheStore(fault, num_elem=n)
    return w, fault, w, (None if cap == "unbounded" else n)


DDS_MODULE = """import os
import dds


def make_good():
    return "good"


def make_none():
    return None


def make_lambda():
    return (lambda: 1)


def make_file():
    return open(os.devnull, "rb")


def keep_good():
    return dds.keep("/c12fail/good", make_good)


def keep_none():
    return dds.keep("/c12fail/none", make_none)


def keep_lambda():
    return dds.keep("/c12fail/lambda", make_lambda)


def keep_file():
    return dds.keep("/c12fail/file", make_file)


def keep_good_then_lambda():
    a = dds.keep("/c12fail/good", make_good)
    b = dds.keep("/c12fail/lambda", make_lambda)
    return a
"""
DDS_STATE = {}


def dds_job(job, root):
    """Whole evaluations through the public API: ["eval", function] / ["load", path]; the answer of a step is its value or the
    kind of its failure.  The store is configured with dds.set_store(cache_objects=...)."""
    import dds
    from dds.structures import DDSException
    if "mod" not in DDS_STATE:
        mdir = tempfile.mkdtemp(prefix="drvc12failmod_")
        with open(os.path.join(mdir, "c12fail_mod.py"), "w") as f:
            f.write(DDS_MODULE)
        sys.path.insert(0, mdir)
        import c12fail_mod
        dds.accept_module(c12fail_mod)
        DDS_STATE["mod"], DDS_STATE["dir"] = c12fail_mod, mdir
    mod = DDS_STATE["mod"]
    cap = job["cap"]
    kw = {"cache_objects": None if cap == "bare" else True if cap == "default" else -1 if cap == "unbounded" else cap}
    if job["store"] == "local":
        kw.update(internal_dir=os.path.join(root, "internal"), data_dir=os.path.join(root, "data"))
    dds.set_store(job["store"], **kw)
    outs = []
    for op in job["ops"]:
        try:
            r = dds.eval(getattr(mod, op[1])) if op[0] == "eval" else dds.load(op[1])
            if hasattr(r, "close"):
                r.close()
            outs.append("R:" + show(r)[:1] + (":" + str(r) if isinstance(r, str) else ""))
        except DDSException as e:
            outs.append("E:" + str(getattr(e, "error_code", None) and e.error_code.name))
        except Exception as e:
            outs.append("X:" + type(e).__name__)
    return {"outs": outs, "lens": [], "alive": [], "bound": None}


def main():
    import drive_store as D
    from dds.codec import codec_registry
    codec_registry().add_file_codec(half_codec())
    payload = json.load(sys.stdin)
    res = []
    for job in payload["jobs"]:
        root = tempfile.mkdtemp(prefix="drvc12fail_", dir=FAST_TMP)
        try:
            if job.get("dds"):
                res.append(dds_job(job, root))
                continue
            track = job["store"] == "local"
            D.TRACK["on"], D.TRACK["refs"] = track, []
            if job["store"] == "local":
                plant(root, job.get("plant") or [])
            store, fault, wrapped, bound = open_store(job, root)
            outs, lens, alive = [], [], []
            for op in job["ops"]:
                if op[0] == "putf" and fault is None:
                    raise RuntimeError("putf needs via=ctor")
                outs.append(do(store, fault, op))
                if wrapped is not None:
                    lens.append(len(wrapped._cache._cache))
                if track:
                    n = D.alive()
                    if bound is not None and n > bound:
                        gc.collect()
                        n = D.alive()
                    alive.append(n)
                    D.TRACK["refs"] = [w for w in D.TRACK["refs"] if w() is not None]
            res.append({"outs": outs, "lens": lens, "alive": alive if wrapped is not None else [], "bound": bound})
        finally:
            D.TRACK["on"], D.TRACK["refs"] = False, []
            while OPEN_FILES:
                OPEN_FILES.pop().close()
            shutil.rmtree(root, ignore_errors=True)
    if DDS_STATE.get("dir"):
        shutil.rmtree(DDS_STATE["dir"], ignore_errors=True)
    print("@@RESULT@@" + json.dumps({"jobs": res}))


if __name__ == "__main__":
    sys.path.insert(0, os.path.dirname(os.path.abspath(__file__)))
    main()
