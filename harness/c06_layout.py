"""C06, third dimension of the crash enumeration: the LAYOUT of the two directories of the local store, with the crash
points of STORE CREATION itself.

The property quantifies over the operations of store creation as well as over those of blob store and path commit, and it
says nothing of where the two directories are: siblings created by the first process (what the first two dimensions use),
one INSIDE the other, already there and empty, already there with unrelated files in them, below parents that do not exist
yet.  What the first process finds and what a killed process leaves behind depends on that, and so does everything a store
decides from what it sees at start-up (is this directory new?  is it empty?  does it already look like a store?): a store
creation interrupted between two of its mkdir leaves a directory that is neither new nor complete.

A layout is {"name", "internal": name of the internal directory, "data": name of the data directory, "pre": what exists
before the first process starts: ["dir", name] | ["file", name, text] | ["link", name, target]}; all names are relative to a
volume directory that exists and is otherwise empty.  Histories are those of c06_ident.py (process lifetimes with a code
version and a pid, killed before / in the middle of their i-th file-system operation), run on the layout; the interposition
covers the whole volume, so that the stat / mkdir of the parents are crash points too.  The expected values are the same as
everywhere in C06: those of plain execution without dds, for whatever layout (the layout is not part of the meaning of
a pipeline), and a probe loads the complete value of the last completed process or of a process killed since."""
import concurrent.futures as cf
import json
import os

import common as C
import c06_ident as I

UNRELATED = [["file", "%s/notes.txt", "not a file of dds\n"], ["dir", "%s/other/sub"], ["file", "%s/other/sub/x.bin", "\x00\x01"]]


def _unrelated(d):
    return [[e[0], e[1] % d] + e[2:] for e in UNRELATED]


LAYOUTS = [
    # what the first two dimensions use, on a volume (control: same verdicts as there)
    {"name": "siblings-new", "internal": "internal", "data": "data", "pre": []},
    # the documented way of keeping everything of a project in one place: the data directory inside the internal one ...
    {"name": "data-inside-internal", "internal": "dds", "data": "dds/data", "pre": []},
    # ... or the internal directory hidden inside the data directory
    {"name": "internal-inside-data", "internal": "data/.dds", "data": "data", "pre": []},
    # directories prepared by someone else (a mounted volume, mkdir -p in a start-up script)
    {"name": "both-existing-empty", "internal": "internal", "data": "data", "pre": [["dir", "internal"], ["dir", "data"]]},
    {"name": "nested-both-existing", "internal": "dds", "data": "dds/data", "pre": [["dir", "dds/data"]]},
    # directories in use for something else as well
    {"name": "internal-existing-with-unrelated-files", "internal": "work", "data": "out", "pre": _unrelated("work")},
    {"name": "data-existing-with-unrelated-files", "internal": "state", "data": "project", "pre": _unrelated("project")},
    {"name": "internal-inside-existing-data-with-unrelated-files", "internal": "project/.dds", "data": "project", "pre": _unrelated("project")},
    # parents that do not exist yet: every mkdir of the chain is a crash point; separate chains, and one chain through the other directory
    {"name": "deep-new-parents", "internal": "a1/a2/internal", "data": "b1/b2/data", "pre": []},
    {"name": "deep-data-below-deep-internal", "internal": "p1/p2/dds", "data": "p1/p2/dds/d1/d2/data", "pre": []},
]
# thorough only: the near-duplicates and the spellings
MORE_LAYOUTS = [
    {"name": "deep-internal-below-deep-data", "internal": "q1/data/q2/q3/dds", "data": "q1/data", "pre": []},
    {"name": "internal-existing-data-new", "internal": "internal", "data": "data", "pre": [["dir", "internal"]]},
    {"name": "data-existing-internal-new", "internal": "internal", "data": "data", "pre": [["dir", "data"]]},
    {"name": "both-existing-with-unrelated-files", "internal": "work", "data": "project", "pre": _unrelated("work") + _unrelated("project")},
    {"name": "trailing-slashes-nested", "internal": "dds/", "data": "dds/data/", "pre": []},
    {"name": "internal-is-a-link-to-an-existing-directory", "internal": "int", "data": "int/data", "pre": [["dir", "real/x/int"], ["link", "int", "real/x/int"]]},
    {"name": "shared-existing-parent-with-unrelated-files", "internal": "proj/dds", "data": "proj/data", "pre": _unrelated("proj")},
]


def obj_kind(op, layout):
    """Which object of the store, or of the volume around it, an intercepted operation works on."""
    tgt = str(op[3] if op[1] in ("symlink", "replace", "rename") and len(op) > 3 else op[2])
    rel = tgt.split(":", 1)[-1].strip("/")
    internal, data = layout["internal"].strip("/"), layout["data"].strip("/")
    blobs = internal + "/blobs"
    if rel.startswith(blobs + "/"):
        return "meta" if ".meta" in rel else "blob"
    for name, d in (("blobs-dir", blobs), ("internal-dir", internal), ("data-dir", data)):
        if rel == d:
            return name
    if (internal + "/").startswith(rel + "/") or (data + "/").startswith(rel + "/") or not rel:
        return "parent-dir"
    if rel.startswith(data + "/"):
        return "link" if op[1] in ("symlink", "replace", "rename", "readlink", "lstat") or ".tmp" in rel else "data-subdir"
    return "other"


def creation_kill(i, half, variant):
    """The process that creates the store (or finds it half created) is killed at its i-th operation."""
    if variant == "one-pid":
        return [{"v": 0, "pid": 1, "kill": [i, half]}, {"v": 0, "pid": 1, "probe": True}, {"v": 0, "pid": 1}, {"v": 0, "pid": 1}]
    if variant == "other-pid-changed-code":
        return [{"v": 0, "pid": 31337, "kill": [i, half]}, {"v": 1, "pid": 31338}, {"v": 0, "pid": 31337}, {"v": 0, "pid": 31338, "probe": True}]
    if variant == "configure-only-next":
        return [{"v": 0, "pid": 1, "kill": [i, half]}, {"v": 0, "pid": 1, "init": True}, {"v": 1, "pid": 1}, {"v": 1, "pid": 1, "probe": True}]
    raise ValueError(variant)


def creation_double_kill(i, j, same):
    p2 = 1 if same else 2
    return [{"v": 0, "pid": 1, "kill": [i, False]}, {"v": 0, "pid": p2, "kill": [j, False]}, {"v": 0, "pid": 1, "probe": True}, {"v": 0, "pid": 1}, {"v": 1, "pid": p2}]


def spread(rng, points, key, cap):
    """A seeded sample of at most cap points, spread over the values of key."""
    strata = {}
    for p in points:
        strata.setdefault(key(p), []).append(p)
    order = sorted(strata)
    for k in order:
        rng.shuffle(strata[k])
    rng.shuffle(order)
    return [strata[k][r] for r in range(max([0] + [len(ps) for ps in strata.values()])) for k in order if r < len(strata[k])][:cap]


def layout_histories(rep, tier, rng, ref):
    quick = tier == "quick"
    layouts = LAYOUTS if quick else LAYOUTS + MORE_LAYOUTS
    fam_count, by_layout, kills_by_phase, kills_by_object = {}, {}, {}, {}
    n_creation = {}     # number of operations of store creation on the layout as the first process finds it

    def run_family(family, items):
        """items: (layout, history)."""
        with cf.ThreadPoolExecutor(max_workers=C.NPROC) as ex:
            results = list(ex.map(I.safe_history, [(h, ref, l) for l, h in items]))
        for (l, h), r in zip(items, results):
            fam_count[family] = fam_count.get(family, 0) + 1
            by_layout[l["name"]] = by_layout.get(l["name"], 0) + 1
            rep.case(json.dumps([family, l["name"], h]), nontrivial=any(r["killed"]) or family == "layout-uncrashed")
            if r.get("harness_error"):
                rep.violation("harness-error:c06-layouts", f"{family} history on layout {l['name']} could not be run: {r['harness_error']}", {"layout": l, "history": h}, no_input=True)
                continue

            def phase(op):
                # the operations on the directories that come first in a process are those of store creation
                return "store-creation" if obj_kind(op, l).endswith("-dir") and op[0] <= n_creation.get(l["name"], 0) + 1 else "evaluation"
            for n, op in r["ops"].items():
                kills_by_phase[phase(op)] = kills_by_phase.get(phase(op), 0) + 1
                k = f"{op[1]}:{obj_kind(op, l)}"
                kills_by_object[k] = kills_by_object.get(k, 0) + 1
            for kind, n, detail in r["problems"]:
                kills = [k for k in sorted(r["ops"]) if k < n]
                op = r["ops"][kills[-1]] if kills else None
                where = (f"{phase(op)}:{op[1]}{'-torn' if h[kills[-1]]['kill'][1] and op[1] == 'write' else ''}:{obj_kind(op, l)}" if op else "no-kill")
                rep.violation(f"crash-layout:{kind.split(':')[0]}:{l['name']}:{where}",
                              f"layout {l['name']} (internal_dir=<volume>/{l['internal']}, data_dir=<volume>/{l['data']}, before the first process: "
                              f"{[e[:2] for e in l['pre']] or 'empty volume'}), history ({family}) [{I.describe(h, r)}]: process #{n + 1}: {kind} -> {detail}",
                              {"family": family, "layout": l, "history": h, "failing_process": n, "problem": kind, "detail": detail,
                               "killed_operations": r["ops"], "leftovers": r["leftovers"], "expected": ref})
        return results
    # uncrashed: the store is created on the layout, used, used with changed code; and a process that only configures it
    # (its operations are those of store creation: the crash points that every layout gets in full)
    res_i = run_family("layout-configure-only", [(l, [{"v": 0, "pid": 1, "init": True}, {"v": 0, "pid": 1}]) for l in layouts])
    res_u = run_family("layout-uncrashed", [(l, [{"v": 0, "pid": 1}, {"v": 1, "pid": 1}, {"v": 1, "pid": 2, "probe": True}, {"v": 0, "pid": 2}]) for l in layouts])
    creation, evaluation, rekeep, double = [], [], [], []
    for l, ri, ru in zip(layouts, res_i, res_u):
        if 0 not in ri["traces"] or 0 not in ru["traces"] or 1 not in ru["traces"]:
            continue          # reported above
        n_init = n_creation[l["name"]] = len(ri["traces"][0])
        first = ru["traces"][0]
        for i in range(1, n_init + 2):          # + 1: everything created, nothing else done
            for variant in ("one-pid", "other-pid-changed-code") + (() if quick else ("configure-only-next",)):
                creation.append((l, creation_kill(i, False, variant)))
        pts = [(e, False) for e in first if e[0] > n_init + 1] + [(e, True) for e in first if e[0] > n_init + 1 and e[1] == "write"]
        if quick:
            pts = spread(rng, pts, lambda p: (p[0][1], obj_kind(p[0], l), p[1]), 10)
        evaluation += [(l, I.single_kill("first-keep", e[0], half)) for e, half in pts]
        pts = [(e, False) for e in ru["traces"][1]] + [(e, True) for e in ru["traces"][1] if e[1] == "write"]
        if quick:
            pts = spread(rng, pts, lambda p: (p[0][1], obj_kind(p[0], l), p[1]), 6)
        rekeep += [(l, I.single_kill("re-keep-changed", e[0], half)) for e, half in pts]
        pairs = [(i, j) for i in range(1, n_init + 2) for j in range(1, n_init + 2)]
        if quick:
            pairs = spread(rng, pairs, lambda p: p[0], 8)
        double += [(l, creation_double_kill(i, j, same)) for i, j in pairs for same in ((rng.random() < 0.7,) if quick else ((i + j) % 3 != 0,))]
    run_family("layout-creation-kill", creation)
    run_family("layout-creation-double-kill", double)
    run_family("layout-evaluation-kill", evaluation)
    run_family("layout-re-keep-kill", rekeep)
    rep.extra["input_distribution"].update({"layouts": [l["name"] for l in layouts], "layout_history_runs": sum(fam_count.values()),
                                            "layout_histories_by_family": fam_count, "layout_histories_by_layout": by_layout,
                                            "operations_of_store_creation_by_layout": n_creation, "layout_kills_by_phase": kills_by_phase,
                                            "layout_kills_by_operation_and_object": kills_by_object})
    rep.sample({"layout": LAYOUTS[1], "history": creation_kill(5, False, "one-pid")})
