"""Further fail-closed extractors (registered into extract_constants.EXTRACTORS)."""
import ast

from extract_constants import HEADER, Unrecognised, clist, cstr, find_def, only, parse, register, str_consts


@register("ConstLru")
def extract_lru():
    tree = parse("dds/_lru_store.py")
    vals = [n.value.value for n in tree.body if isinstance(n, ast.Assign) and getattr(n.targets[0], "id", None) == "default_cache_size"
            and isinstance(n.value, ast.Constant)]
    v = only(vals, "default_cache_size")
    if not isinstance(v, int) or v <= 0 or v > 100000:
        raise Unrecognised(f"default_cache_size = {v!r}")
    return HEADER + f"(* dds/_lru_store.py *)\nDefinition c_default_cache_size : nat := {v}.\n"


@register("ConstStages")
def extract_stages():
    tree = parse("dds/structures.py")
    cls = find_def(tree, "ProcessingStage")
    members = [(n.targets[0].id, n.value.value) for n in cls.body
               if isinstance(n, ast.Assign) and isinstance(n.value, ast.Constant) and isinstance(n.value.value, str)]
    ap = find_def(cls, "all_phases")
    ret = only([n for n in ast.walk(ap) if isinstance(n, ast.Return)], "all_phases return")
    if not isinstance(ret.value, ast.List):
        raise Unrecognised("all_phases does not return a list literal")
    names = []
    for e in ret.value.elts:
        if not (isinstance(e, ast.Attribute) and isinstance(e.value, ast.Name) and e.value.id == "ProcessingStage"):
            raise Unrecognised("all_phases element " + ast.unparse(e))
        names.append(e.attr)
    lower_ok = all(v == n.lower() for n, v in members)
    bases = [ast.unparse(b) for b in cls.bases]
    body = HEADER + "(* dds/structures.py : ProcessingStage *)\n"
    body += f"Definition c_all_phases : list string := {clist(names)}.\n"
    body += f"Definition c_stage_members : list string := {clist([n for n, _ in members])}.\n"
    body += f"Definition c_stage_values_are_lower_names : bool := {'true' if lower_ok else 'false'}.\n"
    body += f"Definition c_stage_bases : list string := {clist(bases)}.\n"
    # gates of _eval_new_ctx: which stage membership tests guard evaluation and path commit
    api = parse("dds/_api.py")
    enc = find_def(api, "_eval_new_ctx")
    gates = []
    for n in ast.walk(enc):
        if isinstance(n, ast.Compare) and isinstance(n.ops[0], (ast.In, ast.NotIn)) and ast.unparse(n.comparators[0]) == "stages":
            gates.append(ast.unparse(n))
    body += f"Definition c_stage_gates : list string := {clist(gates)}.\n"
    return body


@register("ConstAccept")
def extract_accept():
    tree = parse("dds/introspect.py")
    pk = None
    for n in tree.body:
        if isinstance(n, ast.AnnAssign) and getattr(n.target, "id", None) == "_accepted_packages":
            pk = n.value
        if isinstance(n, ast.Assign) and getattr(n.targets[0], "id", None) == "_accepted_packages":
            pk = n.value
    if not isinstance(pk, ast.Set):
        raise Unrecognised("_accepted_packages is not a set literal")
    names = []
    for e in pk.elts:
        if not (isinstance(e, ast.Call) and getattr(e.func, "id", None) == "Package" and isinstance(e.args[0], ast.Constant)):
            raise Unrecognised("element of _accepted_packages: " + ast.unparse(e))
        names.append(e.args[0].value)
    ctx = parse("dds/_eval_ctx.py")
    iap = find_def(ctx, "is_authorized_path")
    loops = [n for n in ast.walk(iap) if isinstance(n, ast.For)]
    lp = only(loops, "loop of is_authorized_path")
    bound = ast.unparse(lp.iter)
    tests = [ast.unparse(n.test) for n in ast.walk(lp) if isinstance(n, ast.If)]
    body = HEADER + "(* dds/introspect.py : _accepted_packages ; dds/_eval_ctx.py : is_authorized_path *)\n"
    body += f"Definition c_default_accepted : list string := {clist(sorted(names))}.\n"
    body += f"Definition c_authorized_loop : string := {cstr(bound)}.\n"
    body += f"Definition c_authorized_test : string := {cstr(only(tests, 'test of is_authorized_path'))}.\n"
    return body


@register("ConstSig")
def extract_sig():
    tree = parse("dds/introspect.py")
    # module-level keys
    keys = {}
    for n in tree.body:
        if isinstance(n, ast.Assign) and isinstance(n.value, ast.Call) and getattr(n.value.func, "id", None) == "HK" \
                and isinstance(n.value.args[0], ast.Constant):
            keys[n.targets[0].id] = n.value.args[0].value
    for need in ("_hash_key_body_sig", "_hash_key_fun_input", "_hash_key_fun_inter", "_hash_key_fun_deps"):
        if need not in keys:
            raise Unrecognised(need + " not found")

    def hk_prefixes(fdef):
        """f-string / constant arguments of HK(...) calls inside a function: returns list of (prefix, is_fstring)"""
        out = []
        for n in ast.walk(fdef):
            if isinstance(n, ast.Call) and getattr(n.func, "id", None) == "HK" and n.args:
                a = n.args[0]
                if isinstance(a, ast.Constant):
                    out.append(a.value)
                elif isinstance(a, ast.JoinedStr) and isinstance(a.values[0], ast.Constant) and len(a.values) == 2:
                    out.append(a.values[0].value + "{}")
                else:
                    raise Unrecognised("HK argument " + ast.unparse(a))
        return out
    brs = hk_prefixes(find_def(tree, "_build_return_sig"))
    if hk_prefixes(find_def(find_def(tree, "IntroVisitor"), "_deps_sig")) != ["dep_{}"]:
        raise Unrecognised("IntroVisitor._deps_sig keys")
    fsl = hk_prefixes(find_def(tree, "_fis_to_siglist"))
    exp_brs = ["arg_context", "arg_{}", "dep_{}", "ext_dep_{}", "ext_variable_{}"]
    if sorted(brs) != sorted(exp_brs) and len(brs) != 5:
        raise Unrecognised(f"_build_return_sig keys {brs}")
    def pick(lst, marker):
        c = [x for x in lst if x.startswith(marker)]
        return only(c, "key " + marker)
    arg_context = only([x for x in brs if "{}" not in x], "arg_context key")
    pref = sorted(x[:-2] for x in brs if x.endswith("{}"))
    fun_dep = only([x[:-2] for x in fsl if x.endswith("{}")], "fun_dep key")
    # order of concatenation in _build_return_sig (informational; XOR makes it irrelevant)
    body = HEADER + "(* dds/introspect.py : hash keys *)\n"
    body += f"Definition c_key_body_sig : string := {cstr(keys['_hash_key_body_sig'])}.\n"
    body += f"Definition c_key_fun_input : string := {cstr(keys['_hash_key_fun_input'])}.\n"
    body += f"Definition c_key_fun_inter : string := {cstr(keys['_hash_key_fun_inter'])}.\n"
    body += f"Definition c_key_fun_deps : string := {cstr(keys['_hash_key_fun_deps'])}.\n"
    body += f"Definition c_key_arg_context : string := {cstr(arg_context)}.\n"
    def one(p):
        return only([x for x in pref if x == p or (p == "arg_" and x == "arg_")], p)
    # the four parametrised prefixes, identified by their role in the source
    brsf = find_def(tree, "_build_return_sig")
    roles = {}
    for n in ast.walk(brsf):
        if isinstance(n, ast.Call) and getattr(n.func, "id", None) == "HK" and isinstance(n.args[0], ast.JoinedStr):
            a = n.args[0]
            var = ast.unparse(a.values[1].value)
            roles[var] = a.values[0].value
    for need in ("name", "dep", "local_path"):
        if need not in roles and need != "local_path":
            raise Unrecognised(f"_build_return_sig: no key built from {need}: {roles}")
    body += f"Definition c_key_arg_prefix : string := {cstr(roles['name'])}.\n"
    body += f"Definition c_key_dep_prefix : string := {cstr(roles['dep'])}.\n"
    body += f"Definition c_key_fun_dep_prefix : string := {cstr(fun_dep)}.\n"
    lp = sorted(x[:-2] for x in brs if x.endswith("{}") and x[:-2] not in (roles['name'], roles['dep']))
    if len(lp) != 2:
        raise Unrecognised(f"ext keys {lp}")
    body += f"Definition c_key_ext_dep_prefix : string := {cstr(lp[0])}.\n"
    body += f"Definition c_key_ext_var_prefix : string := {cstr(lp[1])}.\n"
    # the context slice of IntroVisitor: body_lines[: node.lineno + 1]
    iv = find_def(tree, "IntroVisitor")
    slices = sorted({ast.unparse(n) for n in ast.walk(iv) if isinstance(n, ast.Subscript) and "_body_lines" in ast.unparse(n.value)})
    body += f"Definition c_ctx_slices : list string := {clist(slices)}.\n"
    return body


@register("ConstStore")
def extract_store():
    tree = parse("dds/store.py")
    ps = find_def(tree, "path_segments")
    comps = [n for n in ast.walk(ps) if isinstance(n, ast.ListComp)]
    lc = only(comps, "path_segments comprehension")
    if ast.unparse(lc) != "[s for s in path.split('/') if s]":
        raise Unrecognised("path_segments: " + ast.unparse(lc))
    tests = [n for n in ast.walk(ps) if isinstance(n, ast.If)]
    t = only(tests, "path_segments test")
    if ast.unparse(t.test) != "not segments or any((s in ('.', '..') for s in segments))":
        raise Unrecognised("path_segments test: " + ast.unparse(t.test))
    forb = [n for n in ast.walk(t.test) if isinstance(n, ast.Tuple)]
    forbidden = [e.value for e in only(forb, "forbidden segments").elts]
    # both LocalFileStore methods must build the location from path_segments and os.path.join only
    lfs = find_def(tree, "LocalFileStore")
    uses = {}
    for m in ("sync_paths", "fetch_paths"):
        f = find_def(lfs, m)
        assigns = {ast.unparse(n.targets[0]): ast.unparse(n.value) for n in ast.walk(f) if isinstance(n, ast.Assign) and len(n.targets) == 1}
        want = {"splits": "path_segments(path)", "loc_dir": "os.path.join(self._data_root, *splits[:-1])", "loc": "os.path.join(loc_dir, splits[-1])"}
        for k, v in want.items():
            if assigns.get(k) != v:
                raise Unrecognised(f"LocalFileStore.{m}: {k} = {assigns.get(k)}")
    db = parse("dds/codecs/databricks.py")
    dst = find_def(db, "DBFSStore")
    for m in ("sync_paths", "fetch_paths"):
        f = find_def(dst, m)
        assigns = {ast.unparse(n.targets[0]): ast.unparse(n.value) for n in ast.walk(f) if isinstance(n, ast.Assign) and len(n.targets) == 1}
        if assigns.get("redir_p") != "Path('_dds_meta/').joinpath(*path_segments(dds_p))":
            raise Unrecognised(f"DBFSStore.{m}: redir_p = {assigns.get('redir_p')}")
    body = HEADER + "(* dds/store.py : path_segments and its uses *)\n"
    body += f"Definition c_forbidden_segments : list string := {clist(forbidden)}.\n"
    return body


@register("ConstConfig")
def extract_config():
    tree = parse("dds/store.py")
    init = find_def(find_def(tree, "LocalFileStore"), "__init__")
    assigns = [(ast.unparse(n.targets[0]), ast.unparse(n.value)) for n in ast.walk(init) if isinstance(n, ast.Assign) and len(n.targets) == 1]
    first = assigns[:4]
    want = [("internal_dir", "os.path.abspath(internal_dir)"), ("data_dir", "os.path.abspath(data_dir)"),
            ("self._root", "internal_dir"), ("self._data_root", "data_dir")]
    if first != want:
        raise Unrecognised(f"LocalFileStore.__init__ starts with {first}")
    api = parse("dds/_api.py")
    ss = find_def(api, "set_store")
    calls = [ast.unparse(n) for n in ast.walk(ss) if isinstance(n, ast.Call) and getattr(n.func, "id", None) == "LocalFileStore"]
    if calls != ["LocalFileStore(internal_dir, data_dir)"]:
        raise Unrecognised(f"set_store builds the local store with {calls}")
    body = HEADER + "(* dds/store.py : LocalFileStore.__init__ ; dds/_api.py : set_store *)\n"
    body += f"Definition c_dirs_made_absolute : bool := true.\n"
    return body


@register("ConstCodec")
def extract_codec():
    tree = parse("dds/codec.py")
    bdr = find_def(tree, "_build_default_registry")
    call = only([n for n in ast.walk(bdr) if isinstance(n, ast.Call) and getattr(n.func, "id", None) == "CodecRegistry"], "CodecRegistry(...)")
    if ast.unparse(call.args[0]) != "[]":
        raise Unrecognised("default codecs: " + ast.unparse(call.args[0]))
    names = [ast.unparse(e) for e in call.args[1].elts]
    want = ["StringLocalFileCodec()", "BytesFileCodec()", "PickleLocalFileCodec()", "pfc"]
    if names != want:
        raise Unrecognised(f"default file codecs {names}")
    # references and handled types of the builtin codecs
    b = parse("dds/codecs/builtins.py")
    pd = parse("dds/codecs/pandas.py")

    def ref_types(mod, cls):
        c = find_def(mod, cls)
        ref = only([n.args[0].value for n in ast.walk(find_def(c, "ref")) if isinstance(n, ast.Call) and getattr(n.func, "id", None) == "ProtocolRef"], cls + ".ref")
        ht = find_def(c, "handled_types")
        ret = only([n for n in ast.walk(ht) if isinstance(n, ast.Return)], cls + ".handled_types")
        types = []
        for e in ret.value.elts:
            src = ast.unparse(e)
            m = {"STU.from_type(str)": "str", "STU.from_type(bytes)": "bytes", "STU.from_type(bytearray)": "bytearray",
                 "STU.from_type(type(None))": "NoneType", "SupportedType('object')": "object",
                 "ST('pandas.DataFrame')": "pandas.DataFrame", "ST('pandas.core.frame.DataFrame')": "pandas.core.frame.DataFrame"}.get(src)
            if m is None:
                raise Unrecognised(f"{cls}.handled_types element {src}")
            types.append(m)
        return ref, types
    table = [ref_types(b, "StringLocalFileCodec"), ref_types(b, "BytesFileCodec"), ref_types(b, "PickleLocalFileCodec"), ref_types(pd, "PandasFileCodec")]
    # the registry methods: override vs first-wins
    reg = find_def(tree, "CodecRegistry")
    ac = ast.unparse(find_def(reg, "add_codec"))
    afc = ast.unparse(find_def(reg, "add_file_codec"))
    if "if t not in self._handled_types" in ac or "if t not in self._handled_types" not in afc or "if codec.ref() in self._protocols" not in afc:
        raise Unrecognised("add_codec / add_file_codec shape changed")
    body = HEADER + "(* dds/codec.py, dds/codecs/builtins.py, dds/codecs/pandas.py *)\n"
    body += "Definition c_default_file_codecs : list (string * list string) :=\n  [" + "; ".join(f"({cstr(r)}, {clist(t)})" for r, t in table) + "].\n"
    return body


@register("ConstDbfs")
def extract_dbfs():
    db = parse("dds/codecs/databricks.py")
    ct = find_def(db, "CommitType")
    members = [n.targets[0].id for n in ct.body if isinstance(n, ast.Assign)]
    api = parse("dds/_api.py")
    ss = find_def(api, "set_store")
    dicts = [n for n in ast.walk(ss) if isinstance(n, ast.Dict) and n.keys and all(isinstance(k, ast.Constant) for k in n.keys)]
    alias = {}
    for d in dicts:
        for k, v in zip(d.keys, d.values):
            if isinstance(v, ast.Constant) and isinstance(k.value, str) and isinstance(v.value, str):
                alias[k.value] = v.value
    upper = any(isinstance(n, ast.Call) and isinstance(n.func, ast.Attribute) and n.func.attr == "upper" for n in ast.walk(ss))
    if not upper:
        raise Unrecognised("set_store does not upper-case the commit type")
    default = [ast.unparse(n) for n in ast.walk(ss) if isinstance(n, ast.BoolOp) and "CommitType" in ast.unparse(n)]
    if default != ["commit_type or CommitType.FULL.name"]:
        raise Unrecognised(f"default commit type {default}")
    # legacy codec aliases of DBFSStore.__init__: reference -> class of the codec object bound to it
    init = find_def(find_def(db, "DBFSStore"), "__init__")
    var_cls = {}
    for n in ast.walk(init):
        if isinstance(n, ast.Assign) and isinstance(n.value, ast.Call) and isinstance(n.value.func, ast.Name) and len(n.targets) == 1 \
                and isinstance(n.targets[0], ast.Name):
            var_cls[n.targets[0].id] = n.value.func.id
    table = []
    for n in ast.walk(init):
        if isinstance(n, ast.For) and isinstance(n.iter, ast.List):
            for e in n.iter.elts:
                ref, var = e.elts[0].value, e.elts[1].id
                if var not in var_cls:
                    raise Unrecognised(f"legacy alias {ref}: unknown variable {var}")
                table.append((ref, var_cls[var]))
    if not table:
        raise Unrecognised("legacy alias table not found")
    body = HEADER + "(* dds/codecs/databricks.py : CommitType, legacy aliases ; dds/_api.py : set_store *)\n"
    body += f"Definition c_commit_members : list string := {clist(members)}.\n"
    body += "Definition c_commit_aliases : list (string * string) := [" + "; ".join(f"({cstr(k)}, {cstr(v)})" for k, v in sorted(alias.items())) + "].\n"
    body += "Definition c_legacy_aliases : list (string * string) := [" + "; ".join(f"({cstr(k)}, {cstr(v)})" for k, v in table) + "].\n"
    return body
