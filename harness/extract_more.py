"""Further fail-closed extractors (registered into extract_constants.EXTRACTORS)."""
import ast

from extract_constants import HEADER, Unrecognised, clist, cstr, find_def, only, parse, register, str_consts


@register("ConstLru")
def extract_lru():
    tree = parse("dds/_lru_store.py")
    vals = [n.value.value for n in tree.body if isinstance(n, ast.Assign) and getattr(n.targets[0], "id", None) == "default_cache_size"
            and isinstance(n.value, ast.Constant)]
    v = only(vals, "default_cache_size")
    if not isinstance(v, int) or v <= 0 or v > 100000:
        raise Unrecognised(f"default_cache_size = {v!r}")
    return HEADER + f"(* dds/_lru_store.py *)\nDefinition c_default_cache_size : nat := {v}.\n"


@register("ConstStages")
def extract_stages():
    tree = parse("dds/structures.py")
    cls = find_def(tree, "ProcessingStage")
    members = [(n.targets[0].id, n.value.value) for n in cls.body
               if isinstance(n, ast.Assign) and isinstance(n.value, ast.Constant) and isinstance(n.value.value, str)]
    ap = find_def(cls, "all_phases")
    ret = only([n for n in ast.walk(ap) if isinstance(n, ast.Return)], "all_phases return")
    if not isinstance(ret.value, ast.List):
        raise Unrecognised("all_phases does not return a list literal")
    names = []
    for e in ret.value.elts:
        if not (isinstance(e, ast.Attribute) and isinstance(e.value, ast.Name) and e.value.id == "ProcessingStage"):
            raise Unrecognised("all_phases element " + ast.unparse(e))
        names.append(e.attr)
    lower_ok = all(v == n.lower() for n, v in members)
    bases = [ast.unparse(b) for b in cls.bases]
    body = HEADER + "(* dds/structures.py : ProcessingStage *)\n"
    body += f"Definition c_all_phases : list string := {clist(names)}.\n"
    body += f"Definition c_stage_members : list string := {clist([n for n, _ in members])}.\n"
    body += f"Definition c_stage_values_are_lower_names : bool := {'true' if lower_ok else 'false'}.\n"
    body += f"Definition c_stage_bases : list string := {clist(bases)}.\n"
    # gates of _eval_new_ctx: which stage membership tests guard evaluation and path commit
    api = parse("dds/_api.py")
    enc = find_def(api, "_eval_new_ctx")
    gates = []
    for n in ast.walk(enc):
        if isinstance(n, ast.Compare) and isinstance(n.ops[0], (ast.In, ast.NotIn)) and ast.unparse(n.comparators[0]) == "stages":
            gates.append(ast.unparse(n))
    body += f"Definition c_stage_gates : list string := {clist(gates)}.\n"
    return body


@register("ConstAccept")
def extract_accept():
    tree = parse("dds/introspect.py")
    pk = None
    for n in tree.body:
        if isinstance(n, ast.AnnAssign) and getattr(n.target, "id", None) == "_accepted_packages":
            pk = n.value
        if isinstance(n, ast.Assign) and getattr(n.targets[0], "id", None) == "_accepted_packages":
            pk = n.value
    if not isinstance(pk, ast.Set):
        raise Unrecognised("_accepted_packages is not a set literal")
    names = []
    for e in pk.elts:
        if not (isinstance(e, ast.Call) and getattr(e.func, "id", None) == "Package" and isinstance(e.args[0], ast.Constant)):
            raise Unrecognised("element of _accepted_packages: " + ast.unparse(e))
        names.append(e.args[0].value)
    ctx = parse("dds/_eval_ctx.py")
    iap = find_def(ctx, "is_authorized_path")
    loops = [n for n in ast.walk(iap) if isinstance(n, ast.For)]
    lp = only(loops, "loop of is_authorized_path")
    bound = ast.unparse(lp.iter)
    tests = [ast.unparse(n.test) for n in ast.walk(lp) if isinstance(n, ast.If)]
    body = HEADER + "(* dds/introspect.py : _accepted_packages ; dds/_eval_ctx.py : is_authorized_path *)\n"
    body += f"Definition c_default_accepted : list string := {clist(sorted(names))}.\n"
    body += f"Definition c_authorized_loop : string := {cstr(bound)}.\n"
    body += f"Definition c_authorized_test : string := {cstr(only(tests, 'test of is_authorized_path'))}.\n"
    return body
