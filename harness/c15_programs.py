"""C15, program part: restricted stage lists are dry runs (no user code / no blob / no path), later full runs unaffected."""
import concurrent.futures as cf
import json
import random

import common as C
import hist
import progs as P
import values as V


def plan(seed):
    rng = random.Random(seed)
    prog = P.gen_program(rng)
    call = P.root_call(prog, rng)
    call["style"] = "eval"       # dds_stages is an option of dds.eval only
    call.pop("path", None)
    n = rng.choice([0, 1, 2, 2, 3, 4, 4])
    store = rng.choice(["local", "memory", "local+lru"])
    restricted = dict(call, n_stages=n)
    # populated variant: a full run first, then an edit is not needed: the restricted run on a cold store is the hard case
    ev = [("prog", prog), ("act", restricted), ("act", restricted), ("act", call), ("act", call)]
    control = [("prog", prog), ("act", call), ("act", call)]
    # restricted run, then the program state changes in the same process (a tracked variable is reassigned), then the full
    # run: it must be the full run of the NEW state (nothing of the restricted run's analysis may be reused)
    cands = [(m, v) for (m, nm) in P.reachable(prog, *prog["root"]) for v in P.find_func(prog, m, nm)["reads"]]
    ev2 = ctl2 = None
    if cands:
        m, v = rng.choice(cands)
        old = prog["modules"][m]["vars"][v]
        new = rng.choice([x for x in P.VAR_VALUES if V.canon(x) != V.canon(old)])
        sv = ("act", {"a": "setvar", "mod": m, "name": v, "value": new})
        sv_back = ("act", {"a": "setvar", "mod": m, "name": v, "value": old})
        ev2 = [("prog", prog), ("act", restricted), sv, ("act", call), sv_back, ("act", restricted), ("act", call)]
        ctl2 = [("prog", prog), sv, ("act", call), sv_back, ("act", call)]
    return {"seed": seed, "n": n, "store": store, "events": ev, "control": control, "call": call, "events2": ev2, "control2": ctl2}


def plan_populated(seed, n):
    """A root that has a path of its own (data function), evaluated in full, re-evaluated in full after a variable changed, and -
    the variable set back - evaluated under a stage list that stops before path commit: the root's blob of the first run is in
    the store, so nothing runs, and the committed paths (now those of the second run) must stay where they are."""
    for k in range(400):
        pl = plan(seed * 7 + k)
        root = P.find_func(pl["events"][0][1], *pl["events"][0][1]["root"])
        if root.get("annot") and pl["events2"]:
            break
    else:
        return None
    prog = pl["events"][0][1]
    call = pl["call"]
    restricted = dict(call, n_stages=n)
    sv, sv_back = pl["events2"][2], pl["events2"][4]
    pl = dict(pl, n=n, populated_root=True)
    pl["events2"] = [("prog", prog), ("act", call), sv, ("act", call), sv_back, ("act", restricted), ("act", call)]
    pl["control2"] = [("prog", prog), ("act", call), sv, ("act", call), sv_back, ("act", call)]
    return pl


def run_one(job):
    try:
        r2 = None
        if job.get("events2"):
            r2 = (hist.run_history(job["events2"], store_kind=job["store"]),
                  hist.run_history(job["control2"], store_kind=job["store"], run_ref=False, run_model=False))
        return (hist.run_history(job["events"], store_kind=job["store"]),
                hist.run_history(job["control"], store_kind=job["store"], run_ref=False, run_model=False), r2)
    except Exception as e:  # noqa
        return {"error": str(e)[-1000:]}


def run(rep, tier, seed, proof_ok, rng):
    n = 12 if tier == "quick" and proof_ok else 100
    plans = [plan(seed * 1000 + i) for i in range(n)]
    # restricted runs that find the root's own blob in the store (deterministically present in every run of the check)
    for j, ns in enumerate((3, 4) if tier == "quick" and proof_ok else (3, 4, 3, 4, 2, 1)):
        pp = plan_populated(seed * 1000 + 500 + j, ns)
        if pp:
            plans.append(pp)
    with cf.ThreadPoolExecutor(max_workers=C.NPROC) as ex:
        results = list(ex.map(run_one, plans))
    dist = {}
    for pl, res in zip(plans, results):
        rep.case(f"prog:{pl['seed']}:{pl['n']}:{pl['store']}")
        dist[pl["n"]] = dist.get(pl["n"], 0) + 1
        if isinstance(res, dict):
            rep.violation("harness-error:c15", "history could not be run: " + res["error"][-300:], {"events": pl["events"]}, no_input=True)
            continue
        recs, ctl, r2 = res
        replay = {"events": pl["events"], "n_stages": pl["n"], "store": pl["store"]}
        if r2:
            recs2, ctl2 = r2
            rep.case(f"prog:{pl['seed']}:{pl['n']}:{pl['store']}:state-change-after-restricted")
            replay2 = {"events": pl["events2"], "n_stages": pl["n"], "store": pl["store"]}
            for i, r in enumerate(recs2):
                if pl.get("populated_root") and r["act"].get("n_stages") is not None and [x for x in r["impl"]["rec"] if x[0] == "sync"] \
                        and r["act"]["n_stages"] < 5:
                    rep.violation("dry-run-impure:path-commit:root-served-from-the-store", f"stages {hist.STAGE_NAMES[:r['act']['n_stages']]} on a store that "
                                  f"holds the root's blob: paths were committed", dict(replay2, action=i))
                d = hist.compare(r)
                if d:
                    rep.violation("model-mismatch:" + d[0][0], f"restricted run, state change, full run: implementation and model disagree at action {i}: "
                                  f"{json.dumps(d[:2])[:300]}", dict(replay2, action=i))
            full2 = [r for r in recs2 if r["act"]["a"] == "call" and r["act"].get("n_stages") is None]
            cfull2 = [r for r in ctl2 if r["act"]["a"] == "call"]
            for a, b in zip(full2, cfull2):
                if hist.impl_obs(a)["sigs"] != hist.impl_obs(b)["sigs"] or a["impl"]["out"] != b["impl"]["out"]:
                    rep.violation("restricted-run-perturbs:state-change-in-between", "a full evaluation after (restricted run, variable reassigned) differs "
                                  "(signatures or result) from the same evaluation without the restricted run",
                                  dict(replay2, with_restricted=a["impl"]["out"][:100], without=b["impl"]["out"][:100]))
                if a["ref"]["out"] is not None and a["impl"]["out"] != a["ref"]["out"]:
                    rep.violation("wrong-after-restricted", f"full evaluation after a restricted one returns {a['impl']['out'][:80]} instead of {a['ref']['out'][:80]}", replay2)
        for i, r in enumerate(recs):
            d = hist.compare(r)
            if d:
                rep.violation("model-mismatch:" + d[0][0], f"implementation and model disagree at action {i}: {json.dumps(d[:2])[:300]}", dict(replay, action=i))
        for r in recs[:2]:
            io = r["impl"]
            puts = [x for x in io["rec"] if x[0] == "put"]
            syncs = [x for x in io["rec"] if x[0] == "sync"]
            if pl["n"] < 3:
                if io["log"] or puts or syncs or io["out"] != "ok:N":
                    rep.violation("dry-run-impure:analysis-only", f"stages {hist.STAGE_NAMES[:pl['n']]}: ran {io['log']}, {len(puts)} blobs, {len(syncs)} commits, "
                                  f"returned {io['out'][:40]}", replay)
            else:
                if syncs:
                    rep.violation("dry-run-impure:path-commit", f"stages {hist.STAGE_NAMES[:pl['n']]}: paths were committed", replay)
        # the later full evaluations: same signatures and values as the control without restricted runs
        full, cfull = recs[2], ctl[0]
        if hist.impl_obs(full)["sigs"] != hist.impl_obs(cfull)["sigs"] or full["impl"]["out"] != cfull["impl"]["out"]:
            rep.violation("restricted-run-perturbs", "a later full evaluation differs (signatures or result) from the same evaluation without the "
                          "restricted run before it", dict(replay, with_restricted=full["impl"]["out"][:100], without=cfull["impl"]["out"][:100]))
        if full["impl"]["out"] != full["ref"]["out"]:
            rep.violation("wrong-after-restricted", f"full evaluation after a restricted one returns {full['impl']['out'][:80]} instead of {full['ref']['out'][:80]}", replay)
    rep.extra["program_part"] = {"pipelines": len(plans), "by_number_of_stages": dist}


def replay(r):
    import c01, json as _j, tempfile, os
    p = os.path.join(tempfile.mkdtemp(), "r.json")
    _j.dump({"replay": r}, open(p, "w"))
    return c01.replay(p)
