"""C12, the fill dimension: key sets LARGER than the configured capacity.

Every sequence works on at least capacity + 3 distinct present keys (some None-valued, some stored late), fills the cache
completely and keeps fetching new keys.  The answers are compared with the bare store's in lock step (invisible), and the
number of cache entries / of fetched objects still alive (weak references) is compared with the configured bound after
EVERY operation (bounded at every step, not only at the end).  Capacities: small ones, the cache_objects=True default,
and values around multiples of 8 and powers of two; the wrapper is built directly and through dds.set_store(cache_objects=)."""
import json
import time

import common as C

DRIVER = "drive_c12_fill.py"
PATHS = ["/p", "/q/r"]

CAPS_QUICK = [1, 2, 3, 4, 5, 7, 8, 9, 10, "default", 15, 16, 17, 23, 24, 25, 31, 32, 33]
CAPS_MORE = [6, 11, 12, 13, 39, 40, 41, 47, 48, 49, 63, 64, 65, 100, 127, 128, 129]
DEFAULT_CAP = 10  # only used to size the key set of cap="default"; the bound itself comes from the library's documented default


def key(i):
    return "f%03d" % i


def value(i):
    """content addressing: one value per key; every 7th key is a None-valued blob (in one job out of two: see gen_jobs)"""
    return None if i % 7 == 3 else "w%d" % i


def put(i):
    return ["put", key(i), value(i)]


def fetch(i):
    return ["fetch", key(i)]


def has(i):
    return ["has", key(i)]


# ---------------------------------------------------------------- sequence shapes (c = capacity, n = number of keys > c)

def sh_scan(c, n, rng):
    """store everything, then fetch every key in order, twice (the cyclic scan: every fetch of the 2nd pass is a miss)"""
    ops = [put(i) for i in range(n)]
    for _ in range(2):
        for i in range(n):
            ops += [has(i), fetch(i)]
    return ops


def sh_fill_then_new(c, n, rng):
    """fill the cache exactly, hit every entry, then keep fetching new keys with hits on old ones in between"""
    ops = [put(i) for i in range(n)]
    ops += [fetch(i) for i in range(c)]
    ops += [fetch(i) for i in range(c)]
    for i in range(c, n):
        ops += [fetch(i), fetch((i * 3) % c), has(i)]
    ops += [fetch(i) for i in range(n)]
    return ops


def sh_zigzag(c, n, rng):
    """forward, backward, forward"""
    ops = [put(i) for i in range(n)]
    ops += [fetch(i) for i in range(n)] + [fetch(i) for i in reversed(range(n))] + [fetch(i) for i in range(n)]
    return ops


def sh_hot_cold(c, n, rng):
    """one hot key hit between the fetches of a long run of cold keys"""
    ops = [put(i) for i in range(n)]
    for i in range(1, n):
        ops += [fetch(0), fetch(i)]
        if i % 4 == 0:
            ops += [has(i - 1), ["fpaths", [PATHS[0]]]]
    ops += [fetch(0)] + [fetch(i) for i in range(n)]
    return ops


def sh_late_store(c, n, rng):
    """keys are fetched before they exist (misses), stored, fetched again; then a scan over all of them"""
    ops = []
    for i in range(n):
        ops += [fetch(i), has(i), put(i), fetch(i)]
        if i:
            ops += [fetch(i - 1)]
        if i % 5 == 0:
            ops += [["sync", [[PATHS[i % 2], key(i)]]], ["fpaths", [PATHS[i % 2]]]]
    ops += [fetch(i) for i in range(n)]
    return ops


def sh_bursts(c, n, rng):
    """after an exact fill: bursts of 1, 2, 3 ... new keys, every burst followed by hits on the whole key set"""
    ops = [put(i) for i in range(n)] + [fetch(i) for i in range(c)]
    nxt, burst = c, 1
    while nxt < n:
        for i in range(nxt, min(n, nxt + burst)):
            ops.append(fetch(i))
        nxt += burst
        burst += 1
        ops += [fetch(i) for i in range(0, n, max(1, n // 6))]
    return ops


def sh_restore(c, n, rng):
    """scan, store every blob again (same content), scan again in another order"""
    ops = [put(i) for i in range(n)] + [fetch(i) for i in range(n)]
    ops += [put(i) for i in range(n)]
    order = list(range(n))
    rng.shuffle(order)
    for i in order:
        ops += [fetch(i), has(order[0])]
    return ops


def sh_random(c, n, rng):
    """random operations, mostly fetches, over the whole key set, long enough to fill the cache several times"""
    stored = set(rng.sample(range(n), max(1, (4 * n) // 5)))
    ops = [put(i) for i in sorted(stored)]
    for _ in range(rng.randint(3 * n, 6 * n)):
        r = rng.random()
        i = rng.randrange(n)
        if r < 0.7:
            ops.append(fetch(i))
        elif r < 0.82:
            ops.append(has(i))
        elif r < 0.93:
            ops.append(put(i))
            stored.add(i)
        elif r < 0.97:
            ops.append(["sync", [[rng.choice(PATHS), key(rng.choice(sorted(stored)))]]])
        else:
            ops.append(["fpaths", [rng.choice(PATHS)]])
    ops += [fetch(i) for i in sorted(stored)]
    return ops


SHAPES = [("scan", sh_scan), ("fill-then-new", sh_fill_then_new), ("zigzag", sh_zigzag), ("hot-cold", sh_hot_cold),
          ("late-store", sh_late_store), ("bursts", sh_bursts), ("restore", sh_restore), ("random", sh_random)]


def gen_jobs(rng, tier):
    """-> list of wrapped jobs (the bare twin is derived by bare_of)"""
    caps = CAPS_QUICK + (CAPS_MORE if tier != "quick" else [])
    jobs = []
    for ci, cap in enumerate(caps):
        c = DEFAULT_CAP if cap == "default" else cap
        for si, (name, fn) in enumerate(SHAPES):
            # number of distinct keys: always at least capacity + 3
            sizes = [c + 3, 2 * c + 1 if c > 2 else c + 4, rng.randint(c + 3, 2 * c + 6)]
            ns = [sizes[(ci + si) % 3]] if tier == "quick" else sizes
            for ni, n in enumerate(ns):
                store = "local" if (ci + si + ni) % 2 == 0 else "memory"
                via = "set_store" if cap == "default" or (ci + 2 * si + ni) % 3 == 0 else "ctor"
                ops = fn(c, n, rng)
                if (ci + si + ni) // 2 % 2:
                    # no None-valued blob: every cache entry is a live object (the weak-reference count can reach the bound)
                    ops = [["put", o[1], "n" + o[1]] if o[0] == "put" and o[2] is None else o for o in ops]
                jobs.append({"store": store, "cap": cap, "via": via, "shape": name, "nkeys": n, "ops": ops})
    # several cache wrappers over one inner store: every client scans more keys than its capacity, interleaved
    for i in range(8 if tier == "quick" else 40):
        cap = rng.choice([c for c in caps if c != "default" and c <= 33])
        nc = rng.choice([2, 3])
        n = cap + 3 + rng.randrange(4)
        ops = [[0, put(k)] for k in range(n)]
        for _ in range(rng.randint(3 * n, 5 * n) * nc):
            ops.append([rng.randrange(nc), fetch(rng.randrange(n)) if rng.random() < 0.85 else has(rng.randrange(n))])
        for cl in range(nc):
            ops += [[cl, fetch(k)] for k in range(n)]
        jobs.append({"store": "local" if i % 2 else "memory", "cap": cap, "via": "ctor", "clients": nc, "shape": "multi-client", "nkeys": n, "ops": ops})
    return jobs


def bare_of(job):
    b = {"store": job["store"], "cap": "bare", "ops": job["ops"]}
    if job.get("clients"):
        b["clients"] = job["clients"]
    return b


def strip(job):
    return {k: job[k] for k in ("store", "cap", "via", "clients", "ops") if k in job}


def breaches(job, rw, rb):
    """What the property forbids, on the results of the wrapped (rw) and the bare (rb) run:
    -> list of (kind, step, observed, allowed)"""
    out = []
    if rw["outs"] != rb["outs"]:
        step = next(i for i, (a, b) in enumerate(zip(rw["outs"], rb["outs"])) if a != b)
        out.append(("opaque", step, rw["outs"][step], rb["outs"][step]))
    bound = rw["bound"]
    over = [i for i, x in enumerate(rw["lens"]) if x > bound]
    if over:
        out.append(("entries", over[0], rw["lens"][over[0]], bound))
    abound = bound * (job.get("clients") or 1)
    over = [i for i, x in enumerate(rw["alive"]) if x > abound]
    if over:
        out.append(("alive", over[0], rw["alive"][over[0]], abound))
    return out


def new_into_full(job, lens, bound):
    """number of fetches of a key this client never fetched before, issued while its cache was full"""
    seen, n = set(), 0
    for k, op in enumerate(job["ops"]):
        cl, op = (op[0], op[1]) if job.get("clients") else (0, op)
        if op[0] == "fetch":
            if (cl, op[1]) not in seen and k > 0 and lens[k - 1] >= bound:
                n += 1
            seen.add((cl, op[1]))
    return n


def run_pairs(jobs):
    payload = []
    for j in jobs:
        payload += [strip(j), bare_of(j)]
    res = C.run_driver(DRIVER, {"jobs": payload})["jobs"]
    return [(res[2 * i], res[2 * i + 1]) for i in range(len(jobs))]


def shrink(job, kind, budget=14):
    """Shorter sequence with the same kind of breach: cut after the first breach, then delete chunks (every round is one
    driver call that tries all the deletions of one chunk size)."""
    def still(j, rw, rb):
        return [b for b in breaches(j, rw, rb) if b[0] == kind]

    (rw, rb), = run_pairs([job])
    b = still(job, rw, rb)
    if not b:
        return job
    ops = job["ops"][:b[0][1] + 1]
    size = max(1, len(ops) // 2)
    while budget > 0 and size >= 1:
        cands = [ops[:i] + ops[i + size:] for i in range(0, len(ops), size)]
        cands = [c for c in cands if c]
        budget -= 1
        rs = run_pairs([dict(job, ops=c) for c in cands]) if cands else []
        ok = [c for c, (rw, rb) in zip(cands, rs) if still(dict(job, ops=c), rw, rb)]
        if ok:
            ops = min(ok, key=len)
        elif size == 1:
            break
        else:
            size //= 2
    return dict(job, ops=ops)


def describe(job):
    cap = job["cap"]
    how = "dds.set_store(%r, cache_objects=%s)" % (job["store"], "True" if cap == "default" else cap) if job.get("via") == "set_store" \
        else "LRUCacheStore(%s store, num_elem=%s)" % (job["store"], cap)
    if job.get("clients"):
        how = "%d x %s over one store" % (job["clients"], how)
    return how


def op_text(op):
    if op and isinstance(op[0], int):
        return "client %d: %s" % (op[0], op_text(op[1]))
    return "%s(%s)" % (op[0], op[1] if isinstance(op[1], str) else json.dumps(op[1]))


KEYS = {"opaque": "opaque:fill", "entries": "unbounded-cache:fill", "alive": "unbounded-cache:objects-alive:fill"}


def report(rep, job, kind, shrunk_kinds):
    """one violation, on a shrunk sequence the first time a kind is seen"""
    small = job
    if kind not in shrunk_kinds:
        shrunk_kinds.add(kind)
        small = shrink(job, kind)
    (rw, rb), = run_pairs([small])
    bs = [b for b in breaches(small, rw, rb) if b[0] == kind]
    if not bs:  # (cannot happen: shrink keeps the breach) report the original sequence
        small = job
        (rw, rb), = run_pairs([small])
        bs = [b for b in breaches(small, rw, rb) if b[0] == kind]
    _, step, seen, allowed = bs[0]
    nk = len({(o[1] if isinstance(o[0], int) else o)[1] for o in small["ops"][:step + 1] if (o[1] if isinstance(o[0], int) else o)[0] == "fetch"})
    where = f"after operation #{step} {op_text(small['ops'][step])} of a {len(small['ops'])}-operation sequence fetching {nk} distinct keys ('{job['shape']}' shape)"
    if kind == "opaque":
        what = f"{describe(small)} answers {seen!r} where the bare store answers {allowed!r} {where}"
    elif kind == "entries":
        what = f"{describe(small)} holds {seen} cache entries, the configured bound is {allowed}, {where}"
    else:
        what = f"{describe(small)} keeps {seen} fetched objects alive (weak references after gc), the configured bound is {allowed}, {where}"
    rp = dict(strip(small), fill=True, shape=job["shape"], nkeys=job["nkeys"], kind=kind, step=step, observed=seen, allowed=allowed,
              wrapped=rw["outs"], bare=rb["outs"], lens=rw["lens"], alive=rw["alive"])
    rep.violation(KEYS[kind], what, rp)


def cap_coq(cap):
    return "(Some c_default_cache_size)" if cap == "default" else f"(Some {cap}%nat)"


def run(rep, tier, seed, proof_ok, rng, ops_coq, prelude):
    t0 = time.time()
    jobs = gen_jobs(rng, tier)
    res = run_pairs(jobs)
    t1 = time.time()
    # the Coq model on the single-client memory jobs (answers and cache length after every operation)
    # (quick: every 3rd one; thorough: every 2nd one, every 8th one of the long sequences)
    midx = [i for i, j in enumerate(jobs) if j["store"] == "memory" and not j.get("clients")]
    midx = [i for k, i in enumerate(midx) if k % (3 if tier == "quick" else 2 if len(jobs[i]["ops"]) <= 300 else 8) == 0]
    exprs = [f"(run_lru {cap_coq(jobs[i]['cap'])} {ops_coq(jobs[i]['ops'])} ++ \"#\" ++ run_lru_lens {cap_coq(jobs[i]['cap'])} {ops_coq(jobs[i]['ops'])})%string"
             for i in midx]
    model = dict(zip(midx, C.coq_eval_strings(prelude, exprs, shard=13, label="c12f")))
    t2 = time.time()
    shrunk_kinds = set()
    stats = {"sequences": len(jobs), "capacities": sorted({j["cap"] for j in jobs}, key=str), "shapes": {}, "filled_to_capacity": 0,
             "fetches_of_a_new_key_into_a_full_cache": 0, "max_keys": max(j["nkeys"] for j in jobs), "max_len": max(len(j["ops"]) for j in jobs),
             "min_keys_over_capacity": min(j["nkeys"] - (DEFAULT_CAP if j["cap"] == "default" else j["cap"]) for j in jobs),
             "bound_checked_after_operations": 0, "alive_checked_after_operations": 0, "via_set_store": sum(1 for j in jobs if j["via"] == "set_store"),
             "max_entries_seen_by_capacity": {}, "max_alive_seen_by_capacity": {}}
    for i, (job, (rw, rb)) in enumerate(zip(jobs, res)):
        bound = rw["bound"]
        full = [k for k, x in enumerate(rw["lens"]) if x >= bound]
        # non-trivial: the cache was full and a fetch missed afterwards (a new object had to enter a full cache)
        pressure = new_into_full(job, rw["lens"], bound)
        rep.case(json.dumps(["fill", job["store"], job["cap"], job["via"], job.get("clients"), job["ops"]]), bool(full) and pressure > 0)
        stats["shapes"][job["shape"]] = stats["shapes"].get(job["shape"], 0) + 1
        stats["filled_to_capacity"] += bool(full)
        stats["fetches_of_a_new_key_into_a_full_cache"] += pressure
        stats["bound_checked_after_operations"] += len(rw["lens"])
        stats["alive_checked_after_operations"] += len(rw["alive"])
        m = stats["max_entries_seen_by_capacity"]
        m[str(job["cap"])] = max(m.get(str(job["cap"]), 0), max(rw["lens"]))
        if rw["alive"] and not job.get("clients"):
            m = stats["max_alive_seen_by_capacity"]
            m[str(job["cap"])] = max(m.get(str(job["cap"]), 0), max(rw["alive"]))
        for b in breaches(job, rw, rb):
            if sum(1 for v in rep.violations if v["key"] == KEYS[b[0]]) < 10:
                report(rep, job, b[0], shrunk_kinds)
        if i in model:
            iw = ";".join(rw["outs"]) + "#" + ";".join(map(str, rw["lens"]))
            if model[i] != iw:
                rep.violation("model-mismatch:lru:fill", f"LRU model and implementation disagree on a '{job['shape']}' sequence over {job['nkeys']} keys (capacity {job['cap']})",
                              dict(strip(job), fill=True, shape=job["shape"], nkeys=job["nkeys"], kind="model", impl=iw, model=model[i]))
    stats["model_compared"] = len(midx)
    stats["wall_s"] = {"implementation": round(t1 - t0, 1), "model": round(t2 - t1, 1)}
    rep.sample({"fill": True, "store": jobs[0]["store"], "cap": jobs[0]["cap"], "via": jobs[0]["via"], "shape": jobs[0]["shape"], "ops": jobs[0]["ops"][:12] + ["..."]})
    return stats


def replay(r):
    job = {k: r[k] for k in ("store", "cap", "via", "clients", "ops") if k in r}
    job.setdefault("shape", r.get("shape"))
    (rw, rb), = run_pairs([job])
    bs = breaches(job, rw, rb)
    print(json.dumps({"how": describe(job), "ops": r["ops"], "wrapped": rw["outs"], "bare": rb["outs"], "bound": rw["bound"],
                      "entries_after_each_operation": rw["lens"], "alive_after_each_operation": rw["alive"],
                      "breaches": [{"kind": k, "step": s, "observed": o, "allowed": a} for k, s, o, a in bs]}, indent=1))
    if r.get("kind") == "model":
        # the model's answer is stored in the replay file: the implementation is run again and compared with it
        iw = ";".join(rw["outs"]) + "#" + ";".join(map(str, rw["lens"]))
        print(json.dumps({"impl": iw, "model": r["model"]}, indent=1))
        bs = bs or iw != r["model"]
    print("REPRODUCED" if bs else "not reproduced")
    return 1 if bs else 0
