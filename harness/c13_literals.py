"""C13, literal-spelling part: whole evaluations (real module files + dds.eval) whose in-source dds.keep arguments are spelled
in every way Python allows for a literal or a near-literal.  Nothing here knows the value of a spelling: the driver
(drive_c13lit.py) asks Python for the binding of f(<args>) and for the result of its plain execution; the checks are
  stale      an evaluation (or the direct call) returns something else than the plain execution of the same call
  collision  two calls (in source or direct) that bind different values share one signature
  spelling   two calls that bind the same values and whose arguments all are constants of the syntax tree (1_000, 0x3e8,
             'a' 'b', (1), 1e3 ...) get different signatures, or differ from the signature of the direct call
Arguments that are not constants of the syntax tree (-1, 1+1, not 0, [1] ...) are run-time arguments for the library (their
signature comes from the call context): for them only `stale` and `collision` are demanded."""
import json
import re

import common as C

# Families of spellings; the grouping only serves the sampling (values come from Python, in the driver).
# Kept out on purpose (C05 collision classes, known): empty containers, '__none__', 4/8-character strings that are the bytes
# of an int / a float of the pool.
SPELLINGS = {
    "int+1": ["1", "+1", "(1)", "--1", "~-2", "0x1", "0b1", "0o1", "2-1", "3%2", "1**5", "1 if 1 else 2", "0 or 1", "[1][0]"],
    "int-1": ["-1", "- 1", "(-1)", "-(1)", "-+1", "+-1", "~0", "-0x1", "0-1", "1-2", "-1**2", "---1", "-True"],
    "int0": ["0", "-0", "+0", "~-1", "00", "0x0", "0_0", "1-1", "0*5", "1 and 0"],
    "int-2": ["-2", "~1", "-(2)", "-1-1", "- 2"],
    "int+2": ["2", "1+1", "+2", "--2", "~-3", "1<<1", "2**1", "4//2", "0b10", "2&3", "3^1", "1 + 1"],
    "bool": ["True", "False", "not 0", "not 1", "not True", "not False", "not None", "not ''", "not not 1", "1 == 1", "1 < 0"],
    "big": ["1000", "1_000", "0x3e8", "0o1750", "0b1111101000", "10**3", "1_0_0_0", "-1000", "-1_000", "-0x3e8", "~999", "+1000",
            "2147483647", "0x7fffffff", "2**31-1", "2147483648", "0x80000000", "2**31", "-2147483648", "-0x80000000", "-2**31",
            "~0x7fffffff", "-2147483649", "4294967297", "0x1_0000_0001", "2**32+1", "-4294967295", "18446744073709551617",
            "-18446744073709551615"],
    "float0": ["0.0", "0.", ".0", "0e0", "0.0e-5", "+0.0", "-0.0", "-0.", "-0e0", "0.0*-1", "1e-400", "-1e-400", "--0.0"],
    "float1": ["1.0", "1.", "1e0", "10e-1", "0.1e1", "1_0e-1", "+1.0", "--1.0", "-1.0", "-1.", "-1e0", "-(1.0)", "~1.0"],
    "float": ["1.5", "-1.5", "3/2", "-3/2", "+1.5", "1e3", "1000.0", "1E3", "1_000.0", "1e+3", "-1e3", "1e400", "2e400", "-1e400",
              "0.5", "1/2", ".5", "-.5", "2.5", "5/2", "0.1+0.2", "0.3", "0.30000000000000004"],
    "complex": ["1j", "-1j", "1J", "0j", "1+1j", "1-1j", "1.0j"],
    "str_a": ["'a'", '"a"', "'''a'''", '"""a"""', "'\\x61'", "'\\u0061'", "'\\141'", "'\\N{LATIN SMALL LETTER A}'", "r'a'", "u'a'",
              "('a')", "'a' ''", "'' 'a'", "'' \"a\"", "f'a'", "'a'+''", "'a'*1", "'%s' % 'a'", "-'a'"],
    "str_ab": ["'ab'", "'a' 'b'", "'a' \"b\"", "'a'+'b'", "('a' 'b')", "'a' r'b'", "'ba'", "'b' 'a'", "'aa'", "'a'*2", "'a' 'a'"],
    "str": ["''", "'' ''", '""', "''*3", "'1'", "'-1'", "'+1'", "'0'", "'1.0'", "' a'", "'a '", "'A'", "'\\n'", "r'\\n'", "'\\\\n'",
            "'\\xe9'", "'\\u00e9'", "'e\\u0301'", "'none'", "'true'"],
    "bytes": ["b'a'", "B'a'", "b'a' b''", "b'\\x61'", "rb'a'", "b'b'", "b''"],
    "none": ["None", "(None)", "None or None", "None if 1 else 0", "..."],
    "container": ["(1,)", "[1]", "[-1]", "[+1]", "(1, 2)", "[1, 2]", "[2, 1]", "{'k': 1}", "{'k': -1}", "(-1,)", "[[1]]", "[None]",
                  "*[1]", "*(-1,)", "*[+1]"],
}
ILL_TYPED = ("-'a'", "~1.0")  # python refuses them (TypeError) when the call runs: fine as arguments, not as default values
SMALL = ["int+1", "int-1", "int0", "int-2", "int+2", "bool", "float0", "float1", "str_a", "str_ab", "none"]


UNSUPPORTED = re.compile(r"(^|[(,:])[bcES?]")  # canonical text of a bytes / complex / Ellipsis / set / other object


def norm(text):
    """canonical text modulo the documented identifications bool = int, tuple = list"""
    return re.sub(r"U\(", "L(", text.replace("T", "i1").replace("F", "i0"))


def call_text(call):
    return f"f({call['args']})"


def check_case(case, res):
    """-> [(key, what, involved call indices)] for one case and the driver's answer for it."""
    out = []
    head = case["def"].splitlines()[0]
    if isinstance(res, dict):
        return [("harness-error:c13lit", f"{case['id']}: driver failed on the case: {res.get('error')} {res.get('tb', '')[-200:]}", [])]
    calls = case["calls"]
    # who holds which signature: (signature) -> [(binding, how, index)]
    holders = {}
    for i, (call, r) in enumerate(zip(calls, res)):
        if r["binding"] is None:
            continue
        b = norm(json.dumps(r["binding"]))
        if r.get("sig"):
            holders.setdefault(r["sig"], []).append((b, "in source", i))
        if r.get("direct_sig"):
            holders.setdefault(r["direct_sig"], []).append((b, "direct", i))
    # stale: the evaluation / the direct call does not return what plain execution returns
    for i, (call, r) in enumerate(zip(calls, res)):
        for how, got in (("in source", r.get("eval")), ("direct", r.get("direct"))):
            if got is None or norm(got) == norm(r["plain"]):
                continue
            if got == "dds:TYPE_NOT_SUPPORTED" and any(UNSUPPORTED.search(v) for v in [x for _, x in r["defaults"]] + [x for x in r["arg_values"] if x]):
                continue  # an argument or a default value of a type that dds documents as unsupported (bytes, complex, Ellipsis, set): refused
            sig = r.get("sig") if how == "in source" else r.get("direct_sig")
            other = [(h, j) for (b, h, j) in holders.get(sig, []) if j != i and norm(res[j]["plain"]) == norm(got)]
            also = f"; that is the value of {call_text(calls[other[0][1]])} [{other[0][0]}], which has the same signature" if other else ""
            out.append(("binding-collision:literal-stale" if how == "in source" else "binding-collision:literal-stale-direct",
                        f"{head} kept as dds.keep({call['path']!r}, f, {call['args']}) [{how}] returned {got[:80]} but plain execution "
                        f"of {call_text(call)} gives {r['plain'][:80]}{also}", [other[0][1], i] if other else [i]))
    # collision: one signature, two bindings
    for sig, lst in holders.items():
        first = lst[0]
        for b, how, i in lst[1:]:
            if b != first[0]:
                out.append(("binding-collision:literal", f"{head} {call_text(calls[first[2]])} [{first[1]}] and {call_text(calls[i])} [{how}] "
                            f"bind different values but share the signature {sig[:16]}", sorted({first[2], i})))
                break
    # spelling: same binding, constants only -> one signature, the one of the direct call
    groups = {}
    for i, (call, r) in enumerate(zip(calls, res)):
        if r["binding"] is not None and r["constant"] and r.get("eval", "").startswith("ok:"):
            groups.setdefault(json.dumps(r["binding"]), []).append(i)
    for b, idx in groups.items():
        ref = idx[0]
        for i in idx:
            if res[i].get("sig") != res[ref].get("sig"):
                out.append(("spelling:literal", f"{head} {call_text(calls[ref])} and {call_text(calls[i])} in source bind the same constants but get "
                            f"different signatures", [ref, i]))
                break
            if res[i].get("direct_sig") is not None and res[i].get("direct_sig") != res[i].get("sig"):
                out.append(("spelling:literal-vs-direct", f"{head} {call_text(calls[i])} gets one signature when seen in source and another "
                            f"when called directly with the same values", [i]))
                break
    return out


def run_cases(cases):
    return C.run_driver("drive_c13lit.py", {"cases": cases}, timeout=1200)


def shrink(case, key, idx):
    """the case reduced to the calls involved in the violation, if that still shows it"""
    if not idx:
        return case
    small = dict(case, calls=[case["calls"][i] for i in idx])
    try:
        if any(k == key for k, _, _ in check_case(small, run_cases([small])[0])):
            return small
    except Exception:  # noqa
        pass
    return case


def positional_case(cid, spellings, shared_every=2):
    """def f(a): every spelling as the positional argument; every other call keeps to one shared path"""
    calls = [{"args": s, "path": "/c13/shared" if i % shared_every == 0 else f"/c13/p{i}"} for i, s in enumerate(spellings)]
    return {"id": cid, "def": "def f(a):\n    return [a]\n", "calls": calls}


def keyword_case(cid, spellings, default):
    """def f(a, b=<default>): the spelling as keyword b=, as second positional, and the default omitted"""
    calls = [{"args": "0", "path": "/c13/omitted"}]
    for i, s in enumerate(x for x in spellings if not x.startswith("*")):
        calls.append({"args": f"0, b={s}" if i % 3 else f"b={s}, a=0", "path": f"/c13/k{i}"})
        if i % 4 == 0:
            calls.append({"args": f"0, {s}", "path": "/c13/shared"})
    return {"id": cid, "def": f"def f(a, b={default}):\n    return [a, b]\n", "calls": calls}


def random_case(cid, rng, n_calls):
    """1..4 parameters, defaults and arguments drawn from a small pool of spellings of a few values, so that the same binding
    comes back under several spellings and neighbouring values (+1 / -1 / ~1 / not 1) meet under one callee"""
    fams = rng.sample(SMALL, 2) + [rng.choice(list(SPELLINGS))]
    pool = [s for fam in fams for s in rng.sample(SPELLINGS[fam], min(4, len(SPELLINGS[fam])))]
    kwpool = [s for s in pool if not s.startswith("*")]
    n = rng.randint(1, 4)
    params, seen_default = [], False
    for j in range(n):
        d = rng.choice([s for s in kwpool if s not in ILL_TYPED]) if (seen_default or rng.random() < 0.5) else None
        seen_default = seen_default or d is not None
        params.append(("abcd"[j], d))
    sig = ", ".join(p if d is None else f"{p}={d}" for p, d in params)
    calls = []
    for i in range(n_calls):
        pos = [rng.choice(pool) for _ in range(rng.randint(0, n))]
        kws = [(p, rng.choice(kwpool)) for p, d in params[len(pos):] if d is None or rng.random() < 0.6]
        rng.shuffle(kws)
        args = ", ".join(pos + [f"{p}={s}" for p, s in kws])
        calls.append({"args": args, "path": "/c13/shared" if rng.random() < 0.4 else f"/c13/r{i}"})
    ret = "[" + ", ".join(p for p, _ in params) + "]"
    return {"id": cid, "def": f"def f({sig}):\n    return {ret}\n", "calls": calls}


def run(rep, tier, seed, rng):
    everything = [s for fam in SPELLINGS.values() for s in fam]
    order = list(everything)
    rng.shuffle(order)
    cases = [positional_case("positional:all", everything), positional_case("positional:shuffled", order[:100] if tier == "quick" else order, shared_every=1),
             keyword_case("keyword:default-1", [s for fam in SMALL for s in SPELLINGS[fam]], "-1"),
             keyword_case("keyword:default1_000", SPELLINGS["big"] + SPELLINGS["float"] + SPELLINGS["str"], "1_000")]
    if tier != "quick":
        cases += [keyword_case(f"keyword:default{d}", everything, d) for d in ("+1", "None", "'a' 'b'", "-0.0", "not 1", "0x3e8")]
    n_random = 25 if tier == "quick" else 400
    cases += [random_case(f"random:{i}", rng, 12) for i in range(n_random)]
    try:
        results = run_cases(cases)
    except Exception as e:  # noqa
        rep.violation("harness-error:c13lit", f"literal spellings: {str(e)[-300:]}", {"cases": len(cases)}, no_input=True)
        return {"literal_spelling_modules": len(cases), "literal_spelling_calls": 0}
    n_calls = n_const = 0
    seen = set()
    for case, res in zip(cases, results):
        for call, r in zip(case["calls"], res if isinstance(res, list) else []):
            rep.case("literal:" + json.dumps([case["def"], call["args"]]), nontrivial=not r["constant"] or "=" in call["args"])
            n_calls += 1
            n_const += bool(r["constant"])
        for key, what, idx in check_case(case, res):
            if key in seen:
                continue
            seen.add(key)
            small = shrink(case, key, idx)
            rep.violation(key, f"{case['id']}: {what}", {"literal_case": small, "from_case": case["id"], "key": key}, no_input=key.startswith("harness-error"))
    return {"literal_spelling_modules": len(cases), "literal_spelling_calls": n_calls, "literal_spelling_calls_all_constants": n_const,
            "literal_spellings": len(everything)}


def replay(r):
    case = r["literal_case"]
    res = run_cases([case])[0]
    found = check_case(case, res)
    print(json.dumps({"case": case, "impl": res, "violations": [[k, w] for k, w, _ in found]}, indent=1))
    bad = any(k == r.get("key", k) for k, _, _ in found)
    print("REPRODUCED" if bad else "not reproduced")
    return 1 if bad else 0
