"""Process server for the interrupted-evaluation histories of C02 (harness/c02_crash.py): harness/drive_c06srv.py (every
request = one process lifetime = a fresh forked child of a pristine parent that runs harness/drive_prog.py's main) with
what C02 needs on top of it:
  * every dds.keep / data function result that the store ACKNOWLEDGES is recorded in the per-action "rec" as
    ["put-done", key, tag of the function whose body has just returned, number of file-system operations done so far,
    number of function bodies run so far in this action]: from the uncrashed traced run this tells which results were
    completely stored before a given interruption point;
  * request["fault"] (besides the gate of drive_prog, which kills the process):
      {"kind": "os-error", "at": i}              the i-th intercepted file-system operation raises OSError(EIO) instead of
                                                 being performed (once): the store raises, the process survives;
      {"kind": "user-raise", "k": k, "exc": cls} the k-th generated function body that runs in this process raises cls when
                                                 it is about to return (once; a transient failure of user code: the log
                                                 module is a non-accepted module, no signature depends on it)."""
import errno
import os
import sys

sys.path.insert(0, os.path.dirname(os.path.abspath(__file__)))

import drive_c06srv  # noqa: E402

_plain_child = drive_c06srv.child


def child(req, cfg, outfile):
    import importlib
    import drive_prog
    import fsgate
    logmod = importlib.import_module("vlogmod")
    fault = req.get("fault") or {}

    def store_blob(self, key, blob, codec=None):
        self.rec.append(["put", key, drive_prog.canon(blob)])
        r = self.inner.store_blob(key, blob, codec)
        self.rec.append(["put-done", key, logmod.LOG[-1] if logmod.LOG else None, fsgate.STATE["n"], len(logmod.LOG)])
        return r
    drive_prog.RecordingStore.store_blob = store_blob

    if fault.get("kind") == "user-raise":
        count = [0]

        def log(tag):
            logmod.LOG.append(tag)
            count[0] += 1
            if count[0] == fault["k"]:
                raise logmod.make_exc(fault.get("exc", "Exception"), tag)
        logmod.log = log
    if fault.get("kind") == "os-error":
        install = fsgate.install

        def sched(who, entry):
            if entry[0] == fault["at"]:
                raise OSError(errno.EIO, "injected input/output error", str(entry[2]) if len(entry) > 2 else None)

        def install_with_fault(roots, mode="trace", crash_at=None, half=False, logfile=None, sched_=None, **_kw):
            return install(roots, mode="sched", logfile=logfile, sched=sched)
        fsgate.install = install_with_fault
        req = dict(req, gate={"mode": "trace"})
    _plain_child(req, cfg, outfile)


if __name__ == "__main__":
    drive_c06srv.child = child
    drive_c06srv.main()
