"""Implementation driver for C02, execution environment of the unchanged re-evaluation (harness/c02_env.py): ONE process
lifetime.  The program (a package tree written by the harness) is imported from payload["root"], the store is a
LocalFileStore under payload["store"] (shared by all the processes of a scenario), and the entry is evaluated once per
step.  A step changes things that are NOT program content just before its evaluation (and restores them after it):

stdin: {"root": dir put first on sys.path, "pkg": name (accepted; <pkg>.main is the module), "plain_pkg": name | None (the same text
        over a pass-through dds stub: executed once, first), "store": dir,
        "entry": {"style": "eval" | "keep", "fn": name, "path": "/out", "args": [python expressions over pathlib / collections / mod]},
        "steps": [{"name":..., "ops": [{"op": "chdir", "dir": d} | {"op": "setenv", "k": k, "v": v | None} | {"op": "umask", "v": int}
                                       | {"op": "locale", "v": name} | {"op": "syspath", "dir": d}]}]}
-> {"plain": repr | "exc:...", "import_error": None | "exc:...",
    "evals": [{"name", "cwd", "value": repr | None, "error": None | "exc:<type>:<text>", "ran": [tags of the function bodies executed],
               "synced": {path: sig} (union of the maps given to Store.sync_paths), "op_errors": [...]}]}"""
import collections
import importlib
import json
import locale
import os
import pathlib
import sys
import warnings


def apply_ops(ops):
    """-> (undo thunks, errors)"""
    undo, errs = [], []
    for op in ops or []:
        try:
            if op["op"] == "chdir":
                old = os.getcwd()
                os.chdir(op["dir"])
                undo.append(lambda old=old: os.chdir(old))
            elif op["op"] == "setenv":
                old = os.environ.get(op["k"])
                if op["v"] is None:
                    os.environ.pop(op["k"], None)
                else:
                    os.environ[op["k"]] = op["v"]
                undo.append(lambda k=op["k"], old=old: os.environ.pop(k, None) if old is None else os.environ.__setitem__(k, old))
            elif op["op"] == "umask":
                old = os.umask(op["v"])
                undo.append(lambda old=old: os.umask(old))
            elif op["op"] == "locale":
                old = locale.setlocale(locale.LC_ALL)
                locale.setlocale(locale.LC_ALL, op["v"])
                undo.append(lambda old=old: locale.setlocale(locale.LC_ALL, old))
            elif op["op"] == "syspath":
                sys.path.insert(0, op["dir"])
                undo.append(lambda d=op["dir"]: sys.path.remove(d))
            else:
                raise ValueError(op)
        except Exception as e:  # noqa
            errs.append(f"{op}: {type(e).__name__}: {e}")
    return undo, errs


def main():
    payload = json.load(sys.stdin)
    sys.path.insert(0, payload["root"])
    warnings.simplefilter("ignore")
    import logging
    logging.disable(logging.CRITICAL)
    import dds
    from dds.store import LocalFileStore
    logmod = importlib.import_module("c02envlog")
    entry = payload["entry"]
    out = {"plain": None, "import_error": None, "evals": []}

    def args_of(mod):
        scope = {"pathlib": pathlib, "collections": collections, "mod": mod}
        return [eval(a, scope) for a in entry.get("args", [])]  # noqa: S307 (expressions written by the harness)

    if payload.get("plain_pkg"):
        try:
            pm = importlib.import_module(payload["plain_pkg"] + ".main")
            out["plain"] = repr(getattr(pm, entry["fn"])(*args_of(pm)))
        except BaseException as e:  # noqa
            out["plain"] = "exc:" + type(e).__name__ + ":" + str(e)[:200]
        del logmod.LOG[:]

    class RS(LocalFileStore):
        synced = None

        def sync_paths(self, paths):
            self.synced.update({str(p): str(k) for p, k in paths.items()})
            return super().sync_paths(paths)

    store = RS(os.path.join(payload["store"], "internal"), os.path.join(payload["store"], "data"))
    dds.set_store(store)
    dds.accept_module(payload["pkg"])
    try:
        mod = importlib.import_module(payload["pkg"] + ".main")
    except BaseException as e:  # noqa
        out["import_error"] = "exc:" + type(e).__name__ + ":" + str(e)[:400]
        print("@@RESULT@@" + json.dumps(out))
        return
    fun = getattr(mod, entry["fn"])
    for step in payload["steps"]:
        res = {"name": step["name"], "value": None, "error": None}
        undo, res["op_errors"] = apply_ops(step.get("ops"))
        res["cwd"] = os.getcwd()
        store.synced = {}
        del logmod.LOG[:]
        try:
            args = args_of(mod)
            if entry["style"] == "eval":
                res["value"] = repr(dds.eval(fun, *args))
            else:
                res["value"] = repr(dds.keep(entry["path"], fun, *args))
        except (KeyboardInterrupt, SystemExit):
            raise
        except BaseException as e:  # noqa
            res["error"] = "exc:" + type(e).__name__ + ":" + str(e)[:300]
        for u in reversed(undo):
            u()
        res["ran"], res["synced"] = list(logmod.LOG), store.synced
        out["evals"].append(res)
    print("@@RESULT@@" + json.dumps(out))


if __name__ == "__main__":
    main()
