"""C12 - the in-memory object cache is invisible and bounded."""
import itertools
import json
import random

import common as C
import c12_fill
import c12_fail

COQ_FILES = ("Base/Bytes.v", "L4_Eval/Store.v", "L5_Stores/Lru.v", "L5_Stores/RunStore.v", "L5_Stores/LruProofs.v", "L5_Stores/LruMulti.v",
             "Extracted/ConstLru.v", "Properties/C12.v", "Properties/C12b.v", "Base/PyRt.v", "Extracted/GenLru.v", "Extracted/GenCacheOpt.v", "L5_Stores/GenLruProofs.v", "L5_Stores/GenCacheOptProofs.v", "Properties/C12g.v")
PROPERTY_FILES = ("C12", "C12b", "C12g", "C12m")
EXTRACTED = ("ConstLru", "GenLru", "GenCacheOpt", "GenMemStore")
ALLOWED_AXIOMS = ()

PRELUDE = """From Coq Require Import List String ZArith NArith.
From DDS Require Import Base.Bytes L4_Eval.Store L5_Stores.Lru L5_Stores.RunStore L5_Stores.LruMulti Extracted.ConstLru.
Import ListNotations.
"""

KEYS = ["k0", "k1", "k2", "k3"]
# content addressing: each key has one value (None-valued blob for k2)
VALUE = {"k0": "v0", "k1": "v1", "k2": None, "k3": "v3"}
PATHS = ["/p", "/q/r"]


def op_coq(op):
    t = op[0]
    h = C.hexs
    if t == "has":
        return f"OHas {h(op[1])}"
    if t == "fetch":
        return f"OFetch {h(op[1])}"
    if t == "put":
        return f"OPut {h(op[1])} " + ("BNone" if op[2] is None else f"(BVal {h(op[2])})")
    if t == "sync":
        return "OSync [" + "; ".join(f"({h(p)}, {h(k)})" for p, k in op[1]) + "]"
    if t == "fpaths":
        return "OFetchPaths [" + "; ".join(h(p) for p in op[1]) + "]"
    raise ValueError(t)


def ops_coq(ops):
    return "[" + "; ".join(op_coq(o) for o in ops) + "]"


def cap_coq(cap):
    return "None" if cap == "unbounded" else f"(Some {cap}%nat)"


def all_ops(keys):
    ops = []
    for k in keys:
        ops += [["has", k], ["fetch", k], ["put", k, VALUE[k]]]
    return ops


def gen_sequences(rng, tier):
    seqs = []
    # exhaustive short sequences over 2 keys (present-later / None-valued), blob ops only
    base = all_ops(["k0", "k2"])
    maxlen = 4 if tier == "quick" else 5
    for n in range(1, maxlen + 1):
        for tup in itertools.product(base, repeat=n):
            seqs.append(list(tup))
    if tier == "quick":
        rng.shuffle(seqs)
        seqs = seqs[:500]
    # random long sequences over all keys, with path operations
    nrand = 150 if tier == "quick" else 1500
    for _ in range(nrand):
        n = rng.randint(5, 40)
        s = []
        stored = set()
        for _ in range(n):
            r = rng.random()
            k = rng.choice(KEYS)
            if r < 0.3:
                s.append(["has", k])
            elif r < 0.65:
                s.append(["fetch", k])
            elif r < 0.85:
                s.append(["put", k, VALUE[k]])
                stored.add(k)
            elif r < 0.93 and stored:
                s.append(["sync", [[rng.choice(PATHS), rng.choice(sorted(stored))]]])
            else:
                s.append(["fpaths", [rng.choice(PATHS)]])
        seqs.append(s)
    return seqs


def shrink(ops, bad):
    """Delete operations while the sequence stays bad."""
    changed = True
    while changed:
        changed = False
        for i in range(len(ops)):
            cand = ops[:i] + ops[i + 1:]
            if cand and bad(cand):
                ops, changed = cand, True
                break
    return ops


def classify(ops):
    """Key of a transparency violation: which pattern of operations it needs (for known_findings matching)."""
    kinds = "".join({"has": "h", "fetch": "f", "put": "p", "sync": "s", "fpaths": "q"}[o[0]] for o in ops)
    return "opaque:" + kinds


def run(rep, tier, seed, proof_ok):
    rng = random.Random(seed)
    rep.rule = ("operation sequences (has/fetch/store blob, sync/fetch paths) over keys {absent, present, stored-later, None-valued}: "
                "exhaustive up to length 4 (quick, sampled 500) / 5 (thorough) over 2 keys + random length 5..40 over 4 keys; capacities "
                "{1,2,3,10,unbounded}; real LRUCacheStore over real MemoryStore and LocalFileStore in lock-step with the bare store and "
                "with the Coq model (memory); plus 2-3 cache wrappers sharing one inner store with interleaved operations (multi-client model); "
                "plus the fill dimension (c12_fill.py): key sets LARGER than the capacity (capacity+3 .. 2*capacity+6 distinct keys, None-valued and "
                "stored-late ones included) x capacities {1,2,3,4,5,7,8,9,10,cache_objects=True default,15,16,17,23,24,25,31,32,33} (thorough: + "
                "{6,11,12,13,39,40,41,47,48,49,63,64,65,100,127,128,129}) x 8 sequence shapes that fill the cache completely and keep fetching new keys "
                "(scan, fill-then-new, zigzag, hot-cold, late-store, bursts, restore, random) x {memory, local} x wrapper built directly / through "
                "dds.set_store(cache_objects=), plus 2-3 clients over one store; answers in lock-step with the bare store, cache entries and fetched objects "
                "still alive (weak references) compared with the configured bound after EVERY operation, and the Coq model (memory); "
                "plus the failure dimension (c12_fail.py): sequences in which operations FAIL in the wrapped store - store_blob of values that cannot be "
                "written (lambda, open file, object whose __reduce__ raises, value whose codec raises after half of the file, unregistered codec reference), "
                "store_blob of a blob that cannot be loaded back (the fetch fails), store_blob under an injected fault of the underlying store (before the write / "
                "between blob and metadata / after the write), fetch of a planted blob whose metadata names an unknown codec or that has no metadata, sync / fetch "
                "of refused paths - around every failing operation: 5 prefixes (nothing, has, fetch, has+fetch, another key) x repeated has / fetch, a retry "
                "of the store, another key, paths (systematic, 85 sequences x {memory, local}) + random length 8..40 (120 quick / 1500 thorough) x capacities "
                "{1,2,3,10,unbounded,cache_objects=True} x wrapper built directly / through dds.set_store; the failing call must fail the same way on the bare "
                "store and EVERY later answer must equal the bare store's, entries / live objects within the bound after every operation; plus whole "
                "evaluations (dds.eval twice or more / dds.load) of kept functions whose result cannot be stored, outcome of every step compared with "
                "cache_objects=None; "
                "distinct = distinct (store, capacity, sequence); non-trivial = contains a fetch or has "
                "after another operation on the same key (fill: a never-fetched key is fetched while the cache is full)")
    seqs = gen_sequences(rng, tier if proof_ok else "thorough")
    caps = [1, 2, 3, 10, "unbounded"]
    jobs = []
    for i, s in enumerate(seqs):
        cap = caps[i % len(caps)]
        jobs.append({"store": "memory", "cap": cap, "ops": s})
        jobs.append({"store": "memory", "cap": "bare", "ops": s})
        if i % 6 == 0:
            # the local store returns a fresh object per fetch: the number of fetched objects still alive is measured too
            jobs.append({"store": "local", "cap": cap, "ops": s, "track_alive": True})
            jobs.append({"store": "local", "cap": "bare", "ops": s, "track_alive": True})
    decode_args = ["none", "false", "true", 0, -1, -7, 1, 3, 25]
    out = C.run_driver("drive_store.py", {"seqs": jobs, "decode": decode_args})
    res = out["seqs"]
    # model
    exprs, idx = [], []
    for j, job in enumerate(jobs):
        if job["store"] == "memory":
            if job["cap"] == "bare":
                exprs.append(f"run_bare {ops_coq(job['ops'])}")
            else:
                exprs.append(f"(run_lru {cap_coq(job['cap'])} {ops_coq(job['ops'])} ++ \"#\" ++ run_lru_lens {cap_coq(job['cap'])} {ops_coq(job['ops'])})%string")
            idx.append(j)
    model = dict(zip(idx, C.coq_eval_strings(PRELUDE, exprs, label="c12")))
    lens_hist = {}
    j = 0
    while j < len(jobs):
        w, b = jobs[j], jobs[j + 1]
        rw, rb = res[j], res[j + 1]
        ops = w["ops"]
        key = json.dumps([w["store"], w["cap"], ops])
        nontrivial = any(o[0] in ("fetch", "has") and any(p[1] == o[1] for p in ops[:i] if p[0] in ("put", "fetch", "has"))
                         for i, o in enumerate(ops))
        rep.case(key, nontrivial)
        # transparency on the real code
        if rw["outs"] != rb["outs"]:
            def bad(cand, w=w):
                o = C.run_driver("drive_store.py", {"seqs": [{"store": w["store"], "cap": w["cap"], "ops": cand},
                                                             {"store": w["store"], "cap": "bare", "ops": cand}]})["seqs"]
                return o[0]["outs"] != o[1]["outs"]
            small = shrink(ops, bad) if len(rep.violations) < 3 else ops
            rep.violation(classify(small), f"cache-wrapped {w['store']} store (capacity {w['cap']}) answers differently from the bare store",
                          {"store": w["store"], "cap": w["cap"], "ops": small, "wrapped": rw["outs"], "bare": rb["outs"]})
        # bound on the real code
        if w["cap"] != "unbounded" and any(n > w["cap"] for n in rw["lens"]):
            rep.violation("unbounded-cache", f"cache holds more than {w['cap']} objects", {"store": w["store"], "cap": w["cap"], "ops": ops, "lens": rw["lens"]})
        if w["cap"] != "unbounded" and any(n > w["cap"] for n in rw.get("alive", [])):
            rep.violation("unbounded-cache:objects-alive", f"more than {w['cap']} fetched objects are kept alive by the cache-wrapped store (weak references)",
                          {"store": w["store"], "cap": w["cap"], "ops": ops, "alive": rw["alive"]})
        for n in rw["lens"]:
            lens_hist[n] = lens_hist.get(n, 0) + 1
        # model vs implementation (memory)
        if w["store"] == "memory":
            mw = model[j]
            iw = ";".join(rw["outs"]) + "#" + ";".join(map(str, rw["lens"]))
            if mw != iw:
                rep.violation("model-mismatch:lru", "LRU model and implementation disagree",
                              {"cap": w["cap"], "ops": ops, "impl": iw, "model": mw})
            mb = model[j + 1]
            if mb != ";".join(rb["outs"]):
                rep.violation("model-mismatch:memory", "MemoryStore and store specification disagree",
                              {"ops": ops, "impl": ";".join(rb["outs"]), "model": mb})
        j += 2
    # several cache wrappers (processes) sharing one inner store, operations interleaved
    mjobs = []
    for i in range(60 if tier == "quick" else 600):
        n = rng.randint(8, 30)
        nc = rng.choice([2, 2, 3])
        ops = []
        for _ in range(n):
            r = rng.random()
            k = rng.choice(KEYS)
            ci = rng.randrange(nc)
            if r < 0.3:
                ops.append([ci, ["has", k]])
            elif r < 0.7:
                ops.append([ci, ["fetch", k]])
            else:
                ops.append([ci, ["put", k, VALUE[k]]])
        cap = caps[i % len(caps)]
        mjobs.append({"store": "memory" if i % 3 else "local", "cap": cap, "clients": nc, "ops": ops})
        mjobs.append({"store": "memory" if i % 3 else "local", "cap": "bare", "ops": [o for _, o in ops]})
    mres = C.run_driver("drive_store.py", {"seqs": mjobs})["seqs"]
    mexprs = [f"render_outs (multi_run {cap_coq(j['cap'])} (minit {j['clients']}) [" + "; ".join(f"({ci}%nat, {op_coq(o)})" for ci, o in j["ops"]) + "])"
              for j in mjobs[::2]]
    mmodel = C.coq_eval_strings(PRELUDE, mexprs, label="c12m")
    for k2 in range(0, len(mjobs), 2):
        w, rw, rb = mjobs[k2], mres[k2], mres[k2 + 1]
        rep.case(json.dumps(["multi", w["store"], w["cap"], w["clients"], w["ops"]]))
        if rw["outs"] != rb["outs"]:
            rep.violation("opaque:multi-client", f"{w['clients']} cache-wrapped clients over one {w['store']} store (capacity {w['cap']}) get answers that differ "
                          "from the bare store's", {"multi": True, "store": w["store"], "cap": w["cap"], "clients": w["clients"], "ops": w["ops"],
                                                    "wrapped": rw["outs"], "bare": rb["outs"]})
        if w["cap"] != "unbounded" and any(x > w["cap"] for x in rw["lens"]):
            rep.violation("unbounded-cache", f"a cache holds more than {w['cap']} objects", {"multi": True, "cap": w["cap"], "ops": w["ops"], "lens": rw["lens"]})
        if w["store"] == "memory" and mmodel[k2 // 2] != ";".join(rw["outs"]):
            rep.violation("model-mismatch:lru-multi", "multi-client LRU model and implementation disagree",
                          {"multi": True, "cap": w["cap"], "ops": w["ops"], "impl": ";".join(rw["outs"]), "model": mmodel[k2 // 2]})
    # key sets larger than the capacity: the bound after every operation (c12_fill.py)
    fill = c12_fill.run(rep, tier, seed, proof_ok, rng, ops_coq, PRELUDE)
    # operations that fail in the wrapped store as part of the sequences (c12_fail.py)
    fail = c12_fail.run(rep, tier, seed, rng)
    # option decoding
    dexprs = []
    for a in decode_args:
        co = {"none": "CNone", "true": "(CBool true)", "false": "(CBool false)"}.get(a, f"(CInt ({a})%Z)")
        dexprs.append(f"render_decode (decode_cache_objects c_default_cache_size {co})")
    dm = C.coq_eval_strings(PRELUDE, dexprs, label="c12d")
    for a, i, m in zip(decode_args, out["decode"], dm):
        rep.case(json.dumps(["decode", a]))
        if i != m:
            rep.violation(f"decode:{a}", f"cache_objects={a}: implementation gives {i}, model {m}", {"cache_objects": a, "impl": i, "model": m})
    rep.extra["input_distribution"] = {"sequences": len(seqs), "jobs": len(jobs), "max_len": max(len(s) for s in seqs),
                                       "cache_len_histogram": lens_hist, "fill": fill, "fail": fail}
    rep.sample({"store": jobs[0]["store"], "cap": jobs[0]["cap"], "ops": jobs[0]["ops"]})
    rep.sample({"store": jobs[-2]["store"], "cap": jobs[-2]["cap"], "ops": jobs[-2]["ops"]})


def replay(path):
    r = json.load(open(path))["replay"]
    if r.get("fill"):
        return c12_fill.replay(r)
    if r.get("fail"):
        return c12_fail.replay(r)
    if r.get("multi"):
        o = C.run_driver("drive_store.py", {"seqs": [{"store": r.get("store", "memory"), "cap": r["cap"], "clients": r.get("clients", 2), "ops": r["ops"]},
                                                     {"store": r.get("store", "memory"), "cap": "bare", "ops": [x for _, x in r["ops"]]}]})["seqs"]
        print(json.dumps({"wrapped": o[0]["outs"], "bare": o[1]["outs"]}))
        print("REPRODUCED" if o[0]["outs"] != o[1]["outs"] else "not reproduced")
        return 1 if o[0]["outs"] != o[1]["outs"] else 0
    o = C.run_driver("drive_store.py", {"seqs": [{"store": r.get("store", "memory"), "cap": r["cap"], "ops": r["ops"]},
                                                 {"store": r.get("store", "memory"), "cap": "bare", "ops": r["ops"]}]})["seqs"]
    print(json.dumps({"ops": r["ops"], "wrapped": o[0]["outs"], "bare": o[1]["outs"]}, indent=1))
    bad = o[0]["outs"] != o[1]["outs"]
    print("REPRODUCED" if bad else "not reproduced")
    return 1 if bad else 0
