"""Fail-closed extractor: regenerates coq/theories/Extracted/Const*.v from /repo's current source
(translator route of DESIGN.md 3.3b).  An unrecognised AST shape is reported as a broken tie."""
import ast
import os

import common as C

OUT = os.path.join(C.THEORIES, "Extracted")
HEADER = ("(* REGENERATED on every run by harness/extract_constants.py from /repo's current source.\n"
          "   Do not edit by hand. *)\n"
          "From Coq Require Import String List ZArith.\nImport ListNotations.\nLocal Open Scope string_scope.\n\n")


class Unrecognised(Exception):
    pass


def cstr(s):
    if not isinstance(s, str):
        raise Unrecognised(f"expected str constant, got {s!r}")
    return '"' + s.replace('"', '""') + '"'


def clist(xs):
    return "[" + "; ".join(cstr(x) for x in xs) + "]"


def parse(rel):
    return ast.parse(open(os.path.join(C.REPO, rel)).read())


def find_def(tree, name, kinds=(ast.FunctionDef, ast.ClassDef)):
    for node in ast.walk(tree):
        if isinstance(node, kinds) and node.name == name:
            return node
    raise Unrecognised(f"definition {name} not found")


def str_consts(node):
    return [n.value for n in ast.walk(node) if isinstance(n, ast.Constant) and isinstance(n.value, str)]


def only(xs, what):
    xs = list(xs)
    if len(xs) != 1:
        raise Unrecognised(f"{what}: expected exactly one, found {xs!r}")
    return xs[0]


# ----------------------------------------------------------------------------- dds_hash


def _test_kind(test):
    """Classify the test of one `if` of _dds_hash0."""
    if isinstance(test, ast.Compare) and isinstance(test.ops[0], ast.Is) and isinstance(test.comparators[0], ast.Constant) \
            and test.comparators[0].value is None:
        return "None"
    if isinstance(test, ast.Call):
        fn = test.func
        if isinstance(fn, ast.Name) and fn.id == "isinstance" and len(test.args) == 2:
            t = test.args[1]
            if isinstance(t, ast.Name):
                return t.id
            if isinstance(t, ast.Tuple):
                names = [ast.unparse(e) for e in t.elts]
                if all(n.startswith("datetime.") for n in names):
                    return "datetime"
                return "(" + ",".join(names) + ")"
        if isinstance(fn, ast.Attribute) and fn.attr == "is_dataclass":
            return "dataclass"
    # dataclass INSTANCES (fix F45): `dataclasses.is_dataclass(elt) and not isinstance(elt, type)`
    if isinstance(test, ast.BoolOp) and isinstance(test.op, ast.And) and len(test.values) == 2 \
            and ast.unparse(test.values[1]) == "not isinstance(elt, type)" and _test_kind(test.values[0]) == "dataclass":
        return "dataclass"
    raise Unrecognised(f"unrecognised dispatch test: {ast.unparse(test)}")


def _pack_fmt(node):
    for n in ast.walk(node):
        if isinstance(n, ast.Call) and isinstance(n.func, ast.Attribute) and n.func.attr == "pack":
            return n.args[0].value
    raise Unrecognised("struct.pack call not found")


def extract_hash():
    tree = parse("dds/fun_args.py")
    dh = find_def(tree, "dds_hash")
    h0 = find_def(dh, "_dds_hash0")
    order, branches = [], {}
    for st in h0.body:
        if isinstance(st, ast.If):
            if st.orelse:
                raise Unrecognised("_dds_hash0: if with else branch")
            k = _test_kind(st.test)
            order.append(k)
            branches[k] = st
    for need in ("None", "str", "float", "int", "list"):
        if need not in branches:
            raise Unrecognised(f"_dds_hash0: no branch for {need}")
    none_marker = only(set(str_consts(branches["None"])) - {"utf-8"}, "None marker")
    float_fmt = _pack_fmt(branches["float"])
    int_fmts = sorted({n.args[0].value for n in ast.walk(branches["int"])
                       if isinstance(n, ast.Call) and isinstance(n.func, ast.Attribute) and n.func.attr == "pack"})
    int_fmt = int_fmts[0] if len(int_fmts) == 1 else "+".join(int_fmts)
    seps = [n.func.value.value for n in ast.walk(branches["list"])
            if isinstance(n, ast.Call) and isinstance(n.func, ast.Attribute) and n.func.attr == "join"
            and isinstance(n.func.value, ast.Constant)]
    list_sep = only(set(seps), "list separator")
    hdt = find_def(dh, "_hash_dict_tuple")
    ret = [n for n in ast.walk(hdt) if isinstance(n, ast.Return)][-1]
    dict_sep = only(set(str_consts(ret.value)), "dict separator")
    # how argument values / defaults / literals are hashed: every route must go through one helper that replaces
    # None (and only None) by the marker string, or (pinned code) use `p.default or MARK`
    markers, styles = set(), set()
    helper = None
    try:
        helper = find_def(tree, "_hash_arg")
    except Unrecognised:
        pass
    if helper is not None:
        ife = [n for n in ast.walk(helper) if isinstance(n, ast.IfExp)]
        e = only(ife, "_hash_arg conditional")
        if ast.unparse(e.test) != "x is not None" or not isinstance(e.orelse, ast.Constant):
            raise Unrecognised("_hash_arg: " + ast.unparse(e))
        markers.add(e.orelse.value)
        styles.add("is_none")
        # every dds_hash call of the two argument-context functions must be the helper
        for fname in ("get_arg_ctx", "get_arg_ctx_ast"):
            f = find_def(tree, fname)
            for n in ast.walk(f):
                if isinstance(n, ast.Call) and getattr(n.func, "id", None) == "dds_hash":
                    raise Unrecognised(f"{fname} calls dds_hash directly: {ast.unparse(n)}")
            calls = [ast.unparse(n.args[0]) for n in ast.walk(f) if isinstance(n, ast.Call) and getattr(n.func, "id", None) == "_hash_arg"]
            want = {"get_arg_ctx": ["args[idx]", "kwargs[n]", "p.default"], "get_arg_ctx_ast": ["node.value", "p.default"]}[fname]
            if sorted(calls) != sorted(want):
                raise Unrecognised(f"{fname}: _hash_arg applied to {calls}")
    else:
        for fname in ("get_arg_ctx", "get_arg_ctx_ast"):
            f = find_def(tree, fname)
            for n in ast.walk(f):
                if isinstance(n, ast.BoolOp) and isinstance(n.op, ast.Or) and isinstance(n.values[-1], ast.Constant):
                    markers.add(n.values[-1].value)
                    styles.add("or")
                if isinstance(n, ast.IfExp) and isinstance(n.orelse, ast.Constant):
                    markers.add(n.orelse.value)
    default_marker = only(markers, "default marker")
    default_style = "or" if "or" in styles else "is_none"
    # guard of check_len
    cl = find_def(dh, "check_len")
    guard = ast.unparse(cl.body[0].test) if isinstance(cl.body[0], ast.If) else "?"
    # representation of integers outside the "!l" range: bytes prefix + format(elt, "x")
    bconsts = [n.value for n in ast.walk(branches["int"]) if isinstance(n, ast.Constant) and isinstance(n.value, bytes)]
    bigint_prefix = only(bconsts, "big-int prefix").hex() if bconsts else ""
    fmts = [n.args[1].value for n in ast.walk(branches["int"]) if isinstance(n, ast.Call) and isinstance(n.func, ast.Name)
            and n.func.id == "format" and len(n.args) == 2 and isinstance(n.args[1], ast.Constant)]
    bigint_fmt = only(fmts, "big-int format") if bconsts else ""
    rng = [ast.unparse(n) for n in ast.walk(branches["int"]) if isinstance(n, ast.Compare)]
    int_range = only(rng, "int range test") if bconsts else ""
    astr = find_def(tree, "_algo_str")
    enc = [n for n in ast.walk(astr) if isinstance(n, ast.Call) and isinstance(n.func, ast.Attribute) and n.func.attr == "encode"]
    enc_args = [a.value for a in only(enc, "_algo_str encode").args]
    body = HEADER
    body += "(* dds/fun_args.py : dds_hash *)\n"
    body += f"Definition c_none_marker : string := {cstr(none_marker)}.\n"
    body += f"Definition c_list_sep : string := {cstr(list_sep)}.\n"
    body += f"Definition c_dict_sep : string := {cstr(dict_sep)}.\n"
    body += f"Definition c_int_fmt : string := {cstr(int_fmt)}.\n"
    body += f"Definition c_float_fmt : string := {cstr(float_fmt)}.\n"
    body += f"Definition c_dispatch_order : list string :=\n  {clist(order)}.\n"
    body += f"Definition c_default_marker : string := {cstr(default_marker)}.\n"
    body += f"Definition c_default_style : string := {cstr(default_style)}.\n"
    body += f"Definition c_check_len_guard : string := {cstr(guard)}.\n"
    body += f"Definition c_bigint_prefix_hex : string := {cstr(bigint_prefix)}.\n"
    body += f"Definition c_bigint_fmt : string := {cstr(bigint_fmt)}.\n"
    body += f"Definition c_int_range : string := {cstr(int_range)}.\n"
    body += f"Definition c_str_encode_args : list string := {clist(enc_args)}.\n"
    return body


EXTRACTORS = {
    "ConstHash": extract_hash,
}


def register(name):
    def deco(f):
        EXTRACTORS[name] = f
        return f
    return deco


def regenerate(outdir=None):
    """Returns (all_ok, [(name, ok, message)]).  Writes a file only when its content changed, so that
    make rebuilds dependents exactly when the source constants changed.
    outdir: where to write (default: coq/theories/Extracted; scratch runs of test_translate.py write elsewhere)."""
    try:
        import extract_more  # noqa: F401  (registers further extractors)
    except ImportError:
        pass
    import translate_py  # noqa: F401  (registers the translated functions Gen*.v)
    out = outdir or OUT
    os.makedirs(out, exist_ok=True)
    msgs, all_ok = [], True
    for name, fn in EXTRACTORS.items():
        path = os.path.join(out, name + ".v")
        try:
            content = fn()
            old = open(path).read() if os.path.exists(path) else None
            if old != content:
                open(path, "w").write(content)
            msgs.append((name, True, "ok"))
        except Exception as e:  # fail closed
            all_ok = False
            msgs.append((name, False, f"{type(e).__name__}: {e}"))
    return all_ok, msgs


if __name__ == "__main__":
    # usage: extract_constants.py [outdir]   (the module is re-imported under its own name: the extractors of
    # extract_more / translate_py register themselves into `extract_constants.EXTRACTORS`, not into `__main__`)
    import sys

    import extract_constants as _ec

    _ok, _msgs = _ec.regenerate(sys.argv[1] if len(sys.argv) > 1 else None)
    for _m in _msgs:
        print(_m)
    sys.exit(0 if _ok else 1)
