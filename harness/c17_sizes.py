"""C17 - the SIZE dimension: values of every builtin codec whose length sits at / around the sizes at which code that writes or reads a
payload in pieces changes behaviour (io.DEFAULT_BUFFER_SIZE = 2**13, 2**16 = a pickle frame, 2**17, 2**20, k * 2**20, 5 MB, 2**23), crossed with
the CONTENT CLASS (1 / 2 / 3 / 4-byte UTF-8 characters, mixtures, multi-byte characters placed so that they straddle the boundary at every
misalignment, character count vs byte count on either side of the boundary).

Shared by the harness (which computes what the property demands: length and SHA-256 of the UTF-8 text / of the bytes of the value that plain
execution gives) and by the driver harness/drive_codec_size.py (which builds the same value inside the implementation process).  Nothing here
looks at the library.

A sized value is described by a small JSON object (so that a replay file stays small):
  {"type": "str" | "bytes" | "bytearray" | "object" | "user" | "strsub" | "ints" | "frame", "segs": [[unit, n], ...]}
the content is the concatenation of the segments; a segment is its unit CYCLED to exactly n characters (n bytes for bytes / bytearray, whose
units are hexadecimal).  The fill units have a length coprime with every power of two, so that the content is position dependent: a piece
that is dropped, duplicated or written at the wrong offset changes the digest even when the length is right."""
import hashlib

ASCII = "abcdefg"                      # 7 characters
UNITS = {1: ASCII, 2: "\u00e9", 3: "\u4e2d", 4: "\U0001f600"}
EDGE_UNITS = {2: ["\u0080", "\u07ff"], 3: ["\u0800", "\uffff"], 4: ["\U00010000", "\U0010ffff"]}     # first / last code point of each width
MIXED = "a\u00e9\u4e2d\U0001f600z"     # 5 characters, 11 bytes
BYTES_UNIT = bytes(range(251)).hex()   # 251 bytes (prime)
SMALL = [2 ** 13, 2 ** 16, 2 ** 17]
MIB = 2 ** 20
QUICK_LARGE = [MIB, 2 * MIB]
THOROUGH_LARGE = [MIB, 2 * MIB, 3 * MIB, 5 * 10 ** 6, 2 ** 23]
PICKLED = ("object", "user", "strsub", "ints")


def cycled(unit, n):
    return (unit * (n // len(unit) + 1))[:n] if n > 0 else unit[:0]


def text_of(segs):
    return "".join(cycled(u, n) for u, n in segs)


def build(spec, env=None):
    """The value itself.  env: the module that defines the user classes (drive_codec) - only needed for 'user' / 'strsub'."""
    t = spec["type"]
    if t == "str":
        return text_of(spec["segs"])
    if t in ("bytes", "bytearray"):
        b = b"".join(cycled(bytes.fromhex(u), n) for u, n in spec["segs"])
        return b if t == "bytes" else bytearray(b)
    if t == "object":
        s = text_of(spec["segs"])
        return {"text": s, "blob": s.encode("utf-8"), "parts": [s[:1000], len(s), None, 2.5]}
    if t == "ints":
        return list(range(spec["segs"][0][1]))
    if t == "user":
        return env.UserThing(text_of(spec["segs"]))
    if t == "strsub":
        return env.TaggedStr(text_of(spec["segs"]), "sensor-7")
    if t == "frame":
        import numpy
        import pandas
        u, n = spec["segs"][0]
        return pandas.DataFrame({"x": numpy.arange(n), "s": [cycled(u, i % 13) + str(i) for i in range(n)]}).iloc[1:]
    raise ValueError(t)


def digest(value):
    """What is compared for text and bytes: (type, characters, bytes, SHA-256 of the UTF-8 text / of the bytes)."""
    if isinstance(value, str):
        b = value.encode("utf-8", "surrogatepass")
        return {"t": type(value).__name__, "n": len(value), "b": len(b), "h": hashlib.sha256(b).hexdigest()}
    if isinstance(value, (bytes, bytearray, memoryview)):
        b = bytes(value)
        return {"t": "bytes", "n": len(b), "b": len(b), "h": hashlib.sha256(b).hexdigest()}
    return {"t": type(value).__name__}


def raw_of(value):
    """The bytes that a verbatim file holds."""
    return value.encode("utf-8") if isinstance(value, str) else bytes(value)


def describe(spec):
    def unit(u):
        if spec["type"] in ("bytes", "bytearray"):
            return f"{len(u) // 2}-byte pattern"
        return ascii(u)
    segs = " + ".join(f"{unit(u)} cycled to {n}" for u, n in spec["segs"] if n > 0)
    if spec["type"] == "str":
        s = text_of(spec["segs"])
        return f"str of {len(s)} characters / {len(s.encode('utf-8'))} UTF-8 bytes ({segs})"
    if spec["type"] in ("bytes", "bytearray"):
        return f"{spec['type']} of {sum(n for _, n in spec['segs'])} bytes ({segs})"
    if spec["type"] == "frame":
        return f"frame of {spec['segs'][0][1] - 1} rows with a text column of {unit(spec['segs'][0][0])}"
    if spec["type"] == "ints":
        return f"list of {spec['segs'][0][1]} integers"
    return f"{spec['type']} holding a text of {sum(n for _, n in spec['segs'])} characters ({segs})"


# ------------------------------------------------------------------ families of texts around a boundary of P bytes


def pure(P, w, j, delta, unit=None):
    """exactly P + delta bytes: j ASCII bytes, then characters of width w (one of them straddles byte P iff (P - j) % w != 0), ASCII padding"""
    total = P + delta
    k = max(0, (total - j) // w)
    return {"type": "str", "segs": [s for s in ([ASCII, min(j, total)], [unit or UNITS[w], k], [ASCII, max(0, total - j - k * w)]) if s[1] > 0]}


def straddling(P, w):
    """a misalignment j for which a character of width w lies across byte P"""
    return next((j for j in range(w) if (P - j) % w != 0), 0)


def char_count(P, w, delta, where):
    """exactly P + delta CHARACTERS, all ASCII but one of width w (first / middle / last): the byte count is just above the character count"""
    n = P + delta - 1
    a = {"first": 0, "middle": n // 2, "last": n}[where]
    return {"type": "str", "segs": [s for s in ([ASCII, a], [UNITS[w], 1], [ASCII, n - a]) if s[1] > 0]}


def straddle_one(P, w, j, tail=5):
    """ASCII everywhere but one character of width w that starts j bytes before byte P (0 < j < w), then a short tail"""
    return {"type": "str", "segs": [[ASCII, P - j], [UNITS[w], 1], [ASCII, tail]]}


def straddle_each(P, count, w1=4, w2=3):
    """a multi-byte character across EVERY multiple of P up to count * P"""
    segs, at = [], 0
    for i in range(1, count + 1):
        w = w1 if i % 2 else w2
        j = 1 + (i % (w - 1))
        segs += [[ASCII, i * P - j - at], [UNITS[w], 1]]
        at = i * P - j + w
    return {"type": "str", "segs": segs + [[ASCII, 5]]}


def dense(P, w, num=5, den=4):
    """fewer than P characters, more than P bytes (num/den * P bytes of characters of width w)"""
    return {"type": "str", "segs": [[UNITS[w], (P * num) // (den * w) + 1]]}


def mixed(P, delta):
    """the 5-character / 11-byte mixture cycled to the first length whose encoding reaches P + delta bytes"""
    n = ((P + delta) // 11) * 5
    while len(cycled(MIXED, n).encode("utf-8")) < P + delta:
        n += 1
    return {"type": "str", "segs": [[MIXED, n]]}


def nbytes(P, delta, t="bytes"):
    return {"type": t, "segs": [[BYTES_UNIT, P + delta]]}


def small_catalogue():
    """every family at the small boundaries (cheap: at most 128 kB each)"""
    out = []
    for P in SMALL:
        for w in (1, 2, 3, 4):
            for delta in (-1, 0, 1):
                out.append(pure(P, w, straddling(P, w), delta))
            for j in range(1, w):
                out.append(straddle_one(P, w, j))
        out += [char_count(P, 2, 0, "last"), char_count(P, 4, 1, "first"), dense(P, 3), mixed(P, 1)]
        out += [nbytes(P, d) for d in (-1, 0, 1)]
    out += [{"type": "str", "segs": []}, {"type": "bytes", "segs": []}, nbytes(SMALL[1], 1, "bytearray")]
    return out


def quick_large():
    """a handful of 1 - 3 MB values: every family once at 2**20, the main ones at 2 * 2**20"""
    P = MIB
    texts = [pure(P, 1, 0, 0), pure(P, 1, 0, 1), pure(P, 2, 1, 1), pure(P, 3, 2, 1), pure(P, 4, 3, -1),
             char_count(P, 2, 0, "last"), char_count(P, 4, 1, "first"),
             straddle_one(P, 4, 2), straddle_one(P, 2, 1), straddle_one(P, 3, 2),
             mixed(P, 1), dense(P, 2), dense(P, 3),
             pure(2 * P, 1, 0, 1), pure(2 * P, 3, 0, 1), straddle_each(P, 2)]
    blobs = [nbytes(P, -1), nbytes(P, 0), nbytes(P, 1), nbytes(2 * P, 1), nbytes(P, 1, "bytearray")]
    others = [{"type": "object", "segs": dense(P, 2)["segs"]}, {"type": "ints", "segs": [["", 300000]]},
              {"type": "user", "segs": pure(P, 1, 0, 1)["segs"]}, {"type": "strsub", "segs": straddle_one(SMALL[1], 4, 2)["segs"]},
              {"type": "frame", "segs": [[MIXED, 2 ** 16 + 2]]}]
    return texts, blobs, others


def thorough_large():
    """the full product at every large boundary"""
    texts, blobs, others = [], [], []
    for P in THOROUGH_LARGE:
        for delta in (-1, 0, 1):
            texts.append(pure(P, 1, 0, delta))
            for w in (2, 3, 4):
                for j in range(w):
                    texts.append(pure(P, w, j, delta))
            blobs.append(nbytes(P, delta))
        for w in (2, 3, 4):
            for j in range(1, w):
                texts.append(straddle_one(P, w, j))
            for where in ("first", "middle", "last"):
                texts.append(char_count(P, w, 0, where))
            texts += [char_count(P, w, 1, "last"), char_count(P, w, -1, "last"), dense(P, w)]
            texts += [pure(P, w, straddling(P, w), 1, unit=u) for u in EDGE_UNITS[w]]
        texts += [mixed(P, d) for d in (-1, 0, 1)]
        blobs.append(nbytes(P, 1, "bytearray"))
    texts += [dense(MIB, 3, 3, 1), dense(MIB, 4, 4, 1), dense(2 * MIB, 2, 2, 1), straddle_each(MIB, 5), straddle_each(2 ** 16, 40, 2, 3)]
    for P in (MIB, 5 * 10 ** 6):
        others += [{"type": "object", "segs": dense(P, 3)["segs"]}, {"type": "user", "segs": mixed(P, 1)["segs"]}, {"type": "strsub", "segs": pure(P, 4, 1, 1)["segs"]}]
    others += [{"type": "ints", "segs": [["", 2 * 10 ** 6]]}, {"type": "frame", "segs": [[MIXED, 2 ** 18 + 2]]}, {"type": "frame", "segs": [[UNITS[4], 2 ** 20 + 2]]}]
    return texts, blobs, others


def random_sized(rng, boundaries):
    P = rng.choice(boundaries)
    w = rng.choice([1, 2, 2, 3, 3, 4, 4])
    fam = rng.choice(["pure", "pure", "char_count", "straddle_one", "dense", "mixed", "bytes"])
    if fam == "pure" or (w == 1 and fam != "bytes"):
        return pure(P, w, rng.randrange(w), rng.randint(-3, 3))
    if fam == "char_count":
        return char_count(P, w, rng.randint(-2, 2), rng.choice(["first", "middle", "last"]))
    if fam == "straddle_one":
        return straddle_one(P, w, rng.randrange(1, w), rng.randint(0, 9))
    if fam == "dense":
        return dense(P, w, rng.randint(5, 9), 4)
    if fam == "mixed":
        return mixed(P, rng.randint(-3, 3))
    return nbytes(P, rng.randint(-3, 3), rng.choice(["bytes", "bytes", "bytearray"]))
