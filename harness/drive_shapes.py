"""Implementation driver for C14, object shapes: a package tree on disk, an accept list, a list of root functions of one module.
stdin: {"root": dir, "accept": [...], "module": "vpipe.main", "roots": [function names], "store_dir": dir | None,
        "paths": [more sys.path entries: directories or zip files, searched after root] (optional),
        "data_targets": ["module:function", ...] (optional)}
Every root function g is evaluated with dds.keep("/out_<g>", g) (each keep is its own evaluation), then executed plainly.
-> {g: {"sig": signature committed for /out_<g>, "value": repr of what dds.keep returned, "plain": repr of g(),
        "error": None | "dds:<code>:<text>" | "exc:<type>:<text>"}}
With a store_dir the local file store of that directory is used (it persists between processes: a later process sees the
blobs of the earlier ones, so a stale value is observable); without it a fresh memory store.
Every data target (a function decorated with dds.data_function) is called directly after the roots:
-> "__data__": {target: {"value": repr | None, "error": None | "dds:<code>:<text>" | "exc:<type>:<text>"}}."""
import importlib
import json
import os
import sys
import warnings


def main():
    payload = json.load(sys.stdin)
    sys.path.insert(0, payload["root"])
    sys.path[1:1] = payload.get("paths") or []
    warnings.simplefilter("ignore")
    import dds
    from dds.store import LocalFileStore, MemoryStore
    from dds.structures import DDSException
    for a in payload["accept"]:
        dds.accept_module(a)
    synced = {}

    def recording(base):
        class RS(base):
            def sync_paths(self, paths):
                synced.update({str(p): str(k) for p, k in paths.items()})
                return super().sync_paths(paths)
        return RS
    if payload.get("store_dir"):
        sd = payload["store_dir"]
        dds.set_store(recording(LocalFileStore)(os.path.join(sd, "internal"), os.path.join(sd, "data")))
    else:
        dds.set_store(recording(MemoryStore)())
    out = {}
    try:
        mod = importlib.import_module(payload["module"])
    except BaseException as e:  # noqa
        print("@@RESULT@@" + json.dumps({"__import__": "exc:" + type(e).__name__ + ":" + str(e)[:400]}))
        return
    for g in payload["roots"]:
        res = {"sig": None, "value": None, "plain": None, "error": None}
        try:
            res["value"] = repr(dds.keep("/out_" + g, getattr(mod, g)))
            res["sig"] = synced.get("/out_" + g)
        except DDSException as e:
            res["error"] = "dds:" + (e.error_code.name if getattr(e, "error_code", None) is not None else "NONE") + ":" + str(e)[:300]
        except BaseException as e:  # noqa
            res["error"] = "exc:" + type(e).__name__ + ":" + str(e)[:300]
        try:
            res["plain"] = repr(getattr(mod, g)())
        except BaseException as e:  # noqa
            res["plain"] = "exc:" + type(e).__name__ + ":" + str(e)[:200]
        out[g] = res
    for t in payload.get("data_targets") or []:
        res = {"value": None, "error": None}
        try:
            mname, fname = t.split(":")
            res["value"] = repr(getattr(importlib.import_module(mname), fname)())
        except DDSException as e:
            res["error"] = "dds:" + (e.error_code.name if getattr(e, "error_code", None) is not None else "NONE") + ":" + str(e)[:400]
        except BaseException as e:  # noqa
            res["error"] = "exc:" + type(e).__name__ + ":" + str(e)[:300]
        out.setdefault("__data__", {})[t] = res
    print("@@RESULT@@" + json.dumps(out))


if __name__ == "__main__":
    main()
