"""Implementation driver for C04 histories in which the CONFIGURATION of the local store changes between evaluations
(one process = one process lifetime; the evaluation part is the one of drive_prog.py).
stdin: {"root": dir with the package, "pkg": name, "dirs": {"internal": {NAME: dir}, "data": {NAME: dir}},
        "store": {"kind": "local"|"local+lru", "internal": NAME, "data": NAME}, "actions": [...]}
Each action:
  {"a":"call", ...}            as in drive_prog.py (style eval | keep | direct)
  {"a":"load","path":p}        dds.load under the current configuration
  {"a":"rawfile","path":p}     the file found under the current data directory, read without dds
  {"a":"linkinfo","path":p}    where the entry of p under the current data directory points: literal target of the link
                               and fully resolved target, each classified by the internal directory that contains it
  {"a":"config","internal":NAME,"data":NAME,"how":"fresh"|"same"|"copy"|"move"|"relocate"}
                               the process calls dds.set_store again.  fresh: an internal directory that does not exist yet;
                               same: a directory that exists already, taken as it is; copy: the content of the current
                               internal directory is copied to the new one first (cache migrated, old one still there);
                               move: the current internal directory is renamed to the new one first; relocate: renamed, and
                               a symbolic link to the new location is left at the old one (which `retire` removes later)
  {"a":"retire","internal":NAME}   the internal directory is deleted (it is not the one of the current configuration)
Output per action: outcome, execution log, recorded store calls."""
import importlib
import json
import os
import shutil
import sys


def classify(target, dirs, resolved):
    """Name of the internal directory that contains this file name (by name: the target may not exist any more).
    resolved: the file name has no symbolic link left in it, it is looked for in the real directories only."""
    for name, d in sorted(dirs["internal"].items()):
        if resolved and os.path.islink(d):
            continue
        if target.startswith((os.path.realpath(d) if resolved else os.path.abspath(d)) + os.sep):
            return name
    return "?"


def main():
    payload = json.load(sys.stdin)
    sys.path.insert(0, payload["root"])
    sys.path.insert(0, os.path.dirname(os.path.abspath(__file__)))
    import drive_prog as DP
    from drive_c05 import build
    import dds
    from dds import _api
    logmod = importlib.import_module("vlogmod")
    dds.accept_module(payload["pkg"])
    dirs = payload["dirs"]
    cur = dict(payload["store"])
    rec = []

    def install():
        cfg = {"kind": cur["kind"], "internal_dir": dirs["internal"][cur["internal"]], "data_dir": dirs["data"][cur["data"]]}
        if "cap" in cur:
            cfg["cap"] = cur["cap"]
        dds.set_store(DP.make_store(cfg, rec))
    install()
    out = []
    for act in payload["actions"]:
        a = act["a"]
        del rec[:]
        del logmod.LOG[:]
        res = {}
        data_dir = dirs["data"][cur["data"]]
        try:
            if a == "call":
                mod = importlib.import_module(payload["pkg"] + "." + act["mod"])
                fn = getattr(mod, act["fn"])
                pos = [build(x) for x in act.get("pos", [])]
                kw = dict((n, build(x)) for n, x in act.get("kw", []))
                style = act.get("style", "eval")
                if style == "eval":
                    r = dds.eval(fn, *pos, **kw)
                elif style == "keep":
                    r = dds.keep(act["path"], fn, *pos, **kw)
                else:
                    r = fn(*pos, **kw)
                res["out"] = "ok:" + DP.canon(r)
            elif a == "load":
                res["out"] = "ok:" + DP.canon(dds.load(act["path"]))
            elif a == "rawfile":
                import pickle
                with open(os.path.join(data_dir, act["path"].lstrip("/")), "rb") as fh:
                    res["out"] = "ok:" + DP.canon(pickle.load(fh))
            elif a == "linkinfo":
                fp = os.path.join(data_dir, act["path"].lstrip("/"))
                if not os.path.islink(fp):
                    res["out"] = "nolink:" + ("file" if os.path.isfile(fp) else "dir" if os.path.isdir(fp) else "absent")
                else:
                    lit = os.path.normpath(os.path.join(os.path.dirname(fp), os.readlink(fp)))
                    res["out"] = "link:" + classify(lit, dirs, False) + ":" + classify(os.path.realpath(fp), dirs, True) + ":" + \
                                 ("live" if os.path.exists(fp) else "dangling")
                    res["key"] = os.path.basename(lit)
            elif a == "config":
                old = dirs["internal"][cur["internal"]]
                new = dirs["internal"][act["internal"]]
                how = act.get("how", "same")
                if how == "fresh" and os.path.exists(new):
                    raise RuntimeError("plan error: fresh internal directory exists already")
                if how == "copy":
                    shutil.copytree(old, new, symlinks=True)
                elif how in ("move", "relocate"):
                    os.rename(old, new)
                    if how == "relocate":
                        os.symlink(new, old)
                cur["internal"], cur["data"] = act["internal"], act["data"]
                install()
                res["out"] = "ok:N"
            elif a == "retire":
                if act["internal"] == cur["internal"]:
                    raise RuntimeError("plan error: the internal directory in use is never retired")
                if os.path.islink(dirs["internal"][act["internal"]]):
                    os.unlink(dirs["internal"][act["internal"]])
                else:
                    shutil.rmtree(dirs["internal"][act["internal"]])
                res["out"] = "ok:N"
            else:
                raise ValueError(a)
        except BaseException as e:  # noqa
            res["out"] = DP.exc_desc(e, logmod)
            import traceback
            res["tb"] = traceback.format_exc()[-600:]
        res["log"] = list(logmod.LOG)
        res["rec"] = [list(r) for r in rec]
        res["in_eval"] = _api._eval_ctx is not None
        out.append(res)
    print("@@RESULT@@" + json.dumps(out))


if __name__ == "__main__":
    main()
