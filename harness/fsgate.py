"""os-level interposition inside harness child processes (trusted harness part; DESIGN.md 3.3): traces, crashes at a given
file-system operation, or hands control to a scheduler before every operation.  Interposed: os.mkdir / makedirs (through
mkdir) / remove / unlink / symlink / replace / rename / readlink / stat-family used by os.path.exists|isdir|lexists|realpath,
builtins.open and the write / read / close of the files it returns.  pyarrow writes do not go through Python and are not
seen (payloads are str / bytes / pickle)."""
import builtins
import io
import os
import threading

_real = {}
STATE = {"mode": "off", "n": 0, "crash_at": None, "half": False, "log": [], "roots": (), "sched": None}
_tls = threading.local()


def _interesting(path):
    try:
        p = os.fspath(path)
    except TypeError:
        return False
    if isinstance(p, bytes):
        p = p.decode("utf-8", "replace")
    return any(p.startswith(r) for r in STATE["roots"])


def _rel(path):
    p = os.fspath(path)
    for tag, r in zip("IDXYZ", STATE["roots"]):
        if p.startswith(r):
            return tag + ":" + (p[len(r):] or "/")
    return p


def _before(op, *args, data_len=None):
    """Called before a file-system operation on an interesting path.  Returns 'half' when a write must be torn."""
    if STATE["mode"] == "off" or getattr(_tls, "inside", False):
        return None
    STATE["n"] += 1
    n = STATE["n"]
    entry = [n, op] + [(_rel(a) if isinstance(a, (str, bytes, os.PathLike)) else a) for a in args]
    if data_len is not None:
        entry.append(data_len)
    who = getattr(_tls, "who", None)
    if who is not None:
        entry.append(who)
    STATE["log"].append(entry)
    if STATE["mode"] == "crash" and STATE["crash_at"] == n:
        if STATE["half"] and op == "write":
            return "half"
        _flush_log()
        os._exit(77)
    if STATE["mode"] == "sched" and STATE["sched"] is not None:
        STATE["sched"](who, entry)
    return None


def _flush_log():
    lf = STATE.get("logfile")
    if lf:
        import json
        _tls.inside = True
        try:
            with _real["open"](lf, "w") as f:
                json.dump(STATE["log"], f)
        finally:
            _tls.inside = False


class _File(object):
    """Proxy of a file object opened on an interesting path."""

    def __init__(self, f, path, mode):
        self._f, self._path, self._mode = f, path, mode

    def write(self, data):
        if STATE["mode"] == "sched" and STATE.get("tear") and len(data) > 1:
            # a torn write: two system calls with a scheduling point in between
            _before("write", self._path, data_len=len(data) // 2)
            self._f.write(data[: len(data) // 2])
            self._f.flush()
            _before("write", self._path, data_len=len(data) - len(data) // 2)
            self._f.write(data[len(data) // 2:])
            self._f.flush()
            return len(data)
        r = _before("write", self._path, data_len=len(data))
        if r == "half":
            self._f.write(data[: len(data) // 2])
            self._f.flush()
            _flush_log()
            os._exit(77)
        return self._f.write(data)

    def read(self, *a):
        _before("read", self._path)
        return self._f.read(*a)

    def readline(self, *a):
        return self._f.readline(*a)

    def close(self):
        if not self._f.closed:
            _before("close", self._path)
        return self._f.close()

    def __enter__(self):
        return self

    def __exit__(self, *a):
        self.close()
        return False

    def __getattr__(self, name):
        return getattr(self._f, name)

    def __iter__(self):
        return iter(self._f)


def install(roots, mode="trace", crash_at=None, half=False, logfile=None, sched=None, after_open=False):
    # after_open: a file opened for writing is a point of its own right after the open returned (created / truncated, nothing written yet):
    # what follows may reach the file without passing through the interposed write (os.sendfile of shutil.copyfile, ...)
    STATE.update(mode=mode, n=0, crash_at=crash_at, half=half, log=[], roots=tuple(roots), logfile=logfile, sched=sched, after_open=after_open)
    if _real:
        return
    for name in ("mkdir", "remove", "unlink", "symlink", "replace", "rename", "readlink", "stat", "lstat", "rmdir"):
        _real[name] = getattr(os, name)
    _real["open"] = builtins.open

    def wrap1(name):
        def f(path, *a, **k):
            if _interesting(path):
                _before(name, path)
            return _real[name](path, *a, **k)
        return f

    def wrap2(name):
        def f(src, dst, *a, **k):
            if _interesting(dst) or _interesting(src):
                _before(name, src, dst)
            return _real[name](src, dst, *a, **k)
        return f
    for name in ("mkdir", "remove", "unlink", "readlink", "rmdir"):
        setattr(os, name, wrap1(name))
    for name in ("symlink", "replace", "rename"):
        setattr(os, name, wrap2(name))

    def stat(path, *a, **k):
        if _interesting(path):
            _before("stat", path)
        return _real["stat"](path, *a, **k)

    def lstat(path, *a, **k):
        if _interesting(path):
            _before("lstat", path)
        return _real["lstat"](path, *a, **k)
    os.stat, os.lstat = stat, lstat

    def gopen(file, mode="r", *a, **k):
        if isinstance(file, (str, bytes, os.PathLike)) and _interesting(file):
            _before("open", file, mode)
            fobj = _real["open"](file, mode, *a, **k)
            if STATE.get("after_open") and any(c in mode for c in "wax+"):
                _before("opened", file, mode)
            return _File(fobj, file, mode)
        return _real["open"](file, mode, *a, **k)
    builtins.open = gopen
    io.open = gopen


def set_thread(who):
    _tls.who = who


def log():
    return list(STATE["log"])
