"""C11 - ill-formed evaluations are rejected before anything runs, whatever the order."""
import itertools
import json
import random

import common as C

COQ_FILES = ("Base/Bytes.v", "L4_Eval/Overlap.v", "L4_Eval/RunSmall.v", "L4_Eval/OverlapProofs.v", "Properties/C11.v")
EXTRACTED = ()
ALLOWED_AXIOMS = ()

PRELUDE = """From Coq Require Import List String.
From DDS Require Import Base.Bytes L4_Eval.Overlap L4_Eval.RunSmall.
Import ListNotations.
"""

SEGS = ["f", "g", "h"]


def spath_coq(p):
    segs = p.split("/")[1:]
    return "[" + "; ".join(C.hexs(s) for s in segs) + "]"


def all_paths(maxlen):
    out = []
    for n in range(1, maxlen + 1):
        for t in itertools.product(SEGS, repeat=n):
            out.append("/" + "/".join(t))
    return out


def expected_overlap(paths):
    """Specification: some path is a strict segment-prefix of another (paths are normal here)."""
    ss = [tuple(s for s in p.split("/")[1:] if s != "") for p in paths]
    return any(a != b and len(a) < len(b) and b[:len(a)] == a for a in ss for b in ss)


def run(rep, tier, seed, proof_ok):
    rng = random.Random(seed)
    rep.rule = ("overlap: every ordered selection of 1..4 distinct paths over segments {f,g,h} with 1..3 segments (39 paths; "
                "quick: all 1-2-path lists, sampled 3-4-path lists; thorough: all ordered 3-lists, sampled 4-lists) plus '/' and "
                "odd spellings, plus lists over segment names containing characters that sort before '/' (. - space +), given to the real non_terminal_leaves and to the Coq model, and compared with the prefix "
                "specification; non-trivial = at least two paths sharing a first segment; "
                "programs: random call graphs (cycle / nested eval / both / none; plain calls, keeps, references, methods, two modules) "
                "evaluated by the real library and by the Coq model, the same graphs with the call of every edge in a random syntactic "
                "position, overlapping keeps in every order and nesting placement; position sweep: the offending call (closing a cycle "
                "through a call / keep / reference / method / other module / itself, nested dds.eval, keep under or above an earlier "
                "keep), at depth 0 or 1, in each of %d syntactic positions where Python executes it during the evaluation (argument, "
                "keyword, starred argument of a tracked / untracked / builtin call, argument of a call whose result is called or whose "
                "attribute is called, operand, comprehension, f-string, every statement kind), expected: the error code of the "
                "offence, nothing executed, no store write; the well-formed twin of every placement must give the result and the "
                "execution log of plain Python; dynamic sweep: the offending call visible to the run-time checks only (nested dds.eval / "
                "dds.keep under the path being kept, reached through a non-accepted helper module, a helper two calls deep, an alias, "
                "getattr, a function object held as data or passed as an argument, a method of a foreign object: %d carriers) executed "
                "under %d exception handlers free of BaseException (except Exception with a default / logging / tuple / specific class "
                "first, contextlib.suppress, try-finally, re-raise, wrapping, else, retry loop, best-effort callback runner two calls "
                "deep, swallowing context manager / decorator / generator, nested try; in the helper module, in the accepted function "
                "making the call, in its accepted caller; none) in %d shapes (under one / two keeps, in the root, after / before a "
                "sibling keep, in another module) entered by dds.eval and dds.keep, expected: the error code of the offence, execution "
                "log, stored blobs and committed paths of plain execution stopping at the offence (or nothing at all), nothing "
                "committed, dds.load and the data directory unchanged; twins (plain call, user exception for the handler) must give "
                "result, log, blobs and paths of plain execution (quick: handlers x carriers and handlers x shapes; thorough: full product); "
                "repeated sub-structure sweep: the offending calls in structurally identical or shared sub-trees - two keeps of the SAME "
                "callee with the SAME arguments (%d callees: argument-free, default, same constant, same keyword, different constants) "
                "under overlapping paths (shallow first / deep first, one or two segments apart) placed in %d shapes (one function, twin "
                "functions differing only in the path literal side by side / nested / reached by name / in two modules, sibling methods "
                "of one accepted class on one instance / two instances / around a harmless third keep of the same callee, twin classes, "
                "a helper reached twice through twin callers before / after the other keep, twin data functions whose decorators differ only in "
                "the path literal, a data function kept again under another path), at depth 0 or 1, entered by dds.eval and "
                "dds.keep, plus %d cycle / nested-eval kinds closed through the same places (helper reached twice, second twin method, "
                "after a second keep of the same callee, other module), expected: the error code of the offence, nothing executed, no "
                "store write; the well-formed twins (sibling paths, string-prefix paths) must give the result of plain execution, run "
                "nothing that plain execution does not run and leave every kept path loadable with the value of plain execution "
                "(quick: shapes x callees with 2 of 4 ill-formed and 1 of 2 well-formed path pairs; thorough: full product x depth x entry)"
                ) % (len(__import__("c11_positions").POSITIONS), len(__import__("c11_dynamic").CARRIERS), len(__import__("c11_dynamic").HANDLERS),
                     len(__import__("c11_dynamic").SHAPES), len(__import__("c11_shared").CALLEES), len(__import__("c11_shared").SHAPES),
                     len(__import__("c11_shared").GRAPH_KINDS))
    P = all_paths(3)
    cases = [[p] for p in P] + [list(t) for t in itertools.permutations(P, 2)]
    trip = list(itertools.permutations(P, 3))
    rng.shuffle(trip)
    cases += [list(t) for t in trip[: (3000 if tier == "quick" and proof_ok else 60000)]]
    for _ in range(2000 if tier == "quick" and proof_ok else 20000):
        cases.append(rng.sample(P, 4))
    # root path and odd spellings (outside the normal-path theorem; model must still agree)
    odd = ["/", "/f/", "//f", "/f//g"]
    for _ in range(300):
        k = rng.randint(1, 3)
        cases.append(rng.sample(P, k) + rng.sample(odd, rng.randint(1, 2)))
        rng.shuffle(cases[-1])
    # segment names with characters that sort before '/' (space ! + , - .) or after it, sharing prefixes as strings
    segs2 = ["model", "model.v2", "model-old", "model v", "model+", "model0", "modelA", "mode", "m", "~"]
    p2 = ["/" + "/".join(t) for n in (1, 2, 3) for t in itertools.product(segs2, repeat=n) if n < 3 or rng.random() < 0.05]
    for _ in range(2500 if tier == "quick" and proof_ok else 25000):
        k = rng.randint(2, 5)
        base = rng.choice(p2)
        c = [base] + [rng.choice([base + "/" + rng.choice(segs2), base + rng.choice([".x", "-x", " x", "0", "+"]), rng.choice(p2)]) for _ in range(k - 1)]
        rng.shuffle(c)
        cases.append(list(dict.fromkeys(c)))
    impl = C.run_driver("drive_small.py", {"kind": "overlap", "cases": cases})
    model = C.coq_eval_strings(PRELUDE, ["run_overlap [" + "; ".join(spath_coq(p) for p in c) + "]" for c in cases], label="c11")
    n_odd = 0
    for c, i, m in zip(cases, impl, model):
        rep.case(json.dumps(c), nontrivial=len({p.split("/")[1] for p in c}) < len(c))
        ms = sorted(x for x in m.split(";") if x)
        if isinstance(i, str) or i != ms:
            rep.violation("model-mismatch:overlap", f"non_terminal_leaves: implementation {i} vs model {ms}", {"paths": c, "impl": i, "model": ms})
        is_odd = any(p in odd for p in c)
        n_odd += is_odd
        if not isinstance(i, str) and not any(p in odd[1:] for p in c):
            exp = expected_overlap(c)
            if exp != bool(i):
                kind = "missed" if exp else "spurious"
                adj = "root" if "/" in c else "non-adjacent"
                rep.violation(f"overlap-{kind}:{adj}", f"paths {c}: overlap expected={exp} but non_terminal_leaves returned {i}",
                              {"paths": c, "impl": i, "expected_overlap": exp,
                               "cmd": "FunctionInteractionsUtils.non_terminal_leaves(paths, None)"})
    rep.extra["input_distribution"] = {"path_lists": len(cases), "with_odd_spelling_or_root": n_odd,
                                       "by_length": {k: sum(1 for c in cases if len(c) == k) for k in range(1, 7)}}
    rep.sample(cases[50]); rep.sample(cases[-1]); rep.sample(cases[len(cases) // 2])
    try:
        import c11_programs
        c11_programs.run(rep, tier, seed, proof_ok, rng)
    except ImportError:
        rep.extra["program_part"] = "cycle / nested-eval / full-evaluation part not built yet"
    pp, ps, ds = rep.extra.get("program_part"), rep.extra.get("position_sweep", {}), rep.extra.get("dynamic_sweep", {})
    ss = rep.extra.get("shared_sweep", {})
    if isinstance(pp, dict):
        rep.extra["input_distribution"].update({"call_graphs": pp["call_graphs"], "call_graphs_with_positions": pp["call_graphs_with_positions"],
                                                "syntactic_positions": ps.get("positions"), "position_sweep_scenarios": ps.get("scenarios"),
                                                "position_sweep_ill_formed_kinds": ps.get("ill_formed_kinds"),
                                                "position_sweep_well_formed_kinds": ps.get("well_formed_kinds"),
                                                "dynamic_sweep_scenarios": ds.get("scenarios"), "dynamic_sweep_handlers": ds.get("handlers"),
                                                "dynamic_sweep_carriers": ds.get("carriers"), "dynamic_sweep_shapes": ds.get("shapes"),
                                                "dynamic_sweep_by_kind_of_hidden_call": ds.get("by_kind"),
                                                "shared_sweep_scenarios": ss.get("scenarios"), "shared_sweep_shapes": ss.get("shapes"),
                                                "shared_sweep_callees": ss.get("callees"), "shared_sweep_path_pairs": ss.get("path_pairs"),
                                                "shared_sweep_cycle_and_eval_kinds": ss.get("cycle_and_eval_kinds"),
                                                "shared_sweep_by_shape": ss.get("by_shape")})


def replay(path):
    r = json.load(open(path))["replay"]
    if "paths" in r:
        i = C.run_driver("drive_small.py", {"kind": "overlap", "cases": [r["paths"]]})[0]
        exp = expected_overlap(r["paths"])
        print(json.dumps({"paths": r["paths"], "impl": i, "expected_overlap": exp}))
        bad = exp != bool(i)
        print("REPRODUCED" if bad else "not reproduced")
        return 1 if bad else 0
    import c11_programs
    return c11_programs.replay(r)
