"""C16, the NESTED-KEEPS dimension: pipelines whose kept functions keep intermediate results themselves (depth 2-3, fan-out,
a shared leaf), evaluated on local-store configurations / data views.

What the property demands (and what is checked here, against a model that is computed from the generated program only):
  * an evaluation of code version v in a view makes EVERY path kept by that evaluation - the nested ones too - load the
    value that plain execution of version v gives, in the same process and in a fresh process (whatever the spelling of
    the directories and the working directory are), whether the bodies ran or were served from the shared blobs;
  * a body runs iff it is reached and the shared internal directory has no blob of it for that version (no recomputation
    through another data view / another process / another path of the same function);
  * the other view is unaffected: its paths keep the values of ITS last evaluation, the paths it never kept fail to load;
  * under the physical data directory of a view every kept path is a link to an existing blob of the internal directory.

A pipeline is a tree / DAG of functions; node n reads its own module variable S_n (its code version: a tracked variable),
keeps every child c under the fixed path NPATH[c] and returns "n:S_n(child values)".  The value string of a node names
the node and the versions of all its descendants: it identifies the blob of the node in the model."""
import json
import os
import shutil
import tempfile

import common as C

PIPES = {
    "chain2": {"top": ["mid"], "mid": []},
    "chain3": {"top": ["mid"], "mid": ["leaf"], "leaf": []},
    "fan3": {"top": ["a", "b"], "a": [], "b": ["leaf"], "leaf": []},
    "diamond3": {"top": ["a", "b"], "a": ["leaf"], "b": ["leaf"], "leaf": []},
}
NPATH = {"mid": "/n/mid", "leaf": "/n/deep/er/leaf", "a": "/n/a", "b": "/m/b"}
TOP1, TOP2 = "/o/top", "/o2/top"
HOLDER = "COUNTS = {}\ndef bump(n):\n    COUNTS[n] = COUNTS.get(n, 0) + 1\n"

# spellings of a directory whose physical location is base/<rel>, for a process whose working directory is cwd
SPELLINGS = {
    "absolute": lambda base, rel, cwd: os.path.join(base, rel),
    "trailing-slash": lambda base, rel, cwd: os.path.join(base, rel) + "/",
    "relative": lambda base, rel, cwd: os.path.relpath(os.path.join(base, rel), cwd),
    "relative-dot": lambda base, rel, cwd: "./" + os.path.relpath(os.path.join(base, rel), cwd),
    "relative-trailing-slash": lambda base, rel, cwd: os.path.relpath(os.path.join(base, rel), cwd) + "/",
    "dotdot": lambda base, rel, cwd: os.path.join(base, rel, "..", os.path.basename(rel)),
    # base/lnk_<first segment> is a symbolic link to base/<first segment>
    "symlinked-parent": lambda base, rel, cwd: os.path.join(base, "lnk_" + rel.split("/")[0], *rel.split("/")[1:]),
}
INTERNAL = "store/int"
VIEWS = {"A": "views/a", "B": "views/b/nested/not/there"}
KINDS = ("two-views", "two-views-partial", "revert", "new-path", "interleaved", "sub-pipeline")
ENTRIES = ("keep", "eval")


def module_src(pipe):
    src = ["import dds", "import holder_c16n", ""] + [f'S_{n} = "0"' for n in pipe] + [""]
    for n, ch in pipe.items():
        src += [f"def {n}():", f'    holder_c16n.bump("{n}")']
        src += [f'    r{i} = dds.keep("{NPATH[c]}", {c})' for i, c in enumerate(ch)]
        src += [f'    return "{n}:" + S_{n} + "(" + ' + ' + "," + '.join(f"r{i}" for i in range(len(ch))) + (' + ' if ch else '') + '")"', ""]
    src += ["def run_eval():", '    holder_c16n.bump("run_eval")', f'    r = dds.keep("{TOP1}", top)', '    return "ev(" + r + ")"', ""]
    return "\n".join(src)


def val(pipe, n, salts):
    return f"{n}:{salts[n]}(" + ",".join(val(pipe, c, salts) for c in pipe[n]) + ")"


def below(pipe, n):
    out = []
    for c in pipe[n]:
        out += [c] + [d for d in below(pipe, c) if d != c]
    return list(dict.fromkeys(out))


def deepest(pipe):
    return [n for n in pipe if not pipe[n]][-1]


def all_paths(pipe):
    return [TOP1, TOP2] + [NPATH[n] for n in pipe if n != "top"]


class Model:
    """blobs of the shared internal directory (identified by the value string) + the path -> value map of each view"""

    def __init__(self, pipe):
        self.pipe, self.blobs, self.views, self.salts = pipe, set(), {v: {} for v in VIEWS}, {n: "0" for n in pipe}

    def _ev(self, n, ran):
        k = val(self.pipe, n, self.salts)
        if k in self.blobs:
            return
        ran[n] = ran.get(n, 0) + 1
        for c in self.pipe[n]:
            self._ev(c, ran)
        self.blobs.add(k)

    def _commit(self, view, n, path):
        self.views[view][path] = val(self.pipe, n, self.salts)
        for d in below(self.pipe, n):
            self.views[view][NPATH[d]] = val(self.pipe, d, self.salts)

    def run(self, view, r):
        ran = {}
        if r["kind"] == "keep":
            self._ev(r["node"], ran)
            self._commit(view, r["node"], r["path"])
            v = val(self.pipe, r["node"], self.salts)
        elif r["kind"] == "eval":      # run_eval is not kept: its body always runs
            ran["run_eval"] = 1
            self._ev("top", ran)
            self._commit(view, "top", TOP1)
            v = "ev(" + val(self.pipe, "top", self.salts) + ")"
        else:                          # plain call of the node: its body runs, every keep in it is an evaluation of its own
            ran[r["node"]] = 1
            for c in self.pipe[r["node"]]:
                self._ev(c, ran)
                self._commit(view, c, NPATH[c])
            v = val(self.pipe, r["node"], self.salts)
        return {"v": "V:" + v, "ran": ran}

    def loads(self, view):
        return {p: ("L:" + self.views[view][p] if p in self.views[view] else "E:") for p in all_paths(self.pipe)}


def entry_run(entry):
    return {"kind": "keep", "path": TOP1, "node": "top"} if entry == "keep" else {"kind": "eval", "fun": "run_eval"}


def script(case):
    """the abstract history of a case: {"proc": cwd} starts a process; {"view": v, "spell": s} configures the store; {"salts": ..};
    {"run": ..} (followed by the load of every path in the current view); {"check": [views]} loads every path of the views"""
    pipe, sp, ent = PIPES[case["pipe"]], case["spelling"], entry_run(case["entry"])
    dp, mid = deepest(pipe), pipe["top"][-1]
    k = case["kind"]
    if k == "two-views":          # B evaluates what A evaluated: everything is served from the shared blobs
        h = [{"proc": "wd_a"}, {"view": "A", "spell": "absolute"}, {"run": ent},
             {"proc": "wd_b/sub"}, {"view": "B", "spell": sp}, {"run": ent}, {"check": ["A"]}]
    elif k == "two-views-partial":  # B evaluates another version of top only: top runs, its children are served from the blobs
        h = [{"proc": "wd_a"}, {"view": "A", "spell": "absolute"}, {"run": ent},
             {"proc": "wd_b/sub"}, {"view": "B", "spell": sp}, {"salts": {"top": "1"}}, {"run": ent}, {"check": ["A"]},
             {"view": "A", "spell": sp}, {"salts": {"top": "0", dp: "1"}}, {"run": ent}, {"check": ["B"]}]
    elif k == "revert":           # one view: version 0, version 1, version 0 again from another process / spelling
        h = [{"proc": "wd_a"}, {"view": "A", "spell": "absolute"}, {"run": ent}, {"salts": {dp: "1"}}, {"run": ent},
             {"proc": "wd_b/sub"}, {"view": "A", "spell": sp}, {"salts": {dp: "0"}}, {"run": ent}, {"salts": {dp: "1"}}, {"run": ent}, {"check": ["B"]}]
    elif k == "new-path":         # the same kept function under a new path, in the view and in the other view
        h = [{"proc": "wd_a"}, {"view": "A", "spell": "absolute"}, {"run": ent}, {"salts": {dp: "1"}}, {"run": ent},
             {"proc": "wd_b/sub"}, {"view": "A", "spell": sp}, {"salts": {dp: "0"}}, {"run": {"kind": "keep", "path": TOP2, "node": "top"}},
             {"view": "B", "spell": sp}, {"salts": {dp: "1"}}, {"run": {"kind": "keep", "path": TOP2, "node": "top"}}, {"check": ["A"]}]
    elif k == "interleaved":      # one process, the two views used alternately with two versions
        h = [{"proc": "wd_a"}, {"view": "A", "spell": sp}, {"run": ent}, {"view": "B", "spell": "absolute"}, {"salts": {dp: "1"}}, {"run": ent},
             {"check": ["A"]}, {"view": "B", "spell": sp}, {"salts": {dp: "0"}}, {"run": ent}, {"view": "A", "spell": "absolute"},
             {"salts": {dp: "1"}}, {"run": ent}, {"check": ["B"]}]
    else:                         # sub-pipeline: B keeps an inner function directly, then calls top() outside of an evaluation
        h = [{"proc": "wd_a"}, {"view": "A", "spell": "absolute"}, {"run": ent},
             {"proc": "wd_b/sub"}, {"view": "B", "spell": sp}, {"run": {"kind": "keep", "path": NPATH[mid], "node": mid}},
             {"salts": {dp: "1"}}, {"run": ent}, {"view": "B", "spell": sp}, {"salts": {dp: "0"}}, {"run": {"kind": "plain", "node": "top"}},
             {"check": ["A"]}]
    # last, a fresh process somewhere else, absolute directories: what each view serves
    return h + [{"proc": "elsewhere"}, {"check": ["A", "B"]}]


def compile_script(case, base):
    """-> [(cwd, driver steps, expected results, labels)] per process; the expectations come from the model"""
    pipe = PIPES[case["pipe"]]
    m, procs, view, cwd = Model(pipe), [], None, None

    def cfg(v, spell):
        f = SPELLINGS[spell]
        return {"internal_dir": f(base, INTERNAL, os.path.join(base, cwd)), "data_dir": f(base, VIEWS[v], os.path.join(base, cwd)), "cache_objects": case["cache"]}

    def emit(step, want, label):
        procs[-1][1].append(step); procs[-1][2].append(want); procs[-1][3].append(label)
    for op in script(case):
        if "proc" in op:
            cwd, view = op["proc"], None
            procs.append((cwd, [{"chdir": cwd}], ["U"], ["chdir " + cwd]))
            if any(s != "0" for s in m.salts.values()):   # the code version is a state of the program text: same in a new process
                emit({"salts": dict(m.salts)}, "U", "versions " + json.dumps(m.salts))
        elif "view" in op:
            view = op["view"]
            emit({"set_store": cfg(view, op["spell"])}, "U:", f"set_store view {view} ({op['spell']})")
        elif "salts" in op:
            m.salts.update(op["salts"])
            emit({"salts": op["salts"]}, "U", "versions " + json.dumps(m.salts))
        elif "run" in op:
            r = op["run"]
            what = {"keep": lambda: f"keep({r['path']}, {r['node']})", "eval": lambda: "eval(run_eval)", "plain": lambda: f"{r['node']}() outside of an evaluation"}[r["kind"]]()
            emit({"run": r}, m.run(view, r), f"view {view}: {what} with versions {json.dumps(m.salts)}")
            emit({"load": all_paths(pipe)}, m.loads(view), f"view {view}: loads after {what}")
        elif "check" in op:
            for v in op["check"]:
                emit({"set_store": cfg(v, "absolute")}, "U:", f"set_store view {v} (absolute)")
                emit({"load": all_paths(pipe)}, m.loads(v), f"view {v}: loads")
            view = None   # (the next run must choose its view)
    return procs, m


def differs(got, want):
    if isinstance(want, str):
        return not (isinstance(got, str) and got.startswith(want))
    if not isinstance(got, dict):
        return True
    if "ran" in want:
        return got.get("v") != want["v"] or got.get("ran") != want["ran"]
    return any(not str(got.get(p, "")).startswith(w) if w == "E:" else got.get(p) != w for p, w in want.items())


def links(base, m):
    """the physical content of each data directory: every path of the view is a link to an existing blob of the internal directory"""
    bad, blobs = [], os.path.realpath(os.path.join(base, INTERNAL, "blobs"))
    for v, paths in m.views.items():
        for p in all_paths(m.pipe):
            loc = os.path.join(base, VIEWS[v], *[s for s in p.split("/") if s])
            if p in paths and not (os.path.islink(loc) and os.path.isfile(loc) and os.path.dirname(os.path.realpath(loc)) == blobs):
                bad.append(f"view {v}: {p} is kept but {os.path.relpath(loc, base)} is not a link to a blob of {INTERNAL}")
            if p not in paths and os.path.lexists(loc):
                bad.append(f"view {v}: {p} was never kept in this view but {os.path.relpath(loc, base)} exists")
    return bad


def run_scenario(case):
    base, extern = tempfile.mkdtemp(prefix="c16n_", dir=C.scratch_dir()), []
    try:
        open(os.path.join(base, "pipemod_c16.py"), "w").write(module_src(PIPES[case["pipe"]]))
        open(os.path.join(base, "holder_c16n.py"), "w").write(HOLDER)
        if case.get("other_fs"):   # the FILE-SYSTEMS dimension (harness/c16_fs.py): these parts of the tree are links to another file system
            import c16_fs
            extern += c16_fs.nested_other_fs(base, case["other_fs"])
        for d in ("wd_a", "wd_b/sub", "elsewhere", "store", "views"):
            os.makedirs(os.path.join(base, d), exist_ok=True)
        for d in ("store", "views"):
            os.symlink(os.path.join(base, d), os.path.join(base, "lnk_" + d))
        procs, m = compile_script(case, base)
        fails, trace = [], []
        for k, (cwd, steps, want, labels) in enumerate(procs):
            got = C.run_driver("drive_config_nested.py", {"base": base, "steps": steps})
            trace.append({"process": k + 1, "cwd": cwd, "steps": steps, "observed": got, "expected": want})
            for i, (g, w) in enumerate(zip(got, want)):
                if differs(g, w):
                    d = ({p: [g.get(p), w[p]] for p in w if differs({p: g.get(p)}, {p: w[p]})} if isinstance(g, dict) and "ran" not in w and isinstance(w, dict)
                         else [g, w])
                    fails.append({"process": k + 1, "step": i, "label": labels[i], "observed_vs_expected": d})
        for b in links(base, m):
            fails.append({"process": "file system", "step": 0, "label": b, "observed_vs_expected": []})
        return {"case": case, "fails": fails, "trace": trace, "module": module_src(PIPES[case["pipe"]])}
    except Exception as e:  # noqa
        return {"case": case, "error": str(e)[-500:]}
    finally:
        for d in [base] + extern:
            shutil.rmtree(d, ignore_errors=True)


def cases_for(tier, rng, caches, quick):
    pipes, spells, out = list(PIPES), list(SPELLINGS), []
    if quick:
        # every kind 3 times; pipes, spellings, cache options and entries rotate so that each value occurs (offsets drawn from the seed)
        o = [rng.randrange(100) for _ in range(4)]
        for j, k in enumerate(k for k in KINDS for _ in range(3)):
            out.append({"kind": k, "pipe": pipes[(j + o[0]) % len(pipes)], "spelling": spells[1:][(j + o[1]) % (len(spells) - 1)],
                        "cache": caches[(j + o[2]) % len(caches)], "entry": ENTRIES[(j // 3 + j + o[3]) % 2]})
    else:
        for k in KINDS:
            for p in pipes:
                for e in ENTRIES:
                    for s in rng.sample(spells, 3):
                        out.append({"kind": k, "pipe": p, "spelling": s, "cache": rng.choice(caches), "entry": e})
    return out


def describe(r):
    c, f = r["case"], r["fails"][0]
    return (f"nested keeps, scenario {c['kind']} on pipeline {c['pipe']} (entry {c['entry']}, other spelling {c['spelling']}, cache_objects={c['cache']}): "
            f"process {f['process']} step {f['step']} [{f['label']}] observed vs expected (from the model of the program): {json.dumps(f['observed_vs_expected'])[:400]}"
            + (f"; {len(r['fails']) - 1} more difference(s)" if len(r["fails"]) > 1 else ""))


def classify(r):
    """violation key: what kind of difference the first failing step shows"""
    f = r["fails"][0]
    d = f["observed_vs_expected"]
    if f["process"] == "file system":
        return "data-directory-content"
    if isinstance(d, dict):
        kinds = set()
        for p, (g, w) in d.items():
            kinds.add(("nested-path" if p not in (TOP1, TOP2) else "root-path") + ("-not-loadable" if str(g)[:2] != "L:" and w != "E:" else
                      ("-loadable-but-never-kept" if w == "E:" else "-wrong-value")))
        return "+".join(sorted(kinds))
    if isinstance(d, list) and isinstance(d[1], dict) and "ran" in d[1]:
        g = d[0] if isinstance(d[0], dict) else {}
        return "evaluation-value" if g.get("v") != d[1]["v"] else "recomputation"
    return "configuration-step"


def start(tier, proof_ok, rng, ex, caches):
    """submits the scenarios to the pool of c16.run (first: they are the longest tasks)"""
    cases = cases_for(tier, rng, caches, tier == "quick" and proof_ok)
    return cases, [ex.submit(run_scenario, c) for c in cases]


def collect(rep, started):
    cases, futs = started
    for r in [f.result() for f in futs]:
        rep.case("nested:" + json.dumps(r["case"], sort_keys=True))
        if "error" in r:
            rep.violation("harness-error:c16-nested", r["error"][-300:], r, no_input=True)
            continue
        if r["fails"]:
            rep.violation(f"nested-keeps:{r['case']['kind']}:{classify(r)}", describe(r),
                          {"nested_case": r["case"], "module": r["module"], "fails": r["fails"][:8], "trace": r["trace"]})
    rep.sample({"nested": cases[0], "history": script(cases[0])})
    return {"nested_keep_scenarios": len(cases), "nested_keep_kinds": len(set(c["kind"] for c in cases)),
            "nested_keep_pipelines": len(set(c["pipe"] for c in cases)), "nested_keep_spellings": len(set(c["spelling"] for c in cases))}


def replay(r):
    out = run_scenario(r["nested_case"])
    print(out.get("module", ""))
    print("\n".join(json.dumps(op) for op in script(r["nested_case"])))
    print(json.dumps(out.get("fails", out.get("error")), indent=1)[:6000])
    return 1
