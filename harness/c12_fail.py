"""C12, the failure dimension: operations that FAIL in the wrapped store are part of the operation sequences.

A store_blob can fail because the value cannot be written (a lambda, an open file, an object whose __reduce__ raises, a value whose
codec raises after half of the file, a codec reference that is not registered), because the underlying store has a fault (before
anything is written / between the blob and its metadata / after everything is written), a fetch_blob can fail because the blob
cannot be loaded back or because its metadata names a codec that is not registered, a path operation because the path is refused.
The property does not change: the failing call must fail the same way through the cache wrapper and on the bare store, and EVERY
later answer (has / fetch / paths) of the wrapped store equals the bare store's answer for the same sequence; the bound holds after
every operation.  The expected answers are the bare store's (lock step), nothing else.
The same is asked of whole evaluations (dds.eval / dds.load with dds.set_store(cache_objects=...)) of functions whose result
cannot be stored: every step must have the outcome it has with cache_objects=None."""
import json
import time

import common as C

DRIVER = "drive_c12_fail.py"

GOOD = {"g0": "v0", "g1": None, "g2": "v2"}                      # key -> its value (content addressing); g1 is a None-valued blob
BAD = {"x_lambda": "lambda", "x_file": "file", "x_reduce": "reduce", "x_unload": "unload", "x_half": "codecraise", "x_nocodec": "nocodec"}
PLANTED = {"kU": "unknown-codec", "kB": "blob-no-meta"}          # states of the local store's directories before the sequence
PLANT_VALUE = {"kU": "vU", "kB": "vB"}
WHEN = ["before", "mid", "after"]
PATHS = ["/p", "/q/r"]
BAD_PATHS = ["/a/../b", "/", "."]
CAPS = [1, 2, 3, 10, "unbounded"]

DDS_FUNS = ["keep_good", "keep_none", "keep_lambda", "keep_file", "keep_good_then_lambda"]
DDS_PATHS = ["/c12fail/good", "/c12fail/none", "/c12fail/lambda", "/c12fail/file"]


def store_op(k):
    """the (normal) store of key k's own value"""
    if k in BAD:
        return ["putx", k, BAD[k]]
    return ["put", k, GOOD[k] if k in GOOD else PLANT_VALUE[k]]


def fault_ops():
    """every operation of the dimension that can fail, with the key it works on"""
    ops = [(k, ["putx", k, BAD[k]]) for k in BAD]
    ops += [(k, ["putf", k, GOOD[k], w]) for k in ("g0", "g1") for w in WHEN]
    ops += [("kU", ["fetch", "kU"]), ("kB", ["fetch", "kB"])]
    ops += [("g0", ["sync", [[p, "g0"]]]) for p in BAD_PATHS[:2]] + [("g0", ["fpaths", [BAD_PATHS[0]]])]
    return ops


def gen_systematic():
    """around every failing operation F on key k: what the client knew of k before x F x what it asks afterwards, a retry, another key"""
    seqs = []
    for k, f in fault_ops():
        other = "g2" if k != "g2" else "g0"
        for prefix in ([], [["has", k]], [["fetch", k]], [["has", k], ["fetch", k]], [store_op(other), ["fetch", other]]):
            s = prefix + [f, ["has", k], ["fetch", k], ["has", k], f, ["fetch", k], ["has", k]]
            s += [store_op(other), ["has", other], ["fetch", other], ["fetch", k], ["has", k]]
            # the retry: the same key stored normally (it succeeds for a good value), then everything is asked again
            s += [store_op(k), ["has", k], ["fetch", k], ["fetch", k], ["sync", [[PATHS[0], k]]], ["fpaths", [PATHS[0]]], ["fetch", other]]
            seqs.append(s)
    return seqs


def gen_random(rng, n):
    seqs = []
    keys = list(GOOD) + list(BAD) + list(PLANTED)
    for _ in range(n):
        s, stored = [], set()
        pool = rng.sample(keys, rng.randint(2, 6))
        for _ in range(rng.randint(8, 40)):
            r = rng.random()
            k = rng.choice(pool)
            if r < 0.25:
                s.append(["has", k])
            elif r < 0.55:
                s.append(["fetch", k])
            elif r < 0.70:
                s.append(store_op(k))
                stored.add(k)
            elif r < 0.85:
                kg = rng.choice(list(GOOD))
                s.append(["putf", kg, GOOD[kg], rng.choice(WHEN)])
            elif r < 0.90:
                s.append(["sync", [[rng.choice(PATHS + BAD_PATHS), rng.choice(sorted(stored) or ["g0"])]]])
            else:
                s.append(["fpaths", [rng.choice(PATHS + BAD_PATHS[:1])]])
        seqs.append(s)
    return seqs


def gen_dds(rng, n):
    """step sequences through the public API: every function evaluated at least twice (the 2nd evaluation meets what the 1st left)"""
    seqs = []
    for f in DDS_FUNS:
        seqs.append([["eval", f], ["eval", f], ["load", DDS_PATHS[2]], ["load", DDS_PATHS[0]], ["eval", "keep_good"], ["eval", f], ["load", DDS_PATHS[2]]])
    for _ in range(n):
        s = []
        for _ in range(rng.randint(4, 12)):
            s.append(["eval", rng.choice(DDS_FUNS)] if rng.random() < 0.7 else ["load", rng.choice(DDS_PATHS)])
        seqs.append(s)
    return seqs


def gen_jobs(rng, tier):
    jobs = []
    seqs = [("systematic", s) for s in gen_systematic()] + [("random", s) for s in gen_random(rng, 120 if tier == "quick" else 1500)]
    for i, (shape, s) in enumerate(seqs):
        cap = CAPS[i % len(CAPS)]
        # (quick: a random sequence runs on one store, the local one two times out of three)
        for store in (("memory", "local") if shape == "systematic" or tier != "quick" else ("local", "local", "memory")[i % 3:i % 3 + 1]):
            has_fault = any(o[0] == "putf" for o in s)
            # through dds.set_store when the sequence needs no fault point in the underlying store (one out of two)
            via = "set_store" if not has_fault and i % 2 else "ctor"
            jobs.append({"store": store, "cap": "default" if via == "set_store" and i % 4 == 1 else cap, "via": via, "shape": shape,
                         "plant": [[how, k] for k, how in PLANTED.items()], "ops": s})
    for i, s in enumerate(gen_dds(rng, 10 if tier == "quick" else 100)):
        jobs.append({"dds": True, "store": "local" if i % 3 else "memory", "cap": (CAPS + ["default"])[i % 6], "shape": "dds", "ops": s})
    return jobs


def bare_of(job):
    return dict(strip(job), cap="bare")


def strip(job):
    return {k: job[k] for k in ("dds", "store", "cap", "via", "plant", "ops") if k in job}


def breaches(job, rw, rb):
    """-> list of (kind, step, observed, allowed)"""
    out = []
    if rw["outs"] != rb["outs"]:
        step = next(i for i, (a, b) in enumerate(zip(rw["outs"], rb["outs"])) if a != b)
        out.append(("opaque", step, rw["outs"][step], rb["outs"][step]))
    bound = rw["bound"]
    if bound is not None:
        over = [i for i, x in enumerate(rw["lens"]) if x > bound]
        if over:
            out.append(("entries", over[0], rw["lens"][over[0]], bound))
        over = [i for i, x in enumerate(rw["alive"]) if x > bound]
        if over:
            out.append(("alive", over[0], rw["alive"][over[0]], bound))
    return out


def run_pairs(jobs):
    payload = []
    for j in jobs:
        payload += [strip(j), bare_of(j)]
    res = C.run_driver(DRIVER, {"jobs": payload})["jobs"]
    return [(res[2 * i], res[2 * i + 1]) for i in range(len(jobs))]


def shrink(job, kind, budget=40):
    """cut after the first breach, then delete single operations (every round is one driver call trying all the deletions)"""
    def still(j, rw, rb):
        return [b for b in breaches(j, rw, rb) if b[0] == kind]

    (rw, rb), = run_pairs([job])
    b = still(job, rw, rb)
    if not b:
        return job
    ops = job["ops"][:b[0][1] + 1]
    while budget > 0 and len(ops) > 1:
        budget -= 1
        cands = [ops[:i] + ops[i + 1:] for i in range(len(ops))]
        rs = run_pairs([dict(job, ops=c) for c in cands])
        ok = [c[:still(dict(job, ops=c), rw, rb)[0][1] + 1] for c, (rw, rb) in zip(cands, rs) if still(dict(job, ops=c), rw, rb)]
        if not ok:
            break
        ops = min(ok, key=len)
    return dict(job, ops=ops)


def is_failure(ans):
    return ans[:2] in ("E", "E:", "X:")


def fail_kind(o):
    return {"putx": lambda: "store:" + o[2], "putf": lambda: "store-fault:" + o[3], "eval": lambda: "eval:" + o[1]}.get(o[0], lambda: o[0])()


def failed_before(ops, bare_outs, step, about=None):
    """the kinds of the operations that failed (on the bare store) before the given step (about: only the ones on that key)"""
    kinds = []
    for o, a in zip(ops[:step], bare_outs[:step]):
        if is_failure(a) and (about is None or o[1] == about) and fail_kind(o) not in kinds:
            kinds.append(fail_kind(o))
    return kinds


def breach_class(job, bare_outs, step):
    """which failure a breach follows: the last failed operation on the key of the breaching has / fetch (any key otherwise)"""
    o = job["ops"][step]
    fails = failed_before(job["ops"], bare_outs, step, o[1] if o[0] in ("has", "fetch") else None)
    return fails[-1] if fails else "none"


def describe(job):
    cap = job["cap"]
    if job.get("dds"):
        return "dds.eval / dds.load under dds.set_store(%r, cache_objects=%s)" % (job["store"], {"default": "True", "unbounded": "-1"}.get(cap, cap))
    if job.get("via") == "set_store":
        return "dds.set_store(%r, cache_objects=%s)" % (job["store"], {"default": "True", "unbounded": "-1"}.get(cap, cap))
    return "LRUCacheStore(%s store, num_elem=%s)" % (job["store"], cap)


def op_text(op):
    return "%s(%s)" % (op[0], ", ".join(x if isinstance(x, str) else json.dumps(x) for x in op[1:]))


KEYS = {"opaque": "opaque:fail", "entries": "unbounded-cache:fail", "alive": "unbounded-cache:objects-alive:fail"}


def report(rep, job, kind, shrunk):
    """one violation; shrunk the first time a (kind, failing operations) class is seen"""
    (rw, rb), = run_pairs([job])
    bs = [b for b in breaches(job, rw, rb) if b[0] == kind]
    if not bs:
        rep.violation(KEYS[kind] + ":unstable", f"{describe(job)}: a {kind} breach was seen once and not again on the same sequence", dict(strip(job), fail=True, kind=kind))
        return
    cls = (kind, breach_class(job, rb["outs"], bs[0][1]))
    # the sequence is cut after the breach; operations are deleted too the first time a (breach, failure) class is seen
    small = dict(job, ops=job["ops"][:bs[0][1] + 1])
    if cls not in shrunk and len(shrunk) < 5:
        shrunk.add(cls)
        small = shrink(job, kind)
    (rw, rb), = run_pairs([small])
    bs = [b for b in breaches(small, rw, rb) if b[0] == kind]
    if not bs:
        small = job
        (rw, rb), = run_pairs([small])
        bs = [b for b in breaches(small, rw, rb) if b[0] == kind]
    _, step, seen, allowed = bs[0]
    fails = failed_before(small["ops"], rb["outs"], step)
    after = ("after the failed operation(s) [" + ", ".join(f"#{i} {op_text(o)} -> {a}" for i, (o, a) in enumerate(zip(small["ops"][:step], rb["outs"])) if is_failure(a)) + "]") \
        if fails else "(no operation failed before)"
    seq = "; ".join(op_text(o) for o in small["ops"][:step + 1])
    if kind == "opaque":
        what = f"{describe(small)} answers {seen!r} where the bare store answers {allowed!r} at step #{step} {op_text(small['ops'][step])} {after}; sequence: {seq}"
    elif kind == "entries":
        what = f"{describe(small)} holds {seen} cache entries, the configured bound is {allowed}, at step #{step} {op_text(small['ops'][step])} {after}; sequence: {seq}"
    else:
        what = f"{describe(small)} keeps {seen} fetched objects alive, the configured bound is {allowed}, at step #{step} {op_text(small['ops'][step])} {after}; sequence: {seq}"
    key = KEYS[kind] + (":dds:" if job.get("dds") else ":") + breach_class(small, rb["outs"], step)
    rep.violation(key, what, dict(strip(small), fail=True, shape=job["shape"], kind=kind, step=step, observed=seen, allowed=allowed,
                                  wrapped=rw["outs"], bare=rb["outs"], lens=rw["lens"], alive=rw["alive"]))


def run(rep, tier, seed, rng):
    t0 = time.time()
    jobs = gen_jobs(rng, tier)
    res = run_pairs(jobs)
    stats = {"sequences": len(jobs), "shapes": {}, "stores": {}, "via_set_store": sum(1 for j in jobs if j.get("via") == "set_store"),
             "capacities": sorted({str(j["cap"]) for j in jobs}), "max_len": max(len(j["ops"]) for j in jobs),
             "operations": 0, "failed_operations_by_kind": {}, "answers_compared_after_a_failure": 0, "sequences_with_a_failure": 0,
             "bound_checked_after_operations": 0}
    shrunk = set()
    reported = {}
    for job, (rw, rb) in zip(jobs, res):
        ops, outs = job["ops"], rb["outs"]
        first_fail = next((i for i, a in enumerate(outs) if is_failure(a)), None)
        # non-trivial: an operation failed on the bare store and a has / fetch / paths answer (or an evaluation) was compared afterwards
        later = 0 if first_fail is None else sum(1 for o in ops[first_fail + 1:] if o[0] in ("has", "fetch", "fpaths", "eval", "load"))
        rep.case(json.dumps(["fail", strip(job)]), later > 0)
        stats["shapes"][job["shape"]] = stats["shapes"].get(job["shape"], 0) + 1
        stats["stores"][job["store"]] = stats["stores"].get(job["store"], 0) + 1
        stats["operations"] += len(ops)
        stats["answers_compared_after_a_failure"] += later
        stats["sequences_with_a_failure"] += first_fail is not None
        stats["bound_checked_after_operations"] += len(rw["lens"]) if rw["bound"] is not None else 0
        for k in failed_before(ops, outs, len(ops)):
            stats["failed_operations_by_kind"][k] = stats["failed_operations_by_kind"].get(k, 0) + 1
        for b in breaches(job, rw, rb):
            cls = (b[0], breach_class(job, outs, b[1]), job.get("dds", False))
            reported[cls] = reported.get(cls, 0) + 1
            # one report per class of (breach, failed operation it follows, store level / dds level)
            if reported[cls] <= 1 and len(reported) <= 24:
                report(rep, job, b[0], shrunk)
    stats["wall_s"] = round(time.time() - t0, 1)
    j = jobs[0]
    rep.sample({"fail": True, "store": j["store"], "cap": j["cap"], "via": j["via"], "plant": j["plant"], "ops": j["ops"][:10] + ["..."]})
    rep.sample({"fail": True, "dds": True, "store": jobs[-1]["store"], "cap": jobs[-1]["cap"], "ops": jobs[-1]["ops"]})
    return stats


def replay(r):
    job = {k: r[k] for k in ("dds", "store", "cap", "via", "plant", "ops") if k in r}
    (rw, rb), = run_pairs([job])
    bs = breaches(job, rw, rb)
    print(json.dumps({"how": describe(job), "ops": r["ops"], "wrapped": rw["outs"], "bare": rb["outs"], "bound": rw["bound"],
                      "entries_after_each_operation": rw["lens"], "alive_after_each_operation": rw["alive"],
                      "breaches": [{"kind": k, "step": s, "observed": o, "allowed": a} for k, s, o, a in bs]}, indent=1))
    print("REPRODUCED" if bs else "not reproduced")
    return 1 if bs else 0
