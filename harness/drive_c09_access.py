"""Implementation driver for C09, access dimension: one process runs the histories of a batch of generated scenarios
(c09_access.py writes one package per scenario + one top-level helper module per scenario + vaccesslog.py under one root) in
which dds.load / dds.keep are reached through every way Python offers to name them (module-level / function-local import,
from-import, renamed import, alias variable, helper module imported at module level / inside the body).
stdin: {"root": dir, "nodds": bool, "scenarios": [{"pkg": name, "accept": [module names], "store": {...}, "paths": [...], "actions": [...]}]}
Each action:
  {"a":"call","fn":f}                              dds.eval(f)
  {"a":"setvar","name":n,"value":int}
  {"a":"loads"}                                     dds.load of every path of the scenario (outside any evaluation)
Output: per scenario the list of per-action results {out, log [tag...], loads?, paths_after?} or {"error": text}.  With
"nodds" the same files run against the dds-free reference of drive_c15_threads.py (keep = call, load = value most recently
kept in program order), re-installed for every scenario."""
import importlib
import json
import os
import sys
import traceback

LOGMOD = "vaccesslog"


def run_scenario(sc, nodds, helpers):
    install_fake_dds, committed = helpers
    if nodds:
        dds = install_fake_dds()           # a fresh reference store for every scenario
        canon = importlib.import_module("drive_prog").canon
    else:
        import dds
        from drive_prog import canon, make_store, exc_desc
    logmod = importlib.import_module(LOGMOD)
    mod = importlib.import_module(sc["pkg"] + ".pipe")
    inner = None
    if not nodds:
        for m in sc["accept"]:
            dds.accept_module(m)
        store = make_store(sc["store"], [])
        inner = store.inner
        dds.set_store(inner)

    def describe(e):
        if nodds:
            return "dds:NONE" if type(e).__name__ == "DDSException" else "exc:" + type(e).__name__
        return exc_desc(e, logmod)

    out = []
    for act in sc["actions"]:
        del logmod.LOG[:]
        res = {}
        try:
            if act["a"] == "call":
                res["out"] = "ok:" + canon(dds.eval(getattr(mod, act["fn"])))
            elif act["a"] == "setvar":
                setattr(mod, act["name"], act["value"])
                res["out"] = "ok:N"
            elif act["a"] == "loads":
                vals = []
                for p in sc["paths"]:
                    try:
                        vals.append("ok:" + canon(dds.load(p)))
                    except BaseException as e:  # noqa
                        vals.append(describe(e).split(":")[0] + ":")
                res["out"] = "ok:N"
                res["loads"] = vals
            else:
                raise ValueError(act["a"])
        except BaseException as e:  # noqa  (DDSException derives from BaseException)
            res["out"] = describe(e)
            res["tb"] = traceback.format_exc()[-500:]
        res["log"] = list(logmod.LOG)
        if not nodds:
            res["paths_after"] = committed(inner, sc["paths"])
        out.append(res)
    if not nodds and out:
        # is an evaluation still considered in progress at the end of the history?  (observed by behaviour)
        try:
            dds.eval(mod.idle, dds_stages=["analysis"])
            out[-1]["in_eval_at_end"] = False
        except BaseException as e:  # noqa
            out[-1]["in_eval_at_end"] = describe(e)
    return out


def main():
    payload = json.load(sys.stdin)
    sys.path.insert(0, payload["root"])
    sys.path.insert(0, os.path.dirname(os.path.abspath(__file__)))
    d15 = importlib.import_module("drive_c15_threads")
    helpers = (d15.install_fake_dds, d15.committed)
    nodds = bool(payload.get("nodds"))
    res = []
    for sc in payload["scenarios"]:
        try:
            res.append(run_scenario(sc, nodds, helpers))
        except BaseException as e:  # noqa
            res.append({"error": (type(e).__name__ + ": " + str(e) + "\n" + traceback.format_exc())[-1200:]})
    print("@@RESULT@@" + json.dumps(res))


if __name__ == "__main__":
    main()
