"""C01 - the NAMES dimension: what the module variables, functions, classes and parameters of a pipeline are CALLED.

progs.gen_program only produces VAR_M0_0 / f3 / a, b, c.  Here the same generated programs (and every later version of
them in a history) go through a consistent renaming pass - a post-pass with a random stream of its own, so the programs
generated for the other checks are unchanged - that draws the names from hazardous classes:

  builtin       names of Python builtins (max, format, input, round, filter, type, id, dir, len, ...)
  keywordish    soft keywords and keyword look-alikes (match, case, type, _, class_, none, true, cls)
  dds           names of dds' own API / modules (keep, load, eval, data_function, path, fun, store, codec)
  module        names of importable modules (os, sys, json, numpy, ...), of the package, of the module itself or of a
                later sibling module
  underscore    _, __, _cache, __version__ (private / dunder-like spellings)
  letter        single letters (a, b, c are also the parameter names of other functions)
  unicode       non-ASCII identifiers, in pairs that only differ by an accent (cafe / cafe-with-accent)
  case          names that differ from a builtin / API name or from each other only by case (Max, MAX, Len, LOAD)
  shared        one name used for two things that never meet in one scope: a variable called like a parameter of a
                function that does not read it, like a function of a module it does not import, the same variable name in
                two modules; a parameter called like a module variable / function its function does not mention
  local-like    (unread variables only) x0, _salt, _doc, _c: names that are locals of the functions

The history then edits exactly the things that were renamed - the value of a renamed tracked variable (in the file or in
the running process), the body of a renamed function, a literal bound to a renamed parameter - reverts, and restarts; every
call is run by the real dds, by the dds-free reference run of the same files and by the Coq model (names reach the model as
byte strings).  The expected value is always the one plain execution returns."""
import concurrent.futures as cf
import copy
import json
import os
import random
import shutil
import tempfile
import unicodedata

import common as C
import hist
import progs as P

BUILTIN = ["max", "min", "format", "input", "round", "filter", "type", "id", "dir", "len", "sum", "list", "dict", "str", "int", "map",
           "all", "any", "hash", "iter", "next", "open", "print", "range", "set", "sorted", "vars", "zip", "object", "bytes", "compile",
           "abs", "pow", "bin", "copyright", "license", "exit", "help", "Exception", "ValueError", "Warning", "NotImplemented",
           "Ellipsis", "float", "tuple", "bool", "eval", "exec", "globals", "locals", "property", "super", "slice", "reversed",
           "enumerate", "callable", "chr", "repr", "getattr", "isinstance", "frozenset", "KeyError", "OSError"]
KEYWORDISH = ["match", "case", "type", "_", "class_", "lambda_", "none", "true", "false", "cls", "async_", "print_"]
DDSNAMES = ["keep", "load", "eval", "data_function", "dds_function", "set_store", "accept_module", "codec", "store", "introspect",
            "structures", "fun", "path", "DDSPath", "_api", "sig", "key"]
MODNAMES = ["os", "sys", "json", "math", "typing", "collections", "builtins", "keyword", "ast", "inspect", "logging", "importlib",
            "numpy", "pandas", "hashlib", "pickle", "random", "re", "time"]
UNDERSCORE = ["_", "__", "_cache", "_X", "__version__", "__author__", "__cfg__", "_0", "_private"]
LETTERS = ["a", "b", "c", "x", "y", "e", "f", "l", "O", "I", "i", "j", "k", "m", "v", "s", "t", "p", "q", "r", "d", "g", "h"]
UNICODE = ["caf\u00e9", "cafe", "na\u00efve", "naive", "\u0434\u0430\u043d\u043d\u044b\u0435", "\u6570\u636e", "\u03c0", "\u03a9",
           "\u00f1", "\u00e9t\u00e9", "ete", "stra\u00dfe", "strasse", "\ubcc0\uc218", "\u03bc", "\u00e9"]
CASE = ["Max", "MAX", "Len", "LEN", "Filter", "FORMAT", "Type", "ID", "Dir", "Input", "Keep", "LOAD", "Eval", "Os", "JSON", "Format",
        "format_", "MaX"]
LOCAL_LIKE = ["x0", "x1", "x2", "_salt", "_doc", "_c"]
POOLS = {"builtin": BUILTIN, "keywordish": KEYWORDISH, "dds": DDSNAMES, "module": MODNAMES, "underscore": UNDERSCORE, "letter": LETTERS,
         "unicode": UNICODE, "case": CASE}
CLASSES = ["builtin", "keywordish", "dds", "module", "underscore", "letter", "unicode", "case", "shared"]

# names that the rendered modules / functions use themselves (progs.render_module, render_function, edit_catalogue)
RESERVED_MODULE_LEVEL = ({"dds", P.LOGMOD, P.EXTMOD, "PurePosixPath", "pathlib", "helper_a", "helper_b", "aaa_helper", "unrelated_pre",
                          "unrelated_post", "UNRELATED_CONST"} | {f"weighted_{c}" for c in P.COMP_VARS} | set(P.COMP_VARS))
RESERVED_LOCAL = {"self", "_salt", "_doc", "_c"} | set(P.COMP_VARS) | {f"x{i}" for i in range(16)}
API_PARAMS = {"path", "fun", "dds_export_graph", "dds_extra_debug", "dds_stages"}   # parameters of dds.keep / dds.eval themselves


def python_builtin_like(name):
    """Is the name a builtin or a keyword of the running Python (computed here, not read from the library)?"""
    import builtins
    import keyword
    return name in vars(builtins) or name in keyword.kwlist


def _valid(name):
    import keyword
    return name.isidentifier() and not keyword.iskeyword(name) and unicodedata.normalize("NFKC", name) == name


for _pool in POOLS.values():
    for _n in _pool:
        assert _valid(_n), _n
assert all(python_builtin_like(n) for n in BUILTIN)


# ----------------------------------------------------------------------------- the renaming pass


def _versions(events):
    return [ev[1] for ev in events if ev[0] == "prog"]


def _mod_index(prog):
    return {m: i for i, m in enumerate(sorted(prog["modules"]))}


def build_mapping(events, rng, focus=None, p_rename=0.85, free_keep_callees=False, relevant=None):
    """One consistent renaming for all the versions of a history: {"func": {(mod, old): (new, cls)},
    "var": {(mod, old): (new, cls)}, "param": {(mod, fn, old): (new, cls)}}.  Names stay distinct wherever two of them meet
    in one scope (module namespace incl. imported names, function scope); `shared` names are deliberately reused where
    they do not meet.  A function that is referenced by name (keep callee, higher-order reference) does not get the name of a
    builtin in the histories that are compared with the model (the by-name rule of DESIGN.md appendix A.5 skips builtin names:
    that case is the raw scenario `by-name reference of a function named like a builtin`).
    focus: the name class this history is about: drawn with probability 0.6 for every name, and always for the first
    variable / function / parameter of `relevant` (the ones the root call reaches), so that every class meets every kind of
    dependency."""
    versions = _versions(events)
    relevant = relevant or {"var": set(), "func": set()}
    forced = set()
    base = versions[0]
    idx = _mod_index(base)
    mods = sorted(idx, key=idx.get)
    pkg = base["pkg"]
    funcs, vars_, readers, params, mentions, byname, nstmts, classes = [], [], {}, {}, {}, set(), {}, set()
    for p in versions:
        for m in mods:
            for v in p["modules"][m]["vars"]:
                if (m, v) not in vars_ and v not in P.COMP_VARS:
                    vars_.append((m, v))
            for f in p["modules"][m]["funcs"]:
                k = (m, f["name"])
                if k not in funcs:
                    funcs.append(k)
                if f.get("is_class"):
                    classes.add(k)
                for q in f["params"]:
                    params.setdefault(k, [])
                    if q["name"] not in params[k]:
                        params[k].append(q["name"])
                params.setdefault(k, [])
                nstmts[k] = max(nstmts.get(k, 0), len(f["stmts"]))
                for v in f.get("reads", []):
                    readers.setdefault((m, v), set()).add(k)
                for st in f["stmts"]:
                    if "callee" in st:
                        mentions.setdefault(k, set()).add(tuple(st["callee"]))
                        if st["k"] == "ref" or (st["k"] == "keep" and not free_keep_callees):
                            byname.add(tuple(st["callee"]))
    funcs.sort(key=lambda k: (idx[k[0]], k[1]))
    vars_.sort(key=lambda k: (idx[k[0]], k[1]))

    def cls_of():
        if focus and rng.random() < 0.6:
            return focus
        return rng.choice(CLASSES)

    def wanted(kind, is_relevant):
        """(rename?, class): the random numbers are drawn in every case (the stream does not depend on `relevant`)."""
        r, cls = rng.random() < p_rename, cls_of()
        if focus and is_relevant and kind not in forced:
            forced.add(kind)
            return True, focus
        return r, cls

    def draw(cls, ok, extra=()):
        cands = [n for n in list(extra) + list(POOLS.get(cls, [])) if ok(n)]
        return rng.choice(cands) if cands else None

    mp = {"func": {}, "var": {}, "param": {}}
    # 1. functions and classes: globally distinct, distinct from everything the modules use themselves
    used_f = set()
    for k in funcs:
        go, cls = wanted("func", k in relevant["func"] and not (focus == "builtin" and k in byname))
        if not go:
            continue
        if cls == "shared":
            cls = rng.choice(["builtin", "dds", "letter"])

        def ok(n, k=k):
            return (n not in used_f and n not in RESERVED_MODULE_LEVEL and n not in idx and n != pkg and n not in RESERVED_LOCAL
                    and not n.endswith("_al") and not (k in byname and python_builtin_like(n))
                    and not (n + "_al").startswith("__"))      # (the alias <name>_al would be mangled inside a class body)
        n = draw(cls, ok)
        if n:
            mp["func"][k] = (n, cls)
            used_f.add(n)
    fname = lambda k: mp["func"].get(k, (k[1], None))[0]     # noqa: E731
    all_fnames = {fname(k) for k in funcs}

    # 2. module-level names already taken in each module
    taken = {}
    for m in mods:
        t = set(RESERVED_MODULE_LEVEL) | {pkg}
        t |= {mm for mm in mods if idx[mm] < idx[m]}                      # earlier modules may be imported (from . import m0)
        for k in funcs:
            if idx[k[0]] <= idx[m]:                                       # own functions, functions imported by name / alias
                t |= {fname(k), fname(k) + "_al"}
        t |= {v for (mm, v) in vars_ if mm == m}                          # the old names stay taken (unrenamed variables keep them)
        taken[m] = t

    def local_names(k):
        """Names that are local in function k: parameters (new names, as far as known), locals of the rendering."""
        return {mp["param"].get((k[0], k[1], q), (q, None))[0] for q in params[k]} | RESERVED_LOCAL

    def ok_var(m, v, n):
        if n in taken[m] or (n.startswith("__") and not n.endswith("__")):
            return False
        if n in all_fnames and any(fname(k) == n and idx[k[0]] <= idx[m] for k in funcs):
            return False
        return all(n not in local_names(k) for k in readers.get((m, v), ()))

    # 3. variables (the `shared` ones that want a parameter name are resolved after the parameters)
    deferred = []
    for (m, v) in vars_:
        go, cls = wanted("var", (m, v) in relevant["var"])
        if not go:
            continue
        if not readers.get((m, v)) and rng.random() < 0.3:
            n = draw("local-like", lambda n: n not in taken[m], LOCAL_LIKE)
            if n:
                mp["var"][(m, v)] = (n, "local-like")
                taken[m].add(n)
                continue
        extra = []
        if cls == "module":
            extra = [pkg] + [mm for mm in mods if idx[mm] >= idx[m]]
        if cls == "shared":
            kind = rng.choice(["param", "later-function", "other-module-variable"])
            if kind == "param":
                deferred.append((m, v))
                continue
            if kind == "later-function":
                extra = [fname(k) for k in funcs if idx[k[0]] > idx[m]]
            else:
                extra = [nn for (mm, vv), (nn, _) in mp["var"].items() if mm != m]
            if not extra:
                cls = rng.choice(["builtin", "letter", "dds"])
        n = draw(cls if cls != "shared" else "-", lambda n: ok_var(m, v, n), extra)
        if n:
            mp["var"][(m, v)] = (n, cls)
            taken[m].add(n)
    vname = lambda m, v: mp["var"].get((m, v), (v, None))[0]      # noqa: E731

    # 4. parameters: distinct from what the function mentions and from its other locals; may shadow anything else
    def mention_names(k):
        s = {"dds", P.LOGMOD, "PurePosixPath", "pathlib", "helper_a", "helper_b", "aaa_helper"}
        for (mm, v), rs in readers.items():
            if k in rs:
                s |= {v, vname(mm, v)}
        for c in mentions.get(k, ()):
            s |= {fname(c), fname(c) + "_al", c[0], c[1]}
        return s
    for k in funcs:
        for q in params[k]:
            go, cls = wanted("param", k in relevant["func"] and k in byname)
            if not go:
                continue
            extra = []
            if cls == "shared" and k in classes:
                cls = "builtin"
            if cls == "shared":
                extra = [vname(m, v) for (m, v) in vars_ if m == k[0] and k not in readers.get((m, v), ())] + \
                        [fname(c) for c in funcs if c != k and c not in mentions.get(k, ())]
                if not extra:
                    cls = "builtin"

            def ok(n, k=k, q=q):
                others = {mp["param"].get((k[0], k[1], o), (o, None))[0] for o in params[k] if o != q} | set(params[k]) - {q}
                # (a parameter of a class's __init__ is not a local name for the analysis of the pinned tree: one that is
                # called like a module-level function / variable is the hand-written scenario `holder_user`, reported under
                # a key of its own; the generated classes stay clear of the names of their module)
                return (n not in others and n not in RESERVED_LOCAL and n not in API_PARAMS and n not in mention_names(k)
                        and not (n.startswith("__") and not n.endswith("__"))
                        and not (k in classes and (n in taken[k[0]] or n in all_fnames or any(nn == n for (nn, _) in mp["var"].values()))))
            n = draw(cls if cls != "shared" else "-", ok, extra)
            if n:
                mp["param"][(k[0], k[1], q)] = (n, cls)
    # 5. variables called like a parameter of a function that does not read them
    for (m, v) in deferred:
        cands = sorted({nn for (mm, fn, q), (nn, _) in mp["param"].items()} | {q for k in funcs for q in params[k]
                                                                                 if (k[0], k[1], q) not in mp["param"]})
        n = draw("-", lambda n: ok_var(m, v, n), cands)
        if n:
            mp["var"][(m, v)] = (n, "shared")
            taken[m].add(n)
    return mp


def _expr(e, m, mp):
    if e[0] == "var":
        return ["var", mp["var"].get((m, e[1]), (e[1],))[0]]
    return e


def rename_program(prog, mp):
    """The same program under the renaming (deep copy)."""
    p = copy.deepcopy(prog)
    fn = lambda c: (c[0], mp["func"].get((c[0], c[1]), (c[1],))[0])       # noqa: E731
    for m, mod in p["modules"].items():
        mod["vars"] = {mp["var"].get((m, v), (v,))[0]: e for v, e in mod["vars"].items()}
        for f in mod["funcs"]:
            old = f["name"]
            f["reads"] = [mp["var"].get((m, v), (v,))[0] for v in f.get("reads", [])]
            for q in f["params"]:
                q["name"] = mp["param"].get((m, old, q["name"]), (q["name"],))[0]
            for st in f["stmts"]:
                if st.get("path_var"):
                    st["path_var"] = mp["var"].get((m, st["path_var"]), (st["path_var"],))[0]
                for key in ("args", "pos"):
                    if key in st:
                        st[key] = [_expr(e, m, mp) for e in st[key]]
                if "kw" in st:
                    cm, cn = st["callee"]
                    st["kw"] = [[mp["param"].get((cm, cn, n), (n,))[0], _expr(e, m, mp)] for n, e in st["kw"]]
                if "callee" in st:
                    st["callee"] = fn(tuple(st["callee"]))
            f["name"] = fn((m, old))[1]
    p["root"] = fn(tuple(prog["root"]))
    return p


def rename_action(act, mp):
    a = copy.deepcopy(act)
    if a["a"] == "call":
        a["kw"] = [[mp["param"].get((a["mod"], a["fn"], n), (n,))[0], x] for n, x in a.get("kw", [])]
        a["fn"] = mp["func"].get((a["mod"], a["fn"]), (a["fn"],))[0]
    elif a["a"] == "setvar":
        a["name"] = mp["var"].get((a["mod"], a["name"]), (a["name"],))[0]
    return a


def rename_history(events, mp):
    out = []
    for ev in events:
        if ev[0] == "prog":
            out.append(("prog", rename_program(ev[1], mp)))
        elif ev[0] == "act":
            out.append(("act", rename_action(ev[1], mp)))
        else:
            out.append(ev)
    return out


# ----------------------------------------------------------------------------- histories that edit what was renamed


def gen_names_history(rng, max_edits, focus=None, map_rng=None, free_keep_callees=False, max_term=None):
    """A generated program (one with at least two tracked variables read by reachable functions, if 6 draws give one), its
    renaming, a root call that stores the root's result (so that a dependency missed by the analysis shows up as a stale
    value), and one step per dependency kind: value of a tracked variable read by a reachable function (edited in the file,
    or in the running process), body of a reachable function, literal argument - preferring the variables / functions /
    parameters that carry the focus class; then a revert and a restart.
    Returns (events under the generated names, steps, mapping): steps[i] describes the edit before the i-th call (None for
    the first).  The edits never add or remove a name: the mapping of the first version serves all of them."""
    for _ in range(6 if max_term is None else 12):
        prog = P.gen_program(rng, allow_classes=(rng.random() < 0.25))
        reach = P.reachable(prog, *prog["root"])
        rvars = {(m, v) for (m, n) in reach for v in P.find_func(prog, m, n)["reads"]}
        # max_term (thorough tier): the model evaluates the root's term once per call; a history of 7 calls over a term of
        # 30 KB costs minutes of coqc time - the big call graphs are left to the main sweep
        if len(rvars) >= 2 and len(reach) >= 3 and (max_term is None or len(P.mfn_term(prog, *prog["root"])) <= max_term):
            break
    call = P.root_call(prog, rng)
    if call.get("style") == "eval" and not P.find_func(prog, *prog["root"]).get("annot") and rng.random() < 0.7:
        call = dict(call, style="keep", path="/root_out")
    mp = build_mapping([("prog", prog)], map_rng or random.Random(rng.random()), focus=focus, free_keep_callees=free_keep_callees,
                       relevant={"var": rvars, "func": set(reach)})

    def bound_param(info):
        """The parameter (of the callee of a keep) that the edited literal is bound to."""
        st = P.find_func(prog, *info["fn"])["stmts"][info["stmt"]]
        return (st["callee"][0], st["callee"][1], P.find_func(prog, *st["callee"])["params"][info["pos"]]["name"])

    def weight(c):
        """Has the edit of the catalogue to do with the focus class?"""
        k, info = c[0], c[1]
        if k in ("var", "unread-var"):
            return mp["var"].get((info["mod"], info["name"]), (None, None))[1] == focus
        if k == "body":
            return mp["func"].get(tuple(info["fn"]), (None, None))[1] == focus
        if k == "literal" and "pos" in info:
            return mp["param"].get(bound_param(info), (None, None))[1] == focus
        return False
    events, steps = [("prog", prog), ("act", call)], [None]
    cur = prog
    plan = ["var", "var", "body", "literal", "var", "unread-var"]
    rng.shuffle(plan)
    plan = sorted(plan[:max_edits], key=lambda k: k == "unread-var")
    done = set()
    for kind in plan:
        cat = [c for c in P.edit_catalogue(cur, rng) if c[0] == kind and json.dumps(c[1], sort_keys=True) not in done
               and not c[1].get("comment_only") and not c[1].get("inside_multiline_string")]
        if kind == "var":
            cat = [c for c in cat if (c[1]["mod"], c[1]["name"]) not in done] or cat
        if not cat:
            continue
        pref = [c for c in cat if weight(c)]
        k, info, nxt = rng.choice(pref if pref and rng.random() < 0.8 else cat)
        done.add(json.dumps(info, sort_keys=True))
        if k == "var":
            done.add((info["mod"], info["name"]))
        if k == "literal" and "pos" in info:
            info = dict(info, bound_param=list(bound_param(info)))
        if k == "var" and rng.random() < 0.3:
            events.append(("act", {"a": "setvar", "mod": info["mod"], "name": info["name"], "value": info["value"]}))
            info = dict(info, in_process=True)
        else:
            events.append(("prog", copy.deepcopy(nxt)))
        cur = copy.deepcopy(nxt)
        events.append(("act", call))
        steps.append({"kind": k, "info": info})
    if len(steps) > 1:
        events += [("prog", copy.deepcopy(prog)), ("act", call)]
        steps.append({"kind": "revert", "info": {}})
        if rng.random() < 0.5:
            events += [("restart",), ("act", call)]
            steps.append({"kind": "restart", "info": {}})
    return events, steps, mp


def describe_step(step, mp):
    """The edit in terms of the names the files contain: (short key, sentence)."""
    if step is None:
        return "first-call", "the first call"
    k, info = step["kind"], step["info"]
    if k == "var" or k == "unread-var":
        new, cls = mp["var"].get((info["mod"], info["name"]), (info["name"], "generated"))
        how = "in the running process" if info.get("in_process") else "in the file"
        return f"{k}[{cls}]", (f"module variable `{new}` of {info['mod']} (name class: {cls}; generated as {info['name']}) "
                               f"{'changed ' + how + ' to ' + P.py_repr(info['value']) if 'value' in info else 'changed ' + how}")
    if k == "body":
        m, n = info["fn"]
        new, cls = mp["func"].get((m, n), (n, "generated"))
        return f"body[{cls}]", f"body of function `{new}` of {m} (name class: {cls}; generated as {n}) edited"
    if k == "literal":
        m, n = info["fn"]
        where = f"in function `{mp['func'].get((m, n), (n,))[0]}` of {m} (statement {info['stmt']})"
        if info.get("bound_param"):
            new, cls = mp["param"].get(tuple(info["bound_param"]), (info["bound_param"][2], "generated"))
            return f"literal[{cls}]", (f"the literal bound to parameter `{new}` (name class: {cls}; generated as {info['bound_param'][2]}) by the "
                                       f"keep {where} edited")
        return "literal[plain-call]", f"a literal argument of a plain call {where} edited"
    return k, k


def mapping_summary(mp):
    return {kind: {"/".join(k): f"{n} ({c})" for k, (n, c) in sorted(d.items())} for kind, d in mp.items()}


def one_history(args):
    seed, label, max_edits, focus, with_model = args[:5]
    rng = random.Random(f"names-prog-{seed}")
    events0, steps, mp = gen_names_history(rng, max_edits, focus, random.Random(f"names-map-{seed}"), free_keep_callees=not with_model,
                                           max_term=args[5] if len(args) > 5 else None)
    events = rename_history(events0, mp)
    out = {"seed": seed, "label": label, "focus": focus, "with_model": with_model, "mapping": mapping_summary(mp),
           "classes": sorted({c for d in mp.values() for (_, c) in d.values()}), "n_renamed": sum(len(d) for d in mp.values()),
           "steps": [describe_step(s, mp)[0] for s in steps if s is not None], "wrong": [], "diffs": [], "events": None, "log_lens": []}
    try:
        recs = hist.run_history(events, run_model=with_model)
    except Exception as e:  # noqa
        out["error"] = str(e)[-1500:]
        out["events"] = events
        return out
    calls = [r for r in recs if r["act"]["a"] != "setvar"]
    last_edit = None
    for i, (r, st) in enumerate(zip(calls, steps)):
        if st is not None and st["kind"] not in ("restart",):
            last_edit = st
        if r["impl"]["out"] != r["ref"]["out"]:
            key, text = describe_step(last_edit, mp)
            out["wrong"].append({"call": i, "after": key, "edit": text, "impl": r["impl"]["out"], "reference": r["ref"]["out"],
                                 "log": r["impl"]["log"]})
        d = hist.compare(r)
        if d:
            out["diffs"].append({"call": i, "after": describe_step(last_edit, mp)[0], "diffs": d[:3]})
        out["log_lens"].append(len(r["impl"]["log"]))
    if out["wrong"] or out["diffs"]:
        out["events"] = events
    out["n_actions"] = len(calls)
    out["sample"] = {"mapping": out["mapping"], "steps": out["steps"], "first_outcome": calls[0]["impl"]["out"][:80]}
    return out


# ----------------------------------------------------------------------------- hand-written files (no model)

RAW_MODULE = '''import dds
import rawhold

# settings of the pipeline: every one of them is a tracked module variable
max = {v}
format = "v{v}"
type = [{v}, 2]
_ = {v}.5
café = {v}
keep = {{"k": {v}}}
json = {v}


def filter():
    return {v}


def input(id=3):
    return id + {v}


def reads_builtin_named_int():
    return [z if z < max else max for z in range(0, 30, 7)]


def reads_builtin_named_str():
    return "out-" + format


def reads_builtin_named_list():
    return list(type)


def reads_underscore():
    return _ * 2


def reads_unicode():
    return café + 1


def reads_api_named():
    return keep["k"]


def reads_module_named():
    return json - 1


def calls_builtin_named_function():
    return input() * 2


def keeps_builtin_named_function():
    return dds.keep("/nm/inner", input, {v})


def parameter_named_like_variable(max):
    return max * 3


def calls_parameter_shadow():
    return parameter_named_like_variable(7)


def reference_by_name_of_builtin_named_function():
    return rawhold.apply(filter)


class Holder:
    def __init__(self, holder_user):
        self.v = holder_user + {v}


def holder_user():
    return Holder(10).v
'''
RAW_SCENARIOS = ["reads_builtin_named_int", "reads_builtin_named_str", "reads_builtin_named_list", "reads_underscore", "reads_unicode",
                 "reads_api_named", "reads_module_named", "calls_builtin_named_function", "keeps_builtin_named_function",
                 "calls_parameter_shadow", "reference_by_name_of_builtin_named_function", "holder_user"]
RAW_RUN = '''import dds, sys, json
dds.accept_module("rawnm")
dds.set_store("local", internal_dir=sys.argv[1] + "/i", data_dir=sys.argv[1] + "/d")
import rawnm.m as m
out = {}
for name in sys.argv[2:]:
    fn = getattr(m, name)
    try:
        got = repr(dds.keep("/nm_out/" + name, fn))
    except dds.DDSException as e:
        got = "DDSException " + str(getattr(getattr(e, "error_code", None), "name", None))
    out[name] = [got, repr(fn())]
print("@@" + json.dumps(out))
'''


def raw_outputs(template=None, values=(1, 2, 1), scenarios=None, script=None):
    """One process per value of v on one local store; returns per process {scenario: [repr dds.keep gave, repr of the plain call]}
    (or the tail of the output of a process that could not be run, as a string)."""
    base = tempfile.mkdtemp(prefix="c01names_", dir=C.scratch_dir())
    try:
        os.makedirs(os.path.join(base, "rawnm"))
        open(os.path.join(base, "rawnm", "__init__.py"), "w", encoding="utf-8").write("")
        open(os.path.join(base, "rawhold.py"), "w", encoding="utf-8").write("def apply(f):\n    return f()\n")
        open(os.path.join(base, "run.py"), "w", encoding="utf-8").write(script or RAW_RUN)
        outs = []
        for v in values:
            open(os.path.join(base, "rawnm", "m.py"), "w", encoding="utf-8").write((template or RAW_MODULE).format(v=v))
            env = C.impl_env()
            env["PYTHONPATH"] = C.REPO + os.pathsep + base
            rc, out = C.sh([C.PY, os.path.join(base, "run.py"), base] + list(scenarios or RAW_SCENARIOS), env=env, cwd=base, timeout=180)
            line = [l for l in out.splitlines() if l.startswith("@@")]
            if not line:
                return out[-800:]
            outs.append(json.loads(line[-1][2:]))
        return outs
    finally:
        shutil.rmtree(base, ignore_errors=True)


def run_raw(rep):
    """Files written by hand with hazardous names; every setting is edited (1 -> 2 -> 1) between processes on one store;
    what a kept function returns is compared with calling it plainly in the same process."""
    outs = raw_outputs()
    if isinstance(outs, str):
        rep.violation("harness-error:c01names-raw", "raw names scenario could not be run: " + outs[-300:], {"out": outs}, no_input=True)
        return 0
    for name in RAW_SCENARIOS:
        rep.case("names-raw:" + name)
        for step, (v, o) in enumerate(zip((1, 2, 1), outs)):
            got, plain = o[name]
            if got != plain:
                key = ("stale:names:builtin-named-function-referenced-by-name" if name == "reference_by_name_of_builtin_named_function"
                       else "rejected:names:class-init-parameter-named-like-module-function" if name == "holder_user" and got.startswith("DDSException")
                       else "stale:names:raw:" + name)
                rep.violation(key, f"{name}: hand-written module with settings named max / format / type / _ / caf\u00e9 / keep / json and functions "
                              f"named filter / input (and a class whose __init__ parameter is called like the function that instantiates it); after every setting and function body changed to {v} (process {step + 1} on the same "
                              f"store) dds.keep returns {got} but plain execution gives {plain}",
                              {"scenario": name, "module_template": RAW_MODULE, "values_of_v_per_process": [1, 2, 1], "process": step + 1,
                               "run_script": RAW_RUN, "dds": got, "plain": plain})
                break
    return len(RAW_SCENARIOS)


def replay_raw(r):
    outs = raw_outputs(r["module_template"], r["values_of_v_per_process"], [r["scenario"]], r["run_script"])
    if isinstance(outs, str):
        print("could not be run:", outs)
        return 2
    bad = False
    for v, o in zip(r["values_of_v_per_process"], outs):
        got, plain = o[r["scenario"]]
        print(f"v={v} {r['scenario']}: dds.keep -> {got} | plain call -> {plain}")
        bad = bad or got != plain
    print("REPRODUCED" if bad else "not reproduced")
    return 1 if bad else 0


# ----------------------------------------------------------------------------- entry


def run(rep, tier, seed, proof_ok):
    import time
    t0 = time.time()
    n_hist = 10 if tier == "quick" else 72
    max_edits = 3 if tier == "quick" else 4
    jobs = []
    for i in range(n_hist):
        focus = CLASSES[i % len(CLASSES)]
        # every 5th history: keep callees may also be called like builtins (the by-name pseudo call of such a callee is
        # skipped by design: no model, comparison with plain execution only)
        jobs.append((seed * 100000 + 70000 + i, f"names-{seed}-{i}", max_edits, focus, i % 5 != 4, None if tier == "quick" else 12000))
    with cf.ThreadPoolExecutor(max_workers=min(12, C.NPROC)) as ex:
        results = list(ex.map(one_history, jobs))
    n_raw = run_raw(rep)
    classes, steps, renamed = {}, {}, 0
    for res in results:
        if "error" in res:
            rep.violation("harness-error:names-history", "renamed history could not be run: " + res["error"][-300:], res, no_input=True)
            continue
        # non-trivial: something was renamed, and some call after an edit / revert was (partly) served from the store
        nontrivial = res["n_renamed"] > 0 and any(n < max(res["log_lens"]) for n in res["log_lens"][1:])
        rep.case(f"names-hist-{res['seed']}", nontrivial)
        renamed += res["n_renamed"]
        for c in res["classes"]:
            classes[c] = classes.get(c, 0) + 1
        for s in res["steps"]:
            steps[s] = steps.get(s, 0) + 1
        if res["wrong"]:
            w = res["wrong"][0]
            rep.violation("stale:names:" + w["after"],
                          f"renamed pipeline (names: {json.dumps(res['mapping'], ensure_ascii=False)[:400]}): after {w['edit']}, dds returned "
                          f"{w['impl'][:90]} but plain execution gives {w['reference'][:90]} (executed: {w['log']})",
                          {"seed": res["seed"], "mapping": res["mapping"], "steps": res["steps"], "wrong": res["wrong"], "events": res["events"],
                           "run_model": res["with_model"]})
        if res["diffs"]:
            d = res["diffs"][0]
            rep.violation("model-mismatch:names:" + d["diffs"][0][0] + ":" + d["after"],
                          f"renamed pipeline (names: {json.dumps(res['mapping'], ensure_ascii=False)[:400]}): implementation and model disagree "
                          f"at call {d['call']}: {json.dumps(d['diffs'])[:300]}",
                          {"seed": res["seed"], "mapping": res["mapping"], "steps": res["steps"], "diffs": res["diffs"], "events": res["events"],
                           "run_model": True})
        rep.sample(res["sample"], cap=5)
    rep.extra.setdefault("input_distribution", {})["names"] = {
        "renamed_histories": len(results), "without_model": sum(1 for j in jobs if not j[4]), "names_renamed": renamed,
        "histories_by_name_class": classes, "calls_after_edit_of": steps, "calls": sum(r.get("n_actions", 0) for r in results),
        "hand_written_scenarios": n_raw, "wall_s": round(time.time() - t0, 1)}
