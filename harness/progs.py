"""Generated dds pipelines: program specs -> Python packages on disk, -> Coq terms of L3_Sig.Program.fn
(the analysis view, derived from the spec by the rules of DESIGN.md appendix A), random generation and edits.

A program spec:
  {"pkg": "vpk", "modules": {"m0": {"vars": {NAME: enc}, "funcs": [F, ...]}, ...}, "ext_helpers": [...]}
  F = {"name","params":[{"name","default":enc|None}],"annot":path|None,"salt":str,"stmts":[S...],"reads":[VAR...],
       "ext":[names of helpers imported from the non-accepted module], "is_class": False}
  S = {"k":"call","callee":(mod,name),"args":[E],"via":"name"|"attr"|"alias"}
        (a callee with "is_class": True is only ever the callee of a call: rendered `x<i> = g(args).v`)
    | {"k":"keep","path":p,"callee":(mod,name),"pos":[E],"kw":[[n,E]],"layout":"single"|"multi"}
    | {"k":"load","path":p} | {"k":"ref","callee":(mod,name)}
  E = ["lit", enc] | ["param", i] | ["local", i] | ["var", NAME]
"""
import copy
import re
import os

import values as V
from common import hexs

LOGMOD = "vlogmod"      # non-accepted helper module: execution log + higher-order apply
EXTMOD = "vextmod"      # non-accepted module with helper functions / constants


# ----------------------------------------------------------------------------- python values of encodings


def py_repr(e):
    """Python source text of an encoded value (as it appears in generated code)."""
    t = e[0]
    if t == "none":
        return "None"
    if t == "bool":
        return "True" if e[1] else "False"
    if t == "int":
        return str(int(e[1]))
    if t == "float":
        import struct
        return repr(struct.unpack("!d", bytes.fromhex(e[1]))[0])
    if t == "str":
        return repr(bytes.fromhex(e[1]).decode("utf-8"))
    if t == "list":
        return "[" + ", ".join(py_repr(x) for x in e[1]) + "]"
    if t == "tuple":
        return "(" + ", ".join(py_repr(x) for x in e[1]) + ("," if len(e[1]) == 1 else "") + ")"
    if t == "dict":
        return "{" + ", ".join(f"{py_repr(k)}: {py_repr(v)}" for k, v in e[1]) + "}"
    if t == "path":
        return f"PurePosixPath({bytes.fromhex(e[1]).decode()!r})"
    if t == "ppath":
        return f"pathlib.Path({bytes.fromhex(e[1]).decode()!r})"
    raise ValueError(t)


def is_ast_constant(e):
    """Does the source text of this literal parse to a single ast.Constant?"""
    t = e[0]
    if t in ("none", "bool", "str"):
        return True
    if t == "int":
        return int(e[1]) >= 0
    if t == "float":
        return not py_repr(e).startswith("-") and py_repr(e) not in ("nan", "inf")
    return False


TRACKED = ("int", "float", "str", "list", "dict", "path", "ppath", "bool", "none")   # module variables tracked by value (bool / None since fix F18)


def var_is_tracked(e):
    return e[0] in TRACKED


# ----------------------------------------------------------------------------- source rendering


def expr_src(f, e, mod):
    k = e[0]
    if k == "lit":
        return py_repr(e[1])
    if k == "param":
        return f["params"][e[1]]["name"]
    if k == "local":
        return f"x{e[1]}"
    if k == "var":
        return e[1]
    if k == "computed":
        return e[1]
    raise ValueError(k)


def path_src(st):
    """The path argument of a keep / load: a string literal, or the name of a module variable (str or pathlib.Path) that
    the enclosing function then also reads (it is in its "reads")."""
    return st["path_var"] if st.get("path_var") else f'"{st["path"]}"'


def callee_ref(prog, mname, st):
    """How the callee is spelled in module mname, plus the import line needed."""
    cm, cn = st["callee"]
    via = st.get("via", "name")
    if cm == mname:
        return cn, None
    if via == "attr":
        return f"{cm}.{cn}", f"from . import {cm}"
    if via == "alias":
        return f"{cn}_al", f"from .{cm} import {cn} as {cn}_al"
    return cn, f"from .{cm} import {cn}"


def render_function(prog, mname, f):
    """Returns (lines, imports, stmt_lines) where stmt_lines[i] = 1-based line number (within the function source)
    of statement i's call node, and for multi-line keeps also the line of the callee name."""
    lines, imports, info = [], set(), []
    if f.get("annot"):
        lines.append(f'@dds.data_function("{f["annot"]}")')
    ps = ", ".join(p["name"] if p.get("default") is None else f'{p["name"]}={py_repr(p["default"])}' for p in f["params"])
    if f.get("is_class"):
        lines.append(f"class {f['name']}:")
        lines.append(f"    def __init__(self{', ' if ps else ''}{ps}):")
        ind = "        "
    else:
        lines.append(f"def {f['name']}({ps}):")
        ind = "    "
    lines.append(f"{ind}_salt = {f.get('salt', 's0')!r}" + (f"  # {f['comment']}" if f.get("comment") else ""))
    if f.get("doc") is not None:
        # a string literal over several physical lines with '#', quotes and a backslash continuation inside:
        # the body text is hashed as it is written
        lines.append(f'{ind}_doc = """report')
        lines.append(f"# {f['doc']}")
        lines.append(f"rows: 3  # {f['doc']} 'x' \"y\" \\")
        lines.append(f'end # {f["doc"]}"""')
    if f.get("comp"):
        # a comprehension: its variable is local to the comprehension, whatever the module defines under that name
        lines.append(f"{ind}_c = [{f['comp']} * 2 for {f['comp']} in (1, 2, 3)]")
    for i, st in enumerate(f["stmts"]):
        k = st["k"]
        if k == "call":
            ref, imp = callee_ref(prog, mname, st)
            if imp:
                imports.add(imp)
            args = ", ".join(expr_src(f, e, mname) for e in st["args"])
            # a class callee stores its value tuple in self.v: the local holds the tuple, not the instance
            suffix = ".v" if find_func(prog, *st["callee"]).get("is_class") else ""
            lines.append(f"{ind}x{i} = {ref}({args}){suffix}")
            info.append({"line": len(lines)})
        elif k == "ref":
            ref, imp = callee_ref(prog, mname, dict(st, via="name" if st.get("via") != "alias" else "alias"))
            if imp:
                imports.add(imp)
            lines.append(f"{ind}x{i} = {LOGMOD}.apply({ref})")
            info.append({"line": len(lines)})
        elif k == "keep":
            ref, imp = callee_ref(prog, mname, dict(st, via="name" if st.get("via") != "alias" else "alias"))
            if imp:
                imports.add(imp)
            pos = [expr_src(f, e, mname) for e in st["pos"]]
            kw = [f"{n}={expr_src(f, e, mname)}" for n, e in st["kw"]]
            if st.get("layout") == "multi":
                lines.append(f"{ind}x{i} = dds.keep(")
                first = len(lines)
                lines.append(f'{ind}    {path_src(st)},')
                lines.append(f"{ind}    {ref},")
                ref_line = len(lines)
                for a in pos + kw:
                    lines.append(f"{ind}    {a},")
                lines.append(f"{ind})")
                info.append({"line": first, "ref_line": ref_line, "eline": len(lines)})
            else:
                allargs = ", ".join([path_src(st), ref] + pos + kw)
                lines.append(f"{ind}x{i} = dds.keep({allargs})")
                info.append({"line": len(lines), "ref_line": len(lines), "eline": len(lines)})
        elif k == "load":
            lines.append(f'{ind}x{i} = dds.load({path_src(st)})')
            info.append({"line": len(lines)})
        else:
            raise ValueError(k)
    for h in f.get("ext", []):
        imports.add(f"from {EXTMOD} import {h}")
    tag = f["name"]
    for h in f.get("ext", []):
        lines.append(f"{ind}{h}()")
    lines.append(f"{ind}{LOGMOD}.log({tag!r})")
    items = [repr(tag)] + [p["name"] for p in f["params"]] + sorted(f.get("reads", [])) + \
            [f"x{i}" for i in range(len(f["stmts"]))]
    if f.get("is_class"):
        if f.get("raises"):
            lines.append(f"{ind}raise {LOGMOD}.make_exc({f['raises']!r}, {tag!r})")
        lines.append(f"{ind}self.v = ({', '.join(items)},)")
        lines.append("    def get(self):")
        lines.append("        return self.v")
    else:
        if f.get("raises"):
            lines.append(f"{ind}raise {LOGMOD}.make_exc({f['raises']!r}, {tag!r})")
        lines.append(f"{ind}return ({', '.join(items)},)")
    return lines, imports, info


def render_module(prog, mname):
    m = prog["modules"][mname]
    out = ["import dds", f"import {LOGMOD}", "from pathlib import PurePosixPath"]
    if any(v[0] == "ppath" for v in m.get("vars", {}).values()):
        out.append("import pathlib")
    bodies, imports = [], set()
    for f in m["funcs"]:
        lines, imps, _ = render_function(prog, mname, f)
        imports |= imps
        bodies.append(lines)
    out += sorted(imports)
    out.append("")
    for name, e in m.get("vars", {}).items():
        out.append(f"{name} = {py_repr(e)}")
    out.append("")
    for pad in m.get("pre_defs", []):
        out += pad.split("\n") + [""]
    for b in bodies:
        out += b + ["", ""]
    for pad in m.get("post_defs", []):
        out += pad.split("\n") + [""]
    return "\n".join(out) + "\n"


LOGMOD_SRC = '''"""non-accepted helper module of the generated pipelines"""
LOG = []
_EXC = {}
_KIND = {}

def log(tag):
    LOG.append(tag)

def apply(f):
    return f()

def make_exc(kind, tag):
    import builtins
    cls = {"Exception": Exception, "ValueError": ValueError, "KeyboardInterrupt": KeyboardInterrupt,
           "SystemExit": SystemExit, "BaseException": BaseException}.get(kind)
    if cls is not None:
        e = cls("boom-" + tag)
    else:
        # exceptions as the interpreter itself creates them (class, arguments and message are Python's own): a user function that
        # miscalls a helper, reads a missing attribute / key / file, divides by zero, exhausts an iterator, decodes bad bytes
        v = sum(map(ord, tag))
        provoke = {
            "TypeError/missing-argument": lambda: (lambda x, factor: x)(1),
            "TypeError/unexpected-keyword": lambda: (lambda x: x)(1, scale=2),
            "TypeError/multiple-values": lambda: (lambda x, y=0: x)(1, x=2),
            "TypeError/too-many-positional": lambda: (lambda x: x)(1, 2),
            "TypeError/not-callable": lambda: (3)(),
            "TypeError/operand": lambda: "a" + 1,
            "AttributeError": lambda: None.nothing,
            "KeyError": lambda: {}["k-" + tag],
            "IndexError": lambda: [][1],
            "ZeroDivisionError": lambda: 1 / 0,
            "StopIteration": lambda: next(iter(())),
            "FileNotFoundError": lambda: open("/nonexistent-dir/" + tag),
            "UnicodeDecodeError": lambda: b"\\xff".decode("utf-8"),
            "NameError": lambda: eval("undefined_name_" + str(v % 3)),
            "RecursionError": lambda: (lambda f: f(f))(lambda f: f(f)),
        }[kind]
        try:
            provoke()
            raise AssertionError("make_exc: nothing was raised for " + kind)
        except BaseException as ex:  # noqa
            if type(ex).__name__ != kind.split("/")[0]:
                raise
            e = ex.with_traceback(None)
    _KIND[tag] = kind
    _EXC[tag] = e
    return e
'''


def write_package(prog, root):
    """Writes the accepted package, the log module and the external module under root (a sys.path entry)."""
    pdir = os.path.join(root, prog["pkg"])
    os.makedirs(pdir, exist_ok=True)
    open(os.path.join(pdir, "__init__.py"), "w").write("")
    for mname in prog["modules"]:
        open(os.path.join(pdir, mname + ".py"), "w").write(render_module(prog, mname))
    open(os.path.join(root, LOGMOD + ".py"), "w").write(LOGMOD_SRC)
    ext = ['"""non-accepted module: its code must never influence a signature"""']
    for h, body in prog.get("ext_helpers", {}).items():
        ext.append(f"def {h}():\n    return {body!r}\n")
    open(os.path.join(root, EXTMOD + ".py"), "w").write("\n".join(ext) + "\n")


# ----------------------------------------------------------------------------- the analysis view (Coq term)


def find_func(prog, mod, name):
    for f in prog["modules"][mod]["funcs"]:
        if f["name"] == name:
            return f
    raise KeyError((mod, name))


def coq_param(p):
    d = "None" if p.get("default") is None else f"(Some {V.to_coq(p['default'])})"
    return f"(Param {hexs(p['name'])} POK {d})"


def coq_expr(f, e):
    k = e[0]
    if k == "lit":
        return f"(ELit {V.to_coq(e[1])})"
    if k == "param":
        return f"(EParam {e[1]})"
    if k == "local":
        return f"(ELocal {e[1]})"
    if k == "var":
        tracked = [n for n in sorted(f.get("reads", []))]
        return f"(EVar {tracked.index(e[1])})"
    if k == "computed":
        return f"(ELit {V.to_coq(e[2])})"
    raise ValueError(k)


def coq_aarg(e):
    if e[0] == "lit" and is_ast_constant(e[1]):
        return f"(ALit {V.to_coq(e[1])})"
    return "ARun"


def fn_term(prog, mod, name, depth=0):
    """The Coq term of type fn for function (mod, name), derived by the discovery rules of appendix A."""
    if depth > 12:
        raise RecursionError("call graph too deep / cyclic")
    f = find_func(prog, mod, name)
    lines, _, info = render_function(prog, mod, f)
    src_lines = lines + [""]            # inspect.getsource ends with "\n": split gives a trailing ""
    m = prog["modules"][mod]
    # tracked variables / externals, sorted by local name
    vars_, exts = [], []
    for n in sorted(set(f.get("reads", []))):
        e = m["vars"][n]
        if var_is_tracked(e):
            vars_.append((n, e))
        else:
            exts.append((n, f"{prog['pkg']}/{mod}/{n}"))
    exts.append((LOGMOD, LOGMOD))
    for h in f.get("ext", []):
        exts.append((h, f"{EXTMOD}/{h}"))
    exts.sort()
    # interactions, reproducing IntroVisitor's store_names bookkeeping for by-name pseudo calls
    seen = {"_salt"}     # (the function's own name is not pre-seeded since fix 2a32f0d)
    steps = []
    for i, st in enumerate(f["stmts"]):
        k = st["k"]
        seen.add(f"x{i}")
        if k == "load":
            seen.add("dds")
            steps.append(f"SLoad {hexs(st['path'])}")
            continue
        cm, cn = st["callee"]
        callee = fn_term(prog, cm, cn, depth + 1)
        ref, _ = callee_ref(prog, mod, st if k == "call" else dict(st, via="name" if st.get("via") != "alias" else "alias"))
        head = ref.split(".")[0]
        if k == "call":
            seen.add(head)
            args = "[" + "; ".join(coq_expr(f, e) for e in st["args"]) + "]"
            steps.append(f"SCall {info[i]['line']} {info[i]['line']} {callee} {args}")
        elif k == "ref":
            seen.add(LOGMOD)
            if head not in seen:
                seen.add(head)
                steps.append(f"SRef {info[i]['line']} {callee} true")
            else:
                steps.append(f"SApply {callee}")   # a later mention of an already seen name: executed, not analysed
        elif k == "keep":
            seen.add("dds")
            pos = "[" + "; ".join(f"({coq_expr(f, e)}, {coq_aarg(e)})" for e in st["pos"]) + "]"
            kw = "[" + "; ".join(f"({hexs(n)}, ({coq_expr(f, e)}, {coq_aarg(e)}))" for n, e in st["kw"]) + "]"
            steps.append(f"SKeep {info[i]['line']} {info[i]['eline']} {hexs(st['path'])} {callee} {pos} {kw}")
            if head not in seen:
                seen.add(head)
                steps.append(f"SRef {info[i]['ref_line']} {callee} false")
    body = ("(Body [" + "; ".join(f"({hexs(n)}, {V.to_coq(e)})" for n, e in vars_) + "] ["
            + "; ".join(f"({hexs(n)}, {hexs(c)})" for n, c in exts) + "] (steps_of ["
            + "; ".join(f"({s})" for s in steps) + "]))")
    annot = f"(Some {hexs(f['annot'])})" if f.get("annot") else "None"
    params = "[" + "; ".join(coq_param(p) for p in f["params"]) + "]"
    lines_c = "[" + "; ".join(hexs(l) for l in src_lines) + "]"
    raises = f"(Some {hexs(f['raises'])})" if f.get("raises") else "None"
    if f.get("is_class"):
        # one body per method, in source order: __init__ (the statements), then `get`, which only mentions `self`
        # (not a module name: no variable, no external name, no interaction)
        return (f"(Fn {hexs(prog['pkg'] + '/' + mod + '/' + name)} {hexs(name)} {raises} {lines_c} {params} {annot} true "
                f"(bodies_of [{body}; Body [] [] (steps_of [])]))")
    return (f"(Fn {hexs(prog['pkg'] + '/' + mod + '/' + name)} {hexs(name)} {raises} {lines_c} {params} {annot} false "
            f"(bodies_of [{body}]))")


# ----------------------------------------------------------------------------- random generation


# values without the known hash confusions of C05/F03 (no two of them collide); the confusions are exercised by targeted
# scenarios, where they are reported as known findings
VAR_VALUES = [V.i_(0), V.i_(5), V.i_(-3), V.i_(2**40), V.s_("hello"), V.s_(""), V.f_(1.5), ["list", [V.i_(1), V.s_("a")]],
              ["dict", [[V.s_("k"), V.i_(2)]]], ["path", b"a/b".hex()], ["list", [V.i_(5)]], ["bool", True], ["none"], ["path", b"../data/in".hex()]]   # (no False: it is 0 for dds_hash - documented identification)
LIT_VALUES = [V.i_(0), V.i_(7), V.i_(-1), V.s_("z"), V.s_(""), ["none"], ["bool", True], ["bool", False], V.f_(2.5), V.s_("zz")]
DEFAULTS = [V.i_(3), V.i_(0), V.s_("d"), V.s_(""), ["none"], ["bool", False], ["bool", True]]


def contains_keep(prog, mod, name, memo=None):
    f = find_func(prog, mod, name)
    for st in f["stmts"]:
        if st["k"] == "keep":
            return True
        if st["k"] in ("call", "ref") and (find_func(prog, *st["callee"]).get("annot") or contains_keep(prog, *st["callee"])):
            return True
    return False


COMP_VARS = ["w", "n", "item"]
DOC_TITLES = ["Report", "Summary v1", "Weekly # totals"]


def computed_spellings(n):
    """Source texts without names that are not one ast.Constant, with the encoded value each evaluates to (n: int >= 0)."""
    return [(f"+{n}", V.i_(n)), (f"-(-{n})", V.i_(n)), (f"({n} + 0)", V.i_(n)), (f"~{n}", V.i_(-n - 1)), (f"not {n}", ["bool", not n]),
            (f"({n} + 1)", V.i_(n + 1)), (f"-(+{n})", V.i_(-n))]


def decorate_text(prog, rng):
    """Text features of function bodies that do not change what runs: comments, multi-line string literals containing '#',
    comprehensions.  Drawn from a generator of its own so that the shape of the generated programs is unchanged."""
    for m in prog["modules"].values():
        for f in m["funcs"]:
            r = rng.random()
            if r < 0.2:
                f["doc"] = rng.choice(DOC_TITLES)
            elif r < 0.35:
                f["comment"] = rng.choice(["note", "TODO: check 'x' # twice"])
            if rng.random() < 0.2:
                f["comp"] = rng.choice(COMP_VARS)
            # literal arguments written as an expression with an operator (same value, but not one constant for the analysis)
            for st in f["stmts"]:
                for lst in ([st.get("pos"), st.get("args")] + [[kv] for kv in []]):
                    for j, e in enumerate(lst or []):
                        if e[0] == "lit" and e[1][0] == "int" and int(e[1][1]) >= 0 and rng.random() < 0.7:
                            src, val = rng.choice(computed_spellings(int(e[1][1]))[:3])
                            lst[j] = ["computed", src, val]
                for kv in st.get("kw", []) or []:
                    e = kv[1]
                    if e[0] == "lit" and e[1][0] == "int" and int(e[1][1]) >= 0 and rng.random() < 0.7:
                        src, val = rng.choice(computed_spellings(int(e[1][1]))[:3])
                        kv[1] = ["computed", src, val]
    return prog


def gen_program(rng, n_funcs=None, n_mods=None, allow_loads=False, pkg="vpk", allow_classes=False):
    """allow_classes: a plain function that is not the root becomes a class with probability 0.2 (the extra random
    numbers are drawn only then: the programs generated with allow_classes=False are unchanged)."""
    n_funcs = n_funcs or rng.randint(2, 8)
    n_mods = n_mods or rng.randint(1, 3)
    mods = {f"m{i}": {"vars": {}, "funcs": []} for i in range(n_mods)}
    for mn, m in mods.items():
        for j in range(rng.randint(1, 3)):
            m["vars"][f"VAR_{mn.upper()}_{j}"] = rng.choice(VAR_VALUES)
    prog = {"pkg": pkg, "modules": mods, "ext_helpers": {"helper_a": "ha0", "helper_b": "hb0"}}
    funcs = []          # (mod, name)
    used_once = set()   # functions with keeps inside that are already referenced
    npath = [0]

    def new_path():
        npath[0] += 1
        return rng.choice(["/k{}", "/d/k{}", "/d/e/k{}", "/k{}/x"]).format(npath[0])

    mod_idx = 0
    for i in range(n_funcs):
        # imports only go from later to earlier modules (no circular imports)
        mod_idx = min(n_mods - 1, mod_idx + (1 if rng.random() < 0.35 else 0))
        mn = sorted(mods)[mod_idx]
        is_root = i == n_funcs - 1
        is_data = (not is_root and rng.random() < 0.3) or (is_root and rng.random() < 0.25)
        params = []
        if not is_data:
            for j in range(rng.choice([0, 0, 1, 1, 2, 3] if not is_root else [0, 0, 1, 2])):
                d = rng.choice(DEFAULTS) if rng.random() < 0.45 or any(p.get("default") is not None for p in params) else None
                params.append({"name": "abc"[j], "default": d})
        f = {"name": f"f{i}", "params": params, "annot": new_path() if is_data else None, "salt": f"s{i}", "stmts": [],
             "reads": sorted(rng.sample(sorted(mods[mn]["vars"]), rng.randint(0, min(2, len(mods[mn]["vars"]))))),
             "ext": rng.sample(["helper_a", "helper_b"], rng.choice([0, 0, 0, 1]))}
        if allow_classes and not is_root and not is_data and rng.random() < 0.2:
            f["is_class"] = True        # marked at creation: the statements generated later only ever `call` it
        nst = rng.choice([0, 1, 1, 2, 3]) if funcs else 0
        if is_root and funcs:
            nst = max(nst, 2)
        for _ in range(nst):
            cands = [c for c in funcs if c not in used_once]
            if not cands:
                break
            cm, cn = rng.choice(cands)
            g = find_func(prog, cm, cn)
            r = rng.random()

            def arg_expr(allow_rt=True):
                opts = [["lit", rng.choice(LIT_VALUES)]]
                if allow_rt:
                    if params:
                        opts.append(["param", rng.randrange(len(params))])
                    if f["stmts"]:
                        opts.append(["local", rng.randrange(len(f["stmts"]))])
                    if f["reads"]:
                        opts.append(["var", rng.choice(f["reads"])])
                return rng.choice(opts)
            required = [p for p in g["params"] if p.get("default") is None]
            if g.get("is_class"):
                kind = "call"
            elif g.get("annot"):
                kind = "call" if r < 0.8 else "ref"
            elif r < 0.45:
                kind = "keep"
            elif r < 0.85 or required:
                kind = "call"
            else:
                kind = "ref"
            via = rng.choice(["name", "name", "attr", "alias"]) if cm != mn else "name"
            if kind == "keep":
                npos = rng.randint(0, len(g["params"]))
                # all required parameters must be bound: positional first, then keywords for the rest
                pos = [arg_expr() for _ in range(npos)]
                kw = []
                for p in g["params"][npos:]:
                    if p.get("default") is None or rng.random() < 0.4:
                        kw.append([p["name"], arg_expr()])
                rng.shuffle(kw)
                st = {"k": "keep", "path": new_path(), "callee": (cm, cn), "pos": pos, "kw": kw,
                      "layout": "multi" if rng.random() < 0.25 else "single", "via": "alias" if via == "alias" else "name"}
            elif kind == "call":
                nargs = rng.randint(len(required), len(g["params"]))
                st = {"k": "call", "callee": (cm, cn), "args": [arg_expr() for _ in range(nargs)], "via": via}
            else:
                st = {"k": "ref", "callee": (cm, cn), "via": "alias" if via == "alias" else "name"}
            f["stmts"].append(st)
            if not g.get("annot") and (kind == "keep" or contains_keep(prog, cm, cn)):
                used_once.add((cm, cn))
        mods[mn]["funcs"].append(f)
        funcs.append((mn, f["name"]))
    prog["root"] = funcs[-1]
    import random as _random
    decorate_text(prog, _random.Random(rng.random()))
    return prog


def root_call(prog, rng):
    """A top-level call of the root: style and argument values."""
    mod, name = prog["root"]
    f = find_func(prog, mod, name)
    if f.get("annot"):
        style = rng.choice(["direct", "eval"])
        return {"a": "call", "mod": mod, "fn": name, "style": style, "pos": [], "kw": []}
    style = rng.choice(["eval", "keep"])
    pos, kw = [], []
    npos = rng.randint(0, len(f["params"]))
    for p in f["params"][:npos]:
        pos.append(rng.choice(LIT_VALUES))
    for p in f["params"][npos:]:
        if p.get("default") is None or rng.random() < 0.4:
            kw.append([p["name"], rng.choice(LIT_VALUES)])
    act = {"a": "call", "mod": mod, "fn": name, "style": style, "pos": pos, "kw": kw}
    if style == "keep":
        act["path"] = "/root_out"
    return act


# ----------------------------------------------------------------------------- edits


def reachable(prog, mod, name, acc=None):
    acc = acc if acc is not None else []
    if (mod, name) in acc:
        return acc
    acc.append((mod, name))
    for st in find_func(prog, mod, name)["stmts"]:
        if "callee" in st:
            reachable(prog, *st["callee"], acc)
    return acc


def edit_catalogue(prog, rng):
    """All single edits (kind, description, new program).  The program object is deep-copied per edit."""
    out = []
    reach = reachable(prog, *prog["root"])
    for (mod, name) in reach:
        p2 = copy.deepcopy(prog)
        find_func(p2, mod, name)["salt"] += "_e"
        out.append(("body", {"fn": [mod, name]}, p2))
        f = find_func(prog, mod, name)
        if f.get("doc") is not None:
            # only the text after a '#' inside the multi-line string literal changes
            p2 = copy.deepcopy(prog)
            find_func(p2, mod, name)["doc"] = f["doc"] + " (rev)"
            out.append(("body", {"fn": [mod, name], "inside_multiline_string": True}, p2))
        if f.get("comment"):
            p2 = copy.deepcopy(prog)
            find_func(p2, mod, name)["comment"] = f["comment"] + " (seen)"
            out.append(("body", {"fn": [mod, name], "comment_only": True}, p2))
        for vn in f["reads"]:
            p2 = copy.deepcopy(prog)
            old = p2["modules"][mod]["vars"][vn]
            new = rng.choice([v for v in VAR_VALUES if V.canon(v) != V.canon(old)])      # (not a value dds_hash identifies with the old one: bool = int, list = tuple are documented)
            p2["modules"][mod]["vars"][vn] = new
            out.append(("var", {"mod": mod, "name": vn, "value": new, "readers": [[mod, name]]}, p2))
        for i, st in enumerate(f["stmts"]):
            if st["k"] == "keep":
                for j, e in enumerate(st["pos"]):
                    if e[0] == "lit":
                        p2 = copy.deepcopy(prog)
                        new = rng.choice([v for v in LIT_VALUES if V.canon(v) != V.canon(e[1])])
                        find_func(p2, mod, name)["stmts"][i]["pos"][j] = ["lit", new]
                        out.append(("literal", {"fn": [mod, name], "stmt": i, "pos": j}, p2))
                    elif e[0] == "computed" and e[1][0] in "+-~":
                        # only the operator changes (+n / ~n / -(+n)): another value is bound
                        p2 = copy.deepcopy(prog)
                        n = int(re.sub(r"[^0-9]", "", e[1]) or "0")
                        src, val = [(s_, v_) for s_, v_ in computed_spellings(n) if v_ != e[2] and s_[0] in "~-" and s_ != e[1]][0]
                        find_func(p2, mod, name)["stmts"][i]["pos"][j] = ["computed", src, val]
                        out.append(("literal", {"fn": [mod, name], "stmt": i, "pos": j, "operator_only": True}, p2))
            elif st["k"] == "call":
                # a literal argument of a PLAIN call (also one that binds a parameter with a default: finding F30)
                for j, e in enumerate(st["args"]):
                    if e[0] == "lit":
                        p2 = copy.deepcopy(prog)
                        new = LIT_VALUES[(LIT_VALUES.index(e[1]) + 1 + j) % len(LIT_VALUES)] if e[1] in LIT_VALUES else LIT_VALUES[0]
                        if V.canon(new) == V.canon(e[1]):
                            new = LIT_VALUES[(LIT_VALUES.index(new) + 1) % len(LIT_VALUES)]
                        find_func(p2, mod, name)["stmts"][i]["args"][j] = ["lit", new]
                        out.append(("literal", {"fn": [mod, name], "stmt": i, "arg": j, "plain_call": True}, p2))
    # edits outside every cone
    p2 = copy.deepcopy(prog)
    m0 = sorted(p2["modules"])[0]
    p2["modules"][m0].setdefault("pre_defs", []).append("def unrelated_pre():\n    return 41")
    p2["modules"][m0].setdefault("post_defs", []).append("UNRELATED_CONST = 99\n\ndef unrelated_post(q):\n    return q + 1")
    out.append(("unrelated-defs", {"mod": m0}, p2))
    p2 = copy.deepcopy(prog)
    for m in p2["modules"].values():
        m["funcs"] = list(reversed(m["funcs"]))
    out.append(("reorder", {}, p2))
    # a module-level variable (and a function using it) named like the variable of a comprehension in a reachable function:
    # the comprehension does not read it
    for (mod, name) in reach:
        cv = find_func(prog, mod, name).get("comp")
        if cv and cv not in prog["modules"][mod]["vars"]:
            p2 = copy.deepcopy(prog)
            p2["modules"][mod]["vars"][cv] = V.f_(0.5)
            p2["modules"][mod].setdefault("post_defs", []).append(f"def weighted_{cv}(q):\n    return {cv} * q")
            out.append(("unrelated-defs", {"mod": mod, "shadowed_by_comprehension_variable": cv}, p2))
            break
    p2 = copy.deepcopy(prog)
    p2["ext_helpers"] = {k: v + "_e" for k, v in p2["ext_helpers"].items()}
    out.append(("non-accepted-code", {}, p2))
    # unread variable
    for mod, m in prog["modules"].items():
        readers = {v for f in m["funcs"] for v in f["reads"]}
        for vn in m["vars"]:
            if vn not in readers:
                p2 = copy.deepcopy(prog)
                p2["modules"][mod]["vars"][vn] = rng.choice([v for v in VAR_VALUES if V.canon(v) != V.canon(m["vars"][vn])])
                out.append(("unread-var", {"mod": mod, "name": vn}, p2))
                break
    return out


def move_module(prog, old, new):
    """The same code placed in another module of the accepted package (C02: copied to another accepted module)."""
    p2 = copy.deepcopy(prog)
    p2["modules"][new] = p2["modules"].pop(old)
    for m in p2["modules"].values():
        for f in m["funcs"]:
            for st in f["stmts"]:
                if "callee" in st and st["callee"][0] == old:
                    st["callee"] = (new, st["callee"][1])
    if p2["root"][0] == old:
        p2["root"] = (new, p2["root"][1])
    return p2


def kept_only_functions(prog):
    """Functions whose body runs only through a keep or as a data function (never through a plain call)."""
    kept, plain = set(), set()
    for (m, n) in reachable(prog, *prog["root"]):
        f = find_func(prog, m, n)
        if f.get("annot"):
            kept.add((m, n))
        for st in f["stmts"]:
            if st["k"] == "keep":
                kept.add(tuple(st["callee"]))
            elif st["k"] in ("call", "ref") and not find_func(prog, *st["callee"]).get("annot"):
                plain.add(tuple(st["callee"]))
    return kept - plain


# ----------------------------------------------------------------------------- syntax view (Coq term of L2_Disc.MiniPy.mfn)
# Pure transcription of what render_function prints.  The analysis view is derived from it IN COQ by
# L2_Disc/Visitors.v:discover; check_discover compares that derivation with fn_term above.


def coq_mexpr(e):
    k = e[0]
    if k == "lit":
        return f"(MLit {V.to_coq(e[1])})"
    if k == "param":
        return f"(MParam {e[1]})"
    if k == "local":
        return f"(MLocal {e[1]})"
    if k == "var":
        return f"(MVar {hexs(e[1])})"
    if k == "computed":
        return f"(MComputed {V.to_coq(e[2])})"
    raise ValueError(k)


def coq_spelling(prog, mname, st):
    """The callee expression as render_function prints it (keep / ref statements never use the attribute form)."""
    if st["k"] != "call":
        st = dict(st, via="name" if st.get("via") != "alias" else "alias")
    ref, _ = callee_ref(prog, mname, st)
    cm, cn = st["callee"]
    via = st.get("via", "name")
    if cm != mname and via == "attr":
        assert ref == f"{cm}.{cn}"
        return f"(SpAttr {hexs(cm)} {hexs(cn)})"
    if cm != mname and via == "alias":
        return f"(SpAlias {hexs(ref)})"
    assert ref == cn
    return f"(SpName {hexs(ref)})"


def mfn_term(prog, mod, name, depth=0):
    """The Coq term of type MiniPy.mfn for function (mod, name): its text, the line numbers of its statements, the
    names it mentions.  No decision of the analysis is taken here."""
    if depth > 12:
        raise RecursionError("call graph too deep / cyclic")
    f = find_func(prog, mod, name)
    lines, _, info = render_function(prog, mod, f)
    src_lines = lines + [""]            # inspect.getsource ends with "\n": split gives a trailing ""
    m = prog["modules"][mod]
    stmts = []
    for i, st in enumerate(f["stmts"]):
        k = st["k"]
        if k == "load":
            stmts.append(f"MLoad {hexs(st['path'])}")
            continue
        callee = mfn_term(prog, st["callee"][0], st["callee"][1], depth + 1)
        sp = coq_spelling(prog, mod, st)
        if k == "call":
            args = "[" + "; ".join(coq_mexpr(e) for e in st["args"]) + "]"
            stmts.append(f"MCall {info[i]['line']} {sp} {callee} {args}")
        elif k == "ref":
            stmts.append(f"MApply {info[i]['line']} {sp} {callee}")
        elif k == "keep":
            pos = "[" + "; ".join(coq_mexpr(e) for e in st["pos"]) + "]"
            kw = "[" + "; ".join(f"({hexs(n)}, {coq_mexpr(e)})" for n, e in st["kw"]) + "]"
            stmts.append(f"MKeep {info[i]['line']} {info[i]['eline']} {info[i]['ref_line']} {hexs(st['path'])} {sp} {callee} {pos} {kw}")
        else:
            raise ValueError(k)
    modvars = "[" + "; ".join(
        f"({hexs(n)}, ({'true' if var_is_tracked(m['vars'][n]) else 'false'}, {V.to_coq(m['vars'][n])}, "
        f"{hexs(prog['pkg'] + '/' + mod + '/' + n)}))" for n in f.get("reads", [])) + "]"
    helpers = "[" + "; ".join(f"({hexs(n)}, {hexs(c)})" for n, c in
                              [(LOGMOD, LOGMOD)] + [(h, f"{EXTMOD}/{h}") for h in f.get("ext", [])]) + "]"
    annot = f"(Some {hexs(f['annot'])})" if f.get("annot") else "None"
    params = "[" + "; ".join(coq_param(p) for p in f["params"]) + "]"
    lines_c = "[" + "; ".join(hexs(l) for l in src_lines) + "]"
    raises = f"(Some {hexs(f['raises'])})" if f.get("raises") else "None"
    is_class = "true" if f.get("is_class") else "false"
    return (f"(MFn {hexs(prog['pkg'] + '/' + mod + '/' + name)} {hexs(name)} {raises} {lines_c} {params} {annot} {is_class} "
            f"{modvars} {helpers} [" + "; ".join(f"({s})" for s in stmts) + "])")


DISCOVER_PRELUDE = """From Coq Require Import List String ZArith NArith Bool.
From DDS Require Import Base.Bytes L0_Hash.PyVal L1_Args.ArgCtx L2_Disc.MiniPy L3_Sig.Program L2_Disc.Visitors L2_Disc.DiscCheck.
Import ListNotations.
Open Scope string_scope.
"""

# literals / variable values outside the generator's usual alphabet: every branch of is_ast_constant, untracked types
STRESS_LITS = [V.f_(-0.0), V.f_(0.0), V.f_(float("nan")), V.f_(float("inf")), V.f_(float("-inf")), V.f_(-2.5), V.f_(1e300),
               V.f_(5e-324), V.f_(-1e-300), V.i_(-5), V.i_(2**70), V.i_(-(2**70)), ["list", [V.i_(1)]], ["tuple", [V.i_(1), V.s_("a")]],
               ["tuple", []], ["dict", [[V.s_("k"), V.i_(2)]]], ["path", b"a/b".hex()], V.s_("é\n'\"")]
STRESS_VARS = [["tuple", [V.i_(1), V.i_(2)]], ["tuple", []], ["other", "set"], ["date", "datetime.date(2020, 1, 2)"]]


def _stress(prog, rng):
    """Mutations that keep the program inside the grammar of render_function / fn_term but reach rarely generated
    shapes: dds.load statements anywhere, literals that are not ast.Constants, variables of untracked types,
    repeated by-name mentions of one function (apply / keep / call in every order), helpers, raises."""
    p = copy.deepcopy(prog)
    mods = sorted(p["modules"])
    for mn in mods:
        m = p["modules"][mn]
        for vn in list(m["vars"]):
            if rng.random() < 0.3:
                m["vars"][vn] = rng.choice(STRESS_VARS)
        if rng.random() < 0.5:
            m["vars"]["A_" + mn] = rng.choice(STRESS_VARS + VAR_VALUES)
            m["vars"]["x0"] = rng.choice(VAR_VALUES)
        for f in m["funcs"]:
            extra = [v for v in m["vars"] if v not in f["reads"]]
            if extra and rng.random() < 0.5:
                f["reads"] = f["reads"] + rng.sample(extra, rng.randint(1, len(extra)))     # not sorted on purpose
                rng.shuffle(f["reads"])
            if rng.random() < 0.3:
                f["ext"] = rng.sample(["helper_a", "helper_b", "aaa_helper"], rng.randint(1, 3))
            if rng.random() < 0.2:
                kind_exc = rng.choice(["ValueError", "Exception"])
                if not f.get("is_class"):       # (a class never raises: its value is what __init__ stores in self.v)
                    f["raises"] = kind_exc
            # more mentions of functions that are already mentioned (or of any earlier plain function)
            for _ in range(rng.choice([0, 0, 1, 2, 3])):
                cands = [tuple(st["callee"]) for st in f["stmts"] if "callee" in st]
                if not cands:
                    break
                cm, cn = rng.choice(cands)
                g = find_func(p, cm, cn)
                kind = rng.choice(["ref", "ref", "keep", "call"])
                via = rng.choice(["name", "attr", "alias"])
                if g.get("is_class"):
                    kind = "call"               # a class is only ever called
                if kind == "call":
                    st = {"k": "call", "callee": (cm, cn), "args": [["lit", rng.choice(LIT_VALUES + STRESS_LITS)] for _ in g["params"]], "via": via}
                elif kind == "keep":
                    st = {"k": "keep", "path": f"/s{rng.randrange(10**6)}", "callee": (cm, cn),
                          "pos": [["lit", rng.choice(STRESS_LITS + LIT_VALUES)] for _ in g["params"][:rng.randint(0, len(g["params"]))]],
                          "kw": [], "layout": rng.choice(["single", "multi"]), "via": "alias" if via == "alias" else "name"}
                else:
                    st = {"k": "ref", "callee": (cm, cn), "via": "alias" if via == "alias" else "name"}
                _insert_stmt(f, rng.randint(0, len(f["stmts"])), st)
            for _ in range(rng.choice([0, 0, 1, 2])):
                _insert_stmt(f, rng.randint(0, len(f["stmts"])), {"k": "load", "path": f"/l{rng.randrange(100)}"})
            for st in f["stmts"]:
                for key in ("args", "pos"):
                    for j, e in enumerate(st.get(key, [])):
                        if rng.random() < 0.3:
                            st[key][j] = ["lit", rng.choice(STRESS_LITS)]
                        elif rng.random() < 0.2 and f["reads"]:
                            st[key][j] = ["var", rng.choice(f["reads"])]
                for j, (n, e) in enumerate(st.get("kw", [])):
                    if rng.random() < 0.3:
                        st["kw"][j] = [n, ["lit", rng.choice(STRESS_LITS)]]
    return p


def _insert_stmt(f, pos, st):
    """Insert a statement at position pos, renumbering the references to later locals."""
    for s in f["stmts"]:
        for e in s.get("args", []) + s.get("pos", []) + [e for _, e in s.get("kw", [])]:
            if e[0] == "local" and e[1] >= pos:
                e[1] += 1
    f["stmts"].insert(pos, st)


def discover_cases(n_programs, seed):
    """(label, prog, mod, name) for every function of: n random programs, their stressed variants, n/2 random programs
    with classes (own random stream: the first group is what it was before classes existed) and their stressed
    variants, the C09 load matrix, the C01 targeted scenarios."""
    import random
    rng = random.Random(seed)
    progs_ = []
    for k in range(n_programs):
        p = gen_program(rng, allow_loads=bool(k % 2))
        progs_.append((f"gen{k}", p))
        progs_.append((f"stress{k}", _stress(p, rng)))
    rng_c = random.Random(f"classes-{seed}")
    k = 0
    while k < (n_programs + 1) // 2:
        p = gen_program(rng_c, allow_classes=True)
        if not any(f.get("is_class") for m in p["modules"].values() for f in m["funcs"]):
            continue
        progs_.append((f"cls{k}", p))
        progs_.append((f"cls-stress{k}", _stress(p, rng_c)))
        k += 1
    import c09
    for pl in c09.PLACEMENTS:
        for pr in c09.PRODUCERS:
            for ap in (False, True):
                for nl in (1, 2):
                    progs_.append((f"c09:{pl}:{pr}:{ap}:{nl}", c09.build(pl, pr, ap, nl)))
    import c01_targeted
    for label, mk in c01_targeted.SCENARIOS:
        for j, (kind, obj) in enumerate(mk()):
            if kind == "prog":
                progs_.append((f"c01:{label}:{j}", obj))
    cases = []
    for label, p in progs_:
        for mn in sorted(p["modules"]):
            for f in p["modules"][mn]["funcs"]:
                cases.append((label, p, mn, f["name"]))
    return len(progs_), cases


def check_discover(n_programs=300, seed=1, shard=100, verbose=True):
    """Compares, inside Coq, `discover (<syntax term>)` with the analysis view derived by fn_term, for every function
    of the programs of discover_cases.  Returns the list of mismatches [(label, mod, name, message)]."""
    from common import coq_eval_strings
    nprog, cases = discover_cases(n_programs, seed)
    exprs, kept = [], []
    for (label, p, mn, fname) in cases:
        try:
            exprs.append(f"check_same {mfn_term(p, mn, fname)} {fn_term(p, mn, fname)}")
            kept.append((label, mn, fname))
        except RecursionError:
            pass
    res = coq_eval_strings(DISCOVER_PRELUDE, exprs, shard=shard, timeout=1800, label="discover")
    bad = [(l, m, n, r) for (l, m, n), r in zip(kept, res) if r != "ok"]
    if verbose:
        nst = sum(len(find_func(p, mn, fn)["stmts"]) for (_, p, mn, fn) in cases)
        print(f"check_discover: programs={nprog} functions compared={len(kept)} statements={nst} "
              f"coqc calls={(len(exprs) + shard - 1) // shard} mismatches={len(bad)}")
        for b in bad[:20]:
            print("  MISMATCH", b)
    return bad
