"""Implementation driver for C10, thread dimension: one process runs one segment of a history of evaluations of a generated
pipeline whose kept steps are reached from other threads than the one that called dds.eval, and one of whose functions
raises (c10_threads.py writes the package and the log module vfaillog.py).
stdin: {"root": dir with the package + vfaillog.py, "pkg": name, "store": {...}, "paths": [every path the pipeline keeps],
        "kind": exception class raised by the failing function, "fail": [names of functions that raise when they are asked to],
        "actions": [...], "nodds": bool}
Each action:
  {"a":"call","fn":f,"style":"eval"|"direct","caller":"main"|"thread"}
  {"a":"setvar","name":n,"value":int}
  {"a":"setfail","fail":[names]}        the cause of the failure (outside the code dds sees) appears / disappears
  {"a":"loads"}                         dds.load of every path of the pipeline, one outcome per path
  {"a":"observe"}                       the store seen without this process: every link / file under the data directory of a
                                        local store (raw listing) and dds.load of every path from a fresh process
Output per action: outcome (user exceptions with their identity), execution log [[tag, "caller"|"other"]...], recorded store
calls (with the kind of thread that made them), the committed paths (path -> key), the blob keys and the raw content of the
data directory before and after the action, and whether an evaluation is still considered in progress afterwards, on the
calling thread and on the threads of the pool that outlives the evaluation (observed by behaviour: a dds.eval restricted
to the analysis is refused inside an evaluation; dds internals are not read)."""
import importlib
import json
import os
import subprocess
import sys
import threading

sys.path.insert(0, os.path.dirname(os.path.abspath(__file__)))
from drive_c15_threads import install_fake_dds, on_thread, blob_keys, committed  # noqa: E402

LOGMOD = "vfaillog"


def raw_entries(cfg):
    """Every file / link below the data directory of a local store, with the blob a link refers to (None: no such directory)."""
    if cfg["kind"] not in ("local", "local+lru"):
        return None
    out = []
    for d, dirs, files in os.walk(cfg["data_dir"]):
        for n in list(dirs) + list(files):
            p = os.path.join(d, n)
            if os.path.islink(p):
                out.append([os.path.relpath(p, cfg["data_dir"]), os.path.basename(os.readlink(p))])
            elif not os.path.isdir(p):
                out.append([os.path.relpath(p, cfg["data_dir"]), "file"])
    return sorted(out)


def fresh_process_loads(payload):
    """dds.load of every path by a new process that opens the same store."""
    if payload["store"]["kind"] not in ("local", "local+lru"):
        return None
    sub = dict(payload, actions=[{"a": "loads"}], fail=[])
    p = subprocess.run([sys.executable, os.path.abspath(__file__)], input=json.dumps(sub), stdout=subprocess.PIPE, stderr=subprocess.STDOUT,
                       text=True, timeout=300)
    lines = [l for l in p.stdout.splitlines() if l.startswith("@@RESULT@@")]
    if not lines:
        raise RuntimeError("observer process failed: " + p.stdout[-1500:])
    return json.loads(lines[-1][len("@@RESULT@@"):])[0]["loads"]


def main():
    payload = json.load(sys.stdin)
    sys.path.insert(0, payload["root"])
    nodds = bool(payload.get("nodds"))
    if nodds:
        dds = install_fake_dds()
        canon = importlib.import_module("drive_prog").canon
    else:
        import dds
        from drive_prog import canon, make_store, exc_desc
    logmod = importlib.import_module(LOGMOD)
    logmod.KIND = payload.get("kind", "ValueError")
    logmod.FAIL = set(payload.get("fail", []))
    mod = importlib.import_module(payload["pkg"] + ".pipe")
    rec, inner = [], None
    if not nodds:
        dds.accept_module(payload["pkg"])
        store = make_store(payload["store"], rec)
        inner = store.inner
        # the recording layer also notes which thread made each call of the store
        orig_sync, orig_put = store.sync_paths, store.store_blob

        def sync_paths(paths):
            logmod.STORE_THREADS.append(["sync", threading.get_ident()])
            return orig_sync(paths)

        def store_blob(key, blob, codec=None):
            logmod.STORE_THREADS.append(["put", threading.get_ident()])
            return orig_put(key, blob, codec)
        store.sync_paths, store.store_blob = sync_paths, store_blob
        dds.set_store(store)

    def describe(e):
        if nodds:
            if type(e).__name__ == "DDSException":
                return "dds:NONE"
            ident = "".join(":same-object:" + tag for tag, ex in logmod._EXC.items() if ex is e)
            return "exc:" + type(e).__name__ + ident
        return exc_desc(e, logmod)

    def in_evaluation():
        """Is dds inside an evaluation as seen from the current thread?  By behaviour only."""
        try:
            dds.eval(mod.idle, dds_stages=["analysis"])
            return False
        except BaseException as e:  # noqa
            return describe(e)

    def in_evaluation_on_pool():
        """The same question on both threads of the pool that outlives the evaluations (one at a time)."""
        if logmod._POOL is None:
            return []
        bar, lock = threading.Barrier(2), threading.Lock()

        def p():
            try:
                bar.wait(10)
            except threading.BrokenBarrierError:
                pass
            with lock:
                return in_evaluation()
        return [f.result() for f in [logmod._POOL.submit(p) for _ in range(2)]]

    out = []
    for act in payload["actions"]:
        del rec[:]
        del logmod.LOG[:]
        del logmod.STORE_THREADS[:]
        res = {}
        caller = {"ident": threading.get_ident()}
        if not nodds:
            res["paths_before"] = committed(inner, payload["paths"])
            res["blobs_before"] = blob_keys(inner, payload["store"])
            res["raw_before"] = raw_entries(payload["store"])
        try:
            if act["a"] == "call":
                fn = getattr(mod, act["fn"])

                def go():
                    caller["ident"] = threading.get_ident()
                    return fn() if act.get("style") == "direct" else dds.eval(fn)
                r = on_thread(go) if act.get("caller") == "thread" else go()
                res["out"] = "ok:" + canon(r)
            elif act["a"] == "setvar":
                setattr(mod, act["name"], act["value"])
                res["out"] = "ok:N"
            elif act["a"] == "setfail":
                logmod.FAIL = set(act["fail"])
                res["out"] = "ok:N"
            elif act["a"] == "loads":
                vals = []
                for p in payload["paths"]:
                    try:
                        vals.append("ok:" + canon(dds.load(p)))
                    except BaseException as e:  # noqa
                        vals.append(describe(e).split(":")[0] + ":")
                res["out"] = "ok:N"
                res["loads"] = vals
            elif act["a"] == "observe":
                res["out"] = "ok:N"
                if not nodds:
                    res["fresh_loads"] = fresh_process_loads(payload)
            else:
                raise ValueError(act["a"])
        except BaseException as e:  # noqa
            res["out"] = describe(e)
            import traceback
            res["tb"] = traceback.format_exc()[-600:]
        logmod.quiesce()
        kind = lambda i: "caller" if i == caller["ident"] else "other"  # noqa
        res["log"] = [[t, kind(i)] for t, i in logmod.LOG]
        if not nodds:
            res["rec"] = [list(r) for r in rec]
            res["store_threads"] = [[w, kind(i)] for w, i in logmod.STORE_THREADS]
            res["paths_after"] = committed(inner, payload["paths"])
            res["blobs_after"] = blob_keys(inner, payload["store"])
            res["raw_after"] = raw_entries(payload["store"])
            if act["a"] == "call":
                # asked last: the snapshots above are those of the action alone
                res["in_eval"] = [x for x in [in_evaluation()] + in_evaluation_on_pool() if x]
        out.append(res)
    print("@@RESULT@@" + json.dumps(out))


if __name__ == "__main__":
    main()
