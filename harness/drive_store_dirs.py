"""Implementation driver for C08 histories on stores opened on directories of various SHAPES: the operation sequences of
drive_store.py, run on a LocalFileStore (or DBFSStore over the fake dbutils) whose internal / data directory is named in a given
way (relative, trailing slash, nested not yet existing, reached through a symbolic link of the directory or of an ancestor,
names with spaces / unicode / dots ...), optionally by TWO store objects that name the same directories in two ways and share
one history (every operation says which of the two performs it).
stdin: {"seqs":[{"store":"local"|"dbfs-full", "cap":"bare"|int, "ops":[...], "who":[0|1 per op] | absent,
                 "dirs":{"internal": name, "data": name, "reader": {"internal": how, "data": how} | absent}}]}
local names: a string in which @BASE@ stands for the (fresh, physical) base directory of the history and @BASENAME@ for its
last component; a relative name is resolved where the store is created, i.e. in the base directory, whatever the working
directory of the process is later.  The base directory is prepared with the layout of LAYOUT (the one of harness/c16.py,
extended).  'how' of the second store object: "same" | "real" (the physical path) | "via-link" (a new symbolic link to the
physical directory) | "relative" (relative to the base directory) | "trailing-slash" | "dot-segment".
DBFS names: URIs; the reader gives explicit URIs.
extra ops: ["reopen"]: new store object(s) from the same names, created in the base directory (a second process with the same
configuration); ["chdir"]: the working directory of the process moves (to <base>/elsewhere/deep, then back, ...): the existing
store objects must keep working.
-> per sequence {"outs": [...], "outside": [files / links created neither inside the physical data directory nor inside the
physical internal directory], "names": what each store object was opened on, "physical": {"internal", "data"}}"""
import json
import os
import shutil
import sys
import tempfile


def layout(base):
    """the directory tree the shapes refer to (see c16.run_case), plus relative / chained links and a pre-existing sibling"""
    os.makedirs(os.path.join(base, "real_parent"))
    os.makedirs(os.path.join(base, "elsewhere", "deep"))
    os.symlink(os.path.join(base, "real_parent"), os.path.join(base, "lnk"))
    os.makedirs(os.path.join(base, "vol", "disk1", "proj", "sub"))
    os.symlink(os.path.join(base, "vol", "disk1", "proj"), os.path.join(base, "lnk_deep"))
    for nm in ("int", "dat"):
        os.makedirs(os.path.join(base, "pre_" + nm))
        os.makedirs(os.path.join(base, "targets", "x", "y", nm))
        os.symlink(os.path.join(base, "targets", "x", "y", nm), os.path.join(base, "sl_" + nm))
        # a link with a relative target, a chain of two links
        os.makedirs(os.path.join(base, "targets", "x", "y", "r_" + nm))
        os.symlink(os.path.join("targets", "x", "y", "r_" + nm), os.path.join(base, "rsl_" + nm))
        os.makedirs(os.path.join(base, "targets", "x", "c_" + nm))
        os.symlink(os.path.join(base, "targets", "x", "c_" + nm), os.path.join(base, "ch2_" + nm))
        os.symlink("ch2_" + nm, os.path.join(base, "ch_" + nm))


def entries(top):
    """every directory entry under top (links are not followed)"""
    res = set()
    for d, dirs, files in os.walk(top):
        for f in files + dirs:
            res.add(os.path.join(d, f))
    return res


def physical(fp):
    """where the entry itself (not its target, if it is a link) is"""
    return os.path.join(os.path.realpath(os.path.dirname(fp)), os.path.basename(fp))


def rename(how, name, base, tag, made):
    """another name of the existing directory `name` (resolved in the base directory)"""
    ab = os.path.abspath(os.path.join(base, name))
    if how == "same":
        return name
    if how == "real":
        return os.path.realpath(ab)
    if how == "via-link":
        lk = os.path.join(base, "alias_" + tag)
        os.symlink(os.path.realpath(ab), lk)
        made.add(lk)
        return lk
    if how == "relative":
        return os.path.relpath(os.path.realpath(ab), base)
    if how == "trailing-slash":
        return name.rstrip("/") + "/"
    if how == "dot-segment":
        return os.path.join(os.path.dirname(ab.rstrip("/")), ".", os.path.basename(ab.rstrip("/")), ".")
    raise ValueError(how)


class Local(object):
    def __init__(self, spec):
        self.base = os.path.realpath(tempfile.mkdtemp(prefix="drvdirs_"))
        layout(self.base)
        sub = lambda s: s.replace("@BASENAME@", os.path.basename(self.base)).replace("@BASE@", self.base)
        self.names = [{"internal": sub(spec["internal"]), "data": sub(spec["data"])}]
        self.reader = spec.get("reader")
        self.made = set()
        self.before = entries(self.base)
        self.phys = None

    def open(self):
        """the store objects, created in the base directory"""
        from dds.store import LocalFileStore
        cwd = os.getcwd()
        os.chdir(self.base)
        try:
            n0 = self.names[0]
            stores = [LocalFileStore(n0["internal"], n0["data"])]
            if self.phys is None:
                self.phys = {k: os.path.realpath(os.path.abspath(n0[k])) for k in ("internal", "data")}
            if self.reader:
                if len(self.names) == 1:
                    self.names.append({k: rename(self.reader[k], n0[k], self.base, k, self.made) for k in ("internal", "data")})
                n1 = self.names[1]
                stores.append(LocalFileStore(n1["internal"], n1["data"]))
            return stores
        finally:
            os.chdir(cwd)

    def chdir(self, away):
        os.chdir(os.path.join(self.base, "elsewhere", "deep") if away else self.base)

    def outside(self):
        res = []
        for fp in sorted(entries(self.base) - self.before - self.made):
            if os.path.isdir(fp) and not os.path.islink(fp):
                continue
            ph = physical(fp)
            if not any(ph.startswith(self.phys[k] + os.sep) for k in ("internal", "data")):
                res.append(os.path.relpath(ph, self.base))
        return res

    def close(self):
        os.chdir("/")
        shutil.rmtree(self.base, ignore_errors=True)


class Dbfs(object):
    def __init__(self, spec):
        import fake_dbutils
        self.dbu = fake_dbutils.FakeDbutils()
        self.names = [{"internal": spec["internal"], "data": spec["data"]}]
        if spec.get("reader"):
            self.names.append(dict(spec["reader"]))
        self.phys = {k: self.names[0][k].rstrip("/") for k in ("internal", "data")}
        self.base = tempfile.mkdtemp(prefix="drvdirs_")

    def open(self):
        from dds.codecs.databricks import DBFSStore, DBFSURI, CommitType
        return [DBFSStore(DBFSURI.parse(n["internal"]), DBFSURI.parse(n["data"]), self.dbu, CommitType.FULL) for n in self.names]

    def chdir(self, away):
        os.chdir(tempfile.gettempdir() if away else self.base)

    def outside(self):
        return sorted(u for u in self.dbu.fs.files if u.startswith("dbfs:") and not any(u.startswith(self.phys[k] + "/") for k in ("internal", "data")))

    def close(self):
        os.chdir("/")
        shutil.rmtree(self.base, ignore_errors=True)


def main():
    import drive_store as DS
    from dds._lru_store import LRUCacheStore
    payload = json.load(sys.stdin)
    res = []
    for s in payload["seqs"]:
        env = (Local if s["store"] == "local" else Dbfs)(s["dirs"])
        try:
            cap = s["cap"]
            wrap = (lambda st: st) if cap == "bare" else (lambda st: LRUCacheStore(st, num_elem=cap))
            who = s.get("who") or [0] * len(s["ops"])
            outs, away, stores, failed = [], False, None, None
            for op, w in zip([["reopen"]] + s["ops"], [0] + who):
                if op[0] == "reopen":
                    try:
                        stores = [wrap(st) for st in env.open()]
                    except BaseException as e:  # noqa  (the store cannot be opened on these directories)
                        failed = f"store object {len(outs)}: {type(e).__name__}: {str(e)[:300]}"
                        break
                    outs.append("U")
                elif op[0] == "chdir":
                    away = not away
                    env.chdir(away)
                    outs.append("U")
                else:
                    outs.append(DS.do(stores[w % len(stores)], op))
            entry = {"outs": outs[1:], "names": env.names, "physical": env.phys}
            if failed is not None:
                entry["open_error"] = failed
            else:
                entry["outside"] = env.outside()
            res.append(entry)
        finally:
            env.close()
    print("@@RESULT@@" + json.dumps({"seqs": res}))


if __name__ == "__main__":
    sys.path.insert(0, os.path.dirname(os.path.abspath(__file__)))
    main()
