"""Implementation driver for C17, the READING process's registry: one process = one registry.  A writer process registers user codecs under
given references and writes values with them (store_blob with the reference, then sync_paths); reader processes register what their class says
and read through store.fetch_blob and through dds.load.
stdin: {"dir": ..., "store": "local" | "dbfs", "steps": [...]}; the DBFS store runs over the in-process fake dbutils whose files are saved in
<dir>/dbfs.files at the end of a process that wrote and loaded again by the next ones.
Steps: {"register": {"kind": "file"|"codec", "ref", "type", "impl": "own"|"other"}}, {"store": spec, "key", "ref", "path"}, {"fetch": spec, "key"},
{"load": spec, "path"}.  Results: 'U' | 'S:<reference in the metadata>' | 'F:...' / 'L:...' with 'equal' | 'DIFFERENT:...' | 'OTHER:<ref>' (decoded by
the codec 'other' bound to <ref>) | 'E:<DDS error code>' | 'X:<exception>'."""
import json
import os
import pickle
import sys

sys.path.insert(0, os.path.dirname(os.path.abspath(__file__)))
import drive_codec as DC  # noqa: E402


class DecodedBy(object):
    """what the codec 'other' returns: it says which codec decoded the blob"""

    def __init__(self, ref):
        self.ref = ref

    def __repr__(self):
        return f"DecodedBy({self.ref!r})"


def _types(tname):
    from dds.structures import SupportedType
    from dds.structures_utils import SupportedTypeUtils as STU
    if tname == "frame":
        import pandas
        return [STU.from_type(pandas.DataFrame)]
    if tname == "object":
        return [SupportedType("object")]
    return [STU.from_type({"str": str, "bytes": bytes, "user": DC.UserThing, "none": type(None), "int": int}[tname])]


def encode(ref, blob):
    """The format of the user codecs.  It is its own format (the value is only recovered by decode), and it is chosen so that the builtin codec
    of the same kind reads the file WITHOUT failing: a text file for a text, bytes for bytes, a pickle for an object, a parquet file for a frame."""
    if isinstance(blob, str):
        return json.dumps({"c17-codec": ref, "text": blob}).encode("utf-8")
    if isinstance(blob, (bytes, bytearray)):
        return b"C17" + bytes(b ^ 0x5A for b in bytes(blob))
    if DC.is_pandas(blob):
        import io
        buf = io.BytesIO()
        blob.assign(c17_codec=ref).to_parquet(buf)
        return buf.getvalue()
    return pickle.dumps({"c17-codec": ref, "value": blob})


def decode(data, tname):
    if tname == "str":
        return json.loads(data.decode("utf-8"))["text"]
    if tname == "bytes":
        assert data[:3] == b"C17", data[:10]
        return bytes(b ^ 0x5A for b in data[3:])
    if tname == "frame":
        import io
        import pandas
        return pandas.read_parquet(io.BytesIO(data)).drop(columns=["c17_codec"])
    return pickle.loads(data)["value"]


def make_codec(spec):
    from dds.structures import FileCodecProtocol, CodecProtocol, ProtocolRef
    kind, ref, tname, impl = spec["kind"], spec["ref"], spec["type"], spec.get("impl", "own")
    types = _types(tname)

    class Mixin(object):
        def ref(self):
            return ProtocolRef(ref)

        def handled_types(self):
            return types

        def serialize_into(self, blob, loc):
            with open(str(loc), "wb") as f:
                f.write(encode(ref, blob) if impl == "own" else b"written by the other codec bound to " + ref.encode("utf-8"))

        def deserialize_from(self, loc):
            if impl != "own":
                return DecodedBy(ref)
            with open(str(loc), "rb") as f:
                return decode(f.read(), tname)

    class FC(Mixin, FileCodecProtocol):
        pass

    class CC(Mixin, CodecProtocol):
        pass
    return FC() if kind == "file" else CC()


def verdict(got, spec):
    if isinstance(got, DecodedBy):
        return "OTHER:" + got.ref
    return DC.compare(got, spec)


def main():
    payload = json.load(sys.stdin)
    import dds
    from dds import _api
    from dds.structures import DDSException, ProtocolRef
    from collections import OrderedDict
    d = payload["dir"]
    dbu = None
    if payload["store"] == "dbfs":
        import fake_dbutils
        dbu = fake_dbutils.FakeDbutils()
        saved = os.path.join(d, "dbfs.files")
        if os.path.exists(saved):
            dbu.fs.files.update(pickle.load(open(saved, "rb")))
        dds.set_store("dbfs", internal_dir="dbfs:/s/internal", data_dir="dbfs:/s/data", dbutils=dbu)
    else:
        dds.set_store("local", internal_dir=os.path.join(d, "int"), data_dir=os.path.join(d, "dat"))
    store = _api._store()
    out = []
    for st in payload["steps"]:
        try:
            if "register" in st:
                c = make_codec(st["register"])
                if st["register"]["kind"] == "file":
                    store.codec_registry().add_file_codec(c)
                else:
                    store.codec_registry().add_codec(c)
                out.append("U")
            elif "store" in st:
                store.store_blob(st["key"], DC.make_value(st["store"]), ProtocolRef(st["ref"]) if st.get("ref") else None)
                store.sync_paths(OrderedDict([(st["path"], st["key"])]))
                if dbu is not None:
                    meta = store._fetch_meta(st["key"])
                else:
                    meta = json.load(open(os.path.join(d, "int", "blobs", st["key"] + ".meta")))
                out.append("S:" + meta["protocol"])
            elif "fetch" in st:
                out.append("F:" + verdict(store.fetch_blob(st["key"]), st["fetch"]))
            elif "load" in st:
                out.append("L:" + verdict(dds.load(st["path"]), st["load"]))
        except DDSException as e:
            c = getattr(e, "error_code", None)
            out.append("E:" + (c.name if c is not None else "NONE"))
        except BaseException as e:  # noqa
            out.append("X:" + type(e).__name__ + ":" + str(e)[:80])
    if dbu is not None and any("store" in st for st in payload["steps"]):
        pickle.dump(dict(dbu.fs.files), open(os.path.join(d, "dbfs.files"), "wb"))
    print("@@RESULT@@" + json.dumps(out))


if __name__ == "__main__":
    main()
