"""Implementation driver for C19: the DBFS store over the in-process fake dbutils.
stdin: {"base": dir, "commit_type": name|null, "steps": [...]}"""
import json
import os
import pickle
import sys

sys.path.insert(0, os.path.dirname(os.path.abspath(__file__)))


def main():
    payload = json.load(sys.stdin)
    import dds
    from dds import _api
    from dds.structures import DDSException
    import fake_dbutils
    base = payload["base"]
    sys.path.insert(0, base)
    import dbfsmod
    dds.accept_module("dbfsmod")
    dbu = fake_dbutils.FakeDbutils()
    out = []
    try:
        kw = {}
        if payload.get("commit_type") is not None:
            kw["commit_type"] = payload["commit_type"]
        dds.set_store("dbfs", internal_dir="dbfs:/s/internal", data_dir="dbfs:/s/data", dbutils=dbu, **kw)
        out.append("U:" + _api._store()._commit_type.name)
    except DDSException as e:
        out.append("E:" + str(e)[:60])
    except BaseException as e:  # noqa
        out.append("X:" + type(e).__name__ + ":" + str(e)[:60])
        print("@@RESULT@@" + json.dumps(out))
        return
    for st in payload["steps"]:
        try:
            if "keep" in st:
                dbfsmod.KIND = st["keep"][1]
                dbfsmod.SALT = st["keep"][2]
                r = dds.keep(st["keep"][0], dbfsmod.f)
                out.append("V:" + repr(r))
            elif "load" in st:
                out.append("L:" + repr(dds.load(st["load"])))
            elif "listing" in st:
                files = {k: v.hex() for k, v in dbu.fs.files.items() if k.startswith("dbfs:/s/data")}
                out.append({"data_files": files})
            elif "set_commit_type" in st:
                # the same directories and file system, opened again with another commit type
                dds.set_store("dbfs", internal_dir="dbfs:/s/internal", data_dir="dbfs:/s/data", dbutils=dbu, commit_type=st["set_commit_type"])
                out.append("U:" + _api._store()._commit_type.name)
            elif "hist" in st:
                # store-level history: blobs written through store_blob, multi-path sync_paths calls; then the whole file system
                from collections import OrderedDict
                store = _api._store()
                oks, traces = [], []

                def writes(calls):
                    # the mutating dbutils calls with a dbfs: destination, in order
                    out_ = []
                    for c_ in calls:
                        if c_[0] == "put":
                            out_.append("put>" + c_[1].encode("utf-8").hex())
                        elif c_[0] == "cp" and not str(c_[2]).startswith("file:"):
                            out_.append("cp>" + str(c_[2]).encode("utf-8").hex())
                    return ",".join(out_)
                for op in st["hist"]:
                    n0 = len(dbu.fs.calls)
                    try:
                        if op[0] == "blob":
                            store.store_blob(op[1], bytes.fromhex(op[2]).decode("utf-8"), None)
                        else:
                            store.sync_paths(OrderedDict((p_, k_) for p_, k_ in op[1]))
                        oks.append("1")
                    except BaseException as e:  # noqa
                        oks.append("0")
                    traces.append(writes(dbu.fs.calls[n0:]))
                fetched = {}
                for p_ in st.get("fetch", []):
                    try:
                        fetched[p_] = str(store.fetch_paths([p_])[p_])
                    except BaseException as e:  # noqa
                        fetched[p_] = "!" + type(e).__name__
                files = {k: v.hex() for k, v in dbu.fs.files.items() if not k.endswith(".meta") or "/blobs/" not in k}
                out.append({"oks": "".join(oks), "files": files, "fetched": fetched, "traces": traces})
            elif "legacy" in st:
                # a blob written by an older version: content + metadata naming a legacy codec reference
                key, ref, kind = st["legacy"]
                content = {"string": "legacy-text".encode("utf-8"), "bytes": b"\x00legacy\xff", "pickle": pickle.dumps({"legacy": [1, 2]})}[kind]
                dbu.fs.files["dbfs:/s/internal/blobs/" + key] = content
                dbu.fs.files["dbfs:/s/internal/blobs/" + key + ".meta"] = json.dumps({"protocol": ref, "timestamp_millis": 1}).encode()
                v = _api._store().fetch_blob(key)
                want = {"string": "legacy-text", "bytes": b"\x00legacy\xff", "pickle": {"legacy": [1, 2]}}[kind]
                out.append("G:" + ("equal" if v == want and type(v) == type(want) else "DIFFERENT:" + repr(v)[:60]))
            elif "legacy_sync" in st:
                # a path is committed to a blob written by an older version (metadata names a legacy codec reference)
                from collections import OrderedDict
                key, ref, kind, path = st["legacy_sync"]
                content = {"string": "legacy-text".encode("utf-8"), "bytes": b"\x00legacy\xff", "pickle": pickle.dumps({"legacy": [1, 2]})}[kind]
                dbu.fs.files["dbfs:/s/internal/blobs/" + key] = content
                dbu.fs.files["dbfs:/s/internal/blobs/" + key + ".meta"] = json.dumps({"protocol": ref, "timestamp_millis": 1}).encode()
                _api._store().sync_paths(OrderedDict([(path, key)]))
                want = {"string": "legacy-text", "bytes": b"\x00legacy\xff", "pickle": {"legacy": [1, 2]}}[kind]
                try:
                    v = dds.load(path)
                    out.append("S:" + ("equal" if v == want and type(v) == type(want) else "DIFFERENT:" + repr(v)[:60]))
                except DDSException:
                    out.append("S:not-loadable")
        except DDSException as e:
            c = getattr(e, "error_code", None)
            out.append("E:" + (c.name if c is not None else "NONE"))
        except BaseException as e:  # noqa
            out.append("X:" + type(e).__name__ + ":" + str(e)[:80])
    print("@@RESULT@@" + json.dumps(out))


if __name__ == "__main__":
    main()
