"""C18 - graph export is faithful and does not perturb the evaluation."""
import concurrent.futures as cf
import copy
import json
import random

import common as C
import c09
import hist
import progs as P
import values as V

COQ_FILES = ("L7_Graph/Structure.v", "L7_Graph/RunGraph.v", "L7_Graph/GraphProofs.v", "L7_Graph/AcyclicProofs.v", "Properties/C18.v", "Properties/C18b.v")
PROPERTY_FILES = ("C18", "C18b")
EXTRACTED = ("ConstHash", "ConstSig")
ALLOWED_AXIOMS = ()

PRELUDE = """From Coq Require Import List String ZArith NArith.
From DDS Require Import Base.Bytes L0_Hash.PyVal L1_Args.ArgCtx L2_Disc.MiniPy L3_Sig.Program L2_Disc.Visitors L3_Sig.Sig L4_Eval.DdsEval L7_Graph.Structure L7_Graph.RunGraph.
Import ListNotations.
"""


def parse_plain(text):
    nodes, edges = set(), set()
    for line in text.splitlines():
        parts = line.split()
        if not parts:
            continue
        if parts[0] == "node":
            nodes.add(parts[1].strip('"'))
        elif parts[0] == "edge":
            n = int(parts[3])
            style = parts[4 + 2 * n] if len(parts) > 4 + 2 * n else "?"
            edges.add((parts[1].strip('"'), parts[2].strip('"'), style))
    return nodes, edges


def spec_graph(prog, call, keep_callee_is_reference=False):
    """Specification graph from the program: kept nodes, solid (reaches the keep without crossing a kept function),
    dashed (loads).  Returns (kept paths, loaded-by-kept paths, solid set, dashed set).
    keep_callee_is_reference: also follow the callee name of a dds.keep as if it were called directly (what dds's
    analysis does with the first by-name mention of a function)."""
    kept_paths, solid, dashed, loaded = set(), set(), set(), set()

    def walk(mod, name, owner, seen):
        """owner = path of the nearest enclosing kept node (None at a non-kept root)."""
        f = P.find_func(prog, mod, name)
        for st in f["stmts"]:
            if st["k"] == "load":
                if owner is not None:
                    dashed.add((st["path"], owner))
                    loaded.add(st["path"])
                continue
            cm, cn = st["callee"]
            g = P.find_func(prog, cm, cn)
            if st["k"] == "keep":
                p = st["path"]
            elif g.get("annot"):
                p = g["annot"]
            else:
                p = None
            if p is not None:
                kept_paths.add(p)
                if owner is not None:
                    solid.add((p, owner))
                walk(cm, cn, p, seen)
                if keep_callee_is_reference and st["k"] == "keep":
                    if g.get("annot"):
                        if owner is not None:
                            solid.add((g["annot"], owner))
                        kept_paths.add(g["annot"])
                        walk(cm, cn, g["annot"], seen)
                    else:
                        walk(cm, cn, owner, seen)
            else:
                walk(cm, cn, owner, seen)
    mod, name = call["mod"], call["fn"]
    f = P.find_func(prog, mod, name)
    root_path = call.get("path") if call.get("style") == "keep" else f.get("annot")
    if root_path:
        kept_paths.add(root_path)
    walk(mod, name, root_path, set())
    return kept_paths, loaded, solid, dashed


def has_cycle(edges):
    adj = {}
    for a, b, _ in edges:
        adj.setdefault(a, set()).add(b)
    state = {}

    def dfs(u):
        state[u] = 1
        for v in adj.get(u, ()):
            if state.get(v) == 1 or (state.get(v) is None and dfs(v)):
                return True
        state[u] = 2
        return False
    return any(state.get(u) is None and dfs(u) for u in list(adj))


def one(job):
    prog, call, pre = job["prog"], job["call"], job.get("pre", [])
    try:
        ev = [("prog", prog)] + [("act", a) for a in pre] + [("act", dict(call, export=True))]
        recs = hist.run_history(ev, store_kind="memory", run_ref=False, run_model=False)
        ctl = hist.run_history([("prog", prog)] + [("act", a) for a in pre] + [("act", call)], store_kind="memory", run_ref=False, run_model=False)
        return {"job": job, "rec": recs[-1], "ctl": ctl[-1], "paths_before": recs[-2]["impl"]["rec"] if pre else []}
    except Exception as e:  # noqa
        return {"job": job, "error": str(e)[-600:]}


def run(rep, tier, seed, proof_ok):
    rng = random.Random(seed)
    n = 14 if tier == "quick" and proof_ok else 150
    rep.rule = (f"{n} random pipelines (nesting, shared sub-nodes, keeps with run-time arguments) plus the load scenarios of C09 (placement x "
                "producer) evaluated with dds_export_graph (plain format) on a memory store: the exported nodes and styled edges are "
                "parsed back and compared with the Coq model of _structure and with the specification graph computed from the program "
                "(kept paths + paths loaded by kept functions as nodes; solid = reaches the keep without crossing a kept function; "
                "dashed = loads; remaining edges must be dotted and join sibling keeps); result and signatures are compared with the "
                "same evaluation without export; plus random interaction trees with shared sub-trees, run-time-argument nodes and loads given directly to the real _structure (cycle search; a sample compared with the Coq model); distinct = distinct pipeline / tree; non-trivial = at least two nodes")
    jobs = []
    for i in range(n):
        r2 = random.Random(seed * 1000 + i)
        prog = P.gen_program(r2)
        call = dict(P.root_call(prog, r2), style="eval")      # dds_export_graph is an option of dds.eval
        call.pop("path", None)
        jobs.append({"prog": prog, "call": call})
    import glob
    import os
    for fn in sorted(glob.glob(os.path.join(C.VERIF, "corpus", "C18", "*.json"))):
        c = json.load(open(fn))
        c["prog"]["root"] = tuple(c["prog"]["root"])
        jobs.append({"prog": c["prog"], "call": c["call"], "pre": c.get("pre", []), "corpus": c["name"]})
    for placement in c09.PLACEMENTS:
        for producer in ("data-function-before", "keep-before", "earlier-evaluation"):
            prog = c09.build(placement, producer, arg_passing=(placement == "root"))
            call = {"a": "call", "mod": "m0", "fn": "root", "style": "eval", "pos": [], "kw": []}
            pre = [{"a": "call", "mod": "m0", "fn": "prod", "style": "direct", "pos": [], "kw": []}] if producer == "earlier-evaluation" else []
            jobs.append({"prog": prog, "call": call, "pre": pre, "load_scenario": f"{placement}/{producer}"})
    # a path loaded from an earlier evaluation whose signature is also kept, under another path, in this evaluation
    for placement in c09.PLACEMENTS:
        prog = c09.build(placement, "alias-of-earlier-evaluation")
        call = {"a": "call", "mod": "m0", "fn": "root", "style": "eval", "pos": [], "kw": []}
        pre = [{"a": "call", "mod": "m0", "fn": "prod", "style": "keep", "path": "/p", "pos": [], "kw": []}]
        jobs.append({"prog": prog, "call": call, "pre": pre, "load_scenario": f"{placement}/alias-of-earlier-evaluation"})
    with cf.ThreadPoolExecutor(max_workers=C.NPROC) as ex:
        res = list(ex.map(one, jobs))
    good = [r for r in res if "error" not in r and r["rec"]["impl"]["out"].startswith("ok:")]
    exprs = []
    for r in good:
        job = r["job"]
        term = "(discover " + P.mfn_term(job["prog"], job["call"]["mod"], job["call"]["fn"]) + ")"
        pos = "[" + "; ".join(V.to_coq(x) for x in job["call"].get("pos", [])) + "]"
        kw = "[" + "; ".join(f"({C.hexs(k)}, {V.to_coq(x)})" for k, x in job["call"].get("kw", [])) + "]"
        # committed paths before the evaluation (for loads resolved from the store)
        paths = []
        for x in r.get("paths_before", []):
            if x[0] == "sync":
                paths = x[1]
        pc = "[" + "; ".join(f"({C.hexs(p)}, {C.hexs(k)})" for p, k in paths) + "]"
        exprs.append(f"run_export {term} {hist.style_coq(job['call'])} {pos} {kw} {pc}")
    model = C.coq_eval_strings(PRELUDE, exprs, label="c18")
    sizes = {}
    for r, m in zip(good, model):
        job = r["job"]
        rep_job = {"prog": job["prog"], "call": job["call"], "pre": job.get("pre", [])}
        text = r["rec"]["impl"].get("graph")
        if text is None:
            rep.violation("export-missing", "the evaluation succeeded but no graph file was written", rep_job)
            continue
        nodes, edges = parse_plain(text)
        rep.case(json.dumps(job["call"]) + str(len(nodes)) + str(sorted(nodes))[:200], nontrivial=len(nodes) >= 2)
        sizes[len(nodes)] = sizes.get(len(nodes), 0) + 1
        # 1. does not perturb
        if r["rec"]["impl"]["out"] != r["ctl"]["impl"]["out"] or hist.impl_obs(r["rec"])["sigs"] != hist.impl_obs(r["ctl"])["sigs"]:
            rep.violation("export-perturbs", "result or signatures differ with and without dds_export_graph", rep_job)
        # 2. model
        two_sigs = []
        if m.startswith("ok:"):
            mn, me, mk = m[3:].split("#")
            by_path = {}
            for x in mk.split(","):
                if x:
                    pth, sg = x.split("=")
                    by_path.setdefault(pth, set()).add(sg)
            two_sigs = sorted(pth for pth, sgs in by_path.items() if len(sgs) > 1)
            mnodes = set(x for x in mn.split(",") if x)
            medges = set()
            for e in me.split(","):
                if e:
                    ft, st = e.rsplit(":", 1)
                    a, b = ft.split(">")
                    medges.add((a, b, st))
            mnodes |= {x for a, b, _ in medges for x in (a, b)}     # dot declares the end points of an edge as nodes
            if mnodes != nodes or medges != edges:
                rep.violation("model-mismatch:graph", f"exported graph and model differ: nodes {sorted(nodes ^ mnodes)[:4]} edges {sorted(edges ^ medges)[:4]}",
                              dict(rep_job, impl_nodes=sorted(nodes), impl_edges=sorted(edges), model=m))
        else:
            rep.violation("model-mismatch:graph", f"model says {m[:60]}", rep_job)
        # 3. specification
        kept, loaded, solid, dashed = spec_graph(job["prog"], job["call"])
        if has_cycle(edges):
            kind = "path-kept-with-two-signatures" if two_sigs else "other"
            rep.violation("graph-cyclic:" + kind, "the exported graph has a cycle" + (f" (paths analysed with two signatures: {two_sigs})" if two_sigs else ""),
                          dict(rep_job, edges=sorted(edges)))
        missing = (kept | loaded) - nodes
        if missing:
            # two paths with one signature share a node (keyed by signature)
            rep.violation("node-missing:" + ("same-function-kept-at-two-paths" if len(kept) > len(nodes & kept) else "other"),
                          f"kept / loaded paths {sorted(missing)} do not appear as nodes", dict(rep_job, nodes=sorted(nodes)))
        isolid = {(a, b) for a, b, s in edges if s == "solid"}
        idashed = {(a, b) for a, b, s in edges if s == "dashed"}
        if not missing:
            if isolid != solid:
                _, _, solid2, _ = spec_graph(job["prog"], job["call"], keep_callee_is_reference=True)
                kind = "extra-edges-through-the-callee-name-of-keep" if (isolid == solid2 and solid <= isolid) else "other"
                rep.violation("solid-edges-wrong:" + kind, f"solid edges differ from the specification: extra {sorted(isolid - solid)[:3]} missing {sorted(solid - isolid)[:3]}",
                              dict(rep_job, edges=sorted(edges)))
            if idashed != dashed:
                rep.violation("dashed-edges-wrong", f"dashed edges differ from the specification: extra {sorted(idashed - dashed)[:3]} missing {sorted(dashed - idashed)[:3]}",
                              dict(rep_job, edges=sorted(edges)))
        for a, b, s in edges:
            if s not in ("solid", "dashed", "dotted"):
                rep.violation("edge-style-unknown", f"edge {a}->{b} has style {s}", rep_job)
    for r in res:
        if "error" in r:
            rep.violation("harness-error:c18", r["error"][-300:], {"call": r["job"]["call"]}, no_input=True)
        elif not r["rec"]["impl"]["out"].startswith("ok:"):
            if r["ctl"]["impl"]["out"].startswith("ok:"):
                rep.violation("export-fails", f"the evaluation succeeds without export but gives {r['rec']['impl']['out'][:80]} with dds_export_graph",
                              {"prog": r["job"]["prog"], "call": r["job"]["call"], "tb": r["rec"]["impl"].get("tb", "")[-400:]})
    # search support: random interaction trees with shared sub-trees given to the real _structure (cycles), a sample of
    # them also to the Coq model of _structure
    fz = C.run_driver("drive_graphfuzz.py", {"n": 4000 if tier == "quick" and proof_ok else 80000, "seed": seed, "sample": 150 if tier == "quick" else 600}, timeout=1500)
    for cy in fz["cyclic"]:
        rep.violation("graph-cyclic:fuzzed-interaction-tree", "the real _structure returns a cyclic graph for an interaction tree in which a sub-tree is shared",
                      {"fuzz": True, "tree": cy["tree"], "edges": cy["edges"]})
    for er in fz["errors"]:
        rep.violation("export-fails:fuzzed-interaction-tree", f"the real _structure raises {er['error']}", {"fuzz": True, "tree": er["tree"]})

    def fi_coq(t):
        sig, path, nargs, loads, ch = t
        return (f"(FI {C.hexs(sig)} {('(Some ' + C.hexs(path) + ')') if path else 'None'} {C.hexs('f')} {nargs} "
                f"[{'; '.join(C.hexs(q) for q in loads)}] [{'; '.join(fi_coq(c) for c in ch)}])")
    fexprs = [f"render_graph (structure {fi_coq(smp['tree'])} [{'; '.join('(' + C.hexs(p) + ', ' + C.hexs(k) + ')' for p, k in smp['refs'])}])" for smp in fz["sample"]]
    fmodel = C.coq_eval_strings(PRELUDE, fexprs, label="c18f")
    for smp, m in zip(fz["sample"], fmodel):
        rep.case("fuzz:" + json.dumps(smp["tree"])[:300], nontrivial=len(smp["nodes"]) >= 2)
        mn, me = m.split("#")[:2]
        mnodes = sorted(x for x in mn.split(",") if x)
        medges = sorted([e.rsplit(":", 1)[0].split(">")[0], e.rsplit(":", 1)[0].split(">")[1], e.rsplit(":", 1)[1]] for e in me.split(",") if e)
        if mnodes != smp["nodes"] or medges != smp["edges"]:
            rep.violation("model-mismatch:graph-fuzz", "the real _structure and its Coq model differ on a fuzzed interaction tree",
                          {"fuzz": True, "tree": smp["tree"], "impl_nodes": smp["nodes"], "impl_edges": smp["edges"], "model": m})
    rep.extra["input_distribution"] = {"pipelines": len(jobs), "graphs_by_number_of_nodes": sizes, "fuzzed_interaction_trees": fz["trees"],
                                       "fuzzed_trees_compared_with_model": len(fz["sample"])}
    if good:
        rep.sample({"entry": good[0]["job"]["call"], "graph": good[0]["rec"]["impl"].get("graph", "")[:300]})


def replay(path):
    import c01
    return c01.replay(path)
