"""C18 - graph export is faithful and does not perturb the evaluation."""
import concurrent.futures as cf
import copy
import json
import random

import common as C
import c09
import c18_commit
import hist
import progs as P
import values as V

COQ_FILES = ("L7_Graph/Structure.v", "L7_Graph/RunGraph.v", "L7_Graph/GraphProofs.v", "L7_Graph/AcyclicProofs.v", "Properties/C18.v", "Properties/C18b.v")
PROPERTY_FILES = ("C18", "C18b")
EXTRACTED = ("ConstHash", "ConstSig")
ALLOWED_AXIOMS = ()

PRELUDE = """From Coq Require Import List String ZArith NArith.
From DDS Require Import Base.Bytes L0_Hash.PyVal L1_Args.ArgCtx L2_Disc.MiniPy L3_Sig.Program L2_Disc.Visitors L3_Sig.Sig L4_Eval.DdsEval L7_Graph.Structure L7_Graph.RunGraph.
Import ListNotations.
"""


def plain_statements(text):
    """The statements of `dot -Tplain` as lists of fields, by the quoting rules of graphviz (agstrcanon, read back the way
    dot's own scanner reads a quoted string): a field that is not a plain identifier / number is written between double
    quotes, a double quote inside it as \\", every other character as it is (a backslash stays one backslash; two
    backslashes are one unit, so that \\\\" ends the field); a long field may be cut by backslash + newline, which
    belongs to the layout and not to the field; fields are separated by blanks, statements by newlines."""
    out, cur, i, n = [], [], 0, len(text)
    while i < n:
        c = text[i]
        if c == "\n":
            out.append(cur)
            cur = []
            i += 1
        elif c in " \t\r":
            i += 1
        elif c == '"':
            i += 1
            buf = []
            while i < n and text[i] != '"':
                if text[i] == "\\" and i + 1 < n:
                    d = text[i + 1]
                    buf.append('"' if d == '"' else "" if d == "\n" else "\\" + d)
                    i += 2
                else:
                    buf.append(text[i])
                    i += 1
            i += 1
            cur.append("".join(buf))
        else:
            j = i
            while j < n and text[j] not in " \t\r\n":
                j += 1
            cur.append(text[i:j])
            i = j
    if cur:
        out.append(cur)
    return out


def parse_plain(text):
    nodes, edges = set(), set()
    for parts in plain_statements(text):
        if not parts:
            continue
        if parts[0] == "node":
            nodes.add(parts[1])
        elif parts[0] == "edge":
            n = int(parts[3])
            # edge tail head n x1 y1 .. xn yn [label xl yl] style color
            style = parts[-2] if len(parts) >= 6 + 2 * n else "?"
            edges.add((parts[1], parts[2], style))
    return nodes, edges


def spec_graph(prog, call, keep_callee_is_reference=False):
    """Specification graph from the program: kept nodes, solid (reaches the keep without crossing a kept function),
    dashed (loads).  Returns (kept paths, loaded-by-kept paths, solid set, dashed set).
    keep_callee_is_reference: also follow the callee name of a dds.keep as if it were called directly (what dds's
    analysis does with the first by-name mention of a function)."""
    kept_paths, solid, dashed, loaded = set(), set(), set(), set()

    def walk(mod, name, owner, seen):
        """owner = path of the nearest enclosing kept node (None at a non-kept root)."""
        f = P.find_func(prog, mod, name)
        for st in f["stmts"]:
            if st["k"] == "load":
                if owner is not None:
                    dashed.add((st["path"], owner))
                    loaded.add(st["path"])
                continue
            cm, cn = st["callee"]
            g = P.find_func(prog, cm, cn)
            if st["k"] == "keep":
                p = st["path"]
            elif g.get("annot"):
                p = g["annot"]
            else:
                p = None
            if p is not None:
                kept_paths.add(p)
                if owner is not None:
                    solid.add((p, owner))
                walk(cm, cn, p, seen)
                if keep_callee_is_reference and st["k"] == "keep":
                    if g.get("annot"):
                        if owner is not None:
                            solid.add((g["annot"], owner))
                        kept_paths.add(g["annot"])
                        walk(cm, cn, g["annot"], seen)
                    else:
                        walk(cm, cn, owner, seen)
            else:
                walk(cm, cn, owner, seen)
    mod, name = call["mod"], call["fn"]
    f = P.find_func(prog, mod, name)
    root_path = call.get("path") if call.get("style") == "keep" else f.get("annot")
    if root_path:
        kept_paths.add(root_path)
    walk(mod, name, root_path, set())
    return kept_paths, loaded, solid, dashed


def tree_paths(t):
    """The store paths of an interaction tree as the drivers dump it: [signature, path, n args, loads, children]."""
    return sorted({t[1]} - {None} | {p for c in t[4] for p in tree_paths(c)})


def has_cycle(edges):
    adj = {}
    for a, b, _ in edges:
        adj.setdefault(a, set()).add(b)
    state = {}

    def dfs(u):
        state[u] = 1
        for v in adj.get(u, ()):
            if state.get(v) == 1 or (state.get(v) is None and dfs(v)):
                return True
        state[u] = 2
        return False
    return any(state.get(u) is None and dfs(u) for u in list(adj))


def one(job):
    prog, call, pre = job["prog"], job["call"], job.get("pre", [])
    try:
        ev = [("prog", prog)] + [("act", a) for a in pre] + [("act", dict(call, export=True))]
        recs = hist.run_history(ev, store_kind="memory", run_ref=False, run_model=False)
        ctl = hist.run_history([("prog", prog)] + [("act", a) for a in pre] + [("act", call)], store_kind="memory", run_ref=False, run_model=False)
        return {"job": job, "rec": recs[-1], "ctl": ctl[-1], "paths_before": recs[-2]["impl"]["rec"] if pre else []}
    except Exception as e:  # noqa
        return {"job": job, "error": str(e)[-600:]}


# ----------------------------------------------------------------------------- the alphabet of the paths
# A store path is any absolute string.  The text handed to graphviz and the plain format read back here are made of the
# paths, so the property is also quantified over what the paths are made of: the same pipeline with its store paths
# renamed (injectively) to paths with characters that mean something in the dot language, in the plain format or in
# pydot's handling of names must still evaluate with dds_export_graph, give the same result and signatures as without,
# and its graph must have exactly the renamed kept / loaded paths as nodes, with the solid and dashed edges of the
# specification.  One class of characters per pipeline (so that a failure names its class; beyond the quick tier also
# pipelines whose paths are of several classes); the place of the special
# text rotates over the paths of the pipeline: in the only / first / middle / last segment of the path, at the
# start / in the middle / at the end of that segment.

DOT_KEYWORDS = ["node", "edge", "graph", "digraph", "subgraph", "strict"]
PATH_CLASSES = [
    # (class, special text, where it may go: "any" place of a segment | "mid" | "seg" = it is the whole segment | "path-end")
    ("double-quote", '"', "any"), ("quoted-word", '"raw"', "any"), ("backslash", "\\", "any"), ("two-backslashes", "\\\\", "any"),
    ("backslash-letter", "\\N\\l", "any"), ("backslash-before-quote", '\\"', "any"), ("two-backslashes-before-quote", '\\\\"', "any"),
    ("backslash-at-end", "\\", "path-end"), ("colon", ":", "any"), ("comma", ",", "any"), ("semicolon", ";", "any"), ("space", " ", "any"),
    ("tab", "\t", "any"), ("arrow", "->", "any"), ("undirected-edge", " -- ", "any"), ("braces", "{x}", "any"), ("angle-brackets", "<b>", "any"),
    ("pipe", "|", "any"), ("hash", "#", "any"), ("percent", "%20", "any"), ("ampersand", "&amp;", "any"), ("equals-brackets", "=[x]", "any"),
    ("single-quote", "'", "any"), ("unicode", "é中→", "any"), ("c-comment", "/*x*/", "mid"), ("empty-segment", "//", "mid"),
    ("dot-keyword", DOT_KEYWORDS, "seg"), ("number", ["1.5", "-1", ".5", "2"], "seg"), ("long-name", "x y" * 45, "any"),
]
SEGMENT_POSITIONS = ("only", "first", "middle", "last")
IN_SEGMENT = ("start", "mid", "end")


def literal_safe(p):
    """Can the path be written between double quotes in the generated source as it is (progs.path_src, the decorator)?"""
    return not any(c in '"\\' or ord(c) < 32 for c in p)


def special_path(cls, k, rot, used):
    """The k-th path of a pipeline for a class of PATH_CLASSES: rot picks the segment and the place in the segment; no
    path of a pipeline is equal to / a prefix of another one (used = the paths made so far)."""
    _, text, where = next(c for c in PATH_CLASSES if c[0] == cls)
    for t in range(len(SEGMENT_POSITIONS) * len(IN_SEGMENT)):
        segpos = SEGMENT_POSITIONS[(rot + t) % len(SEGMENT_POSITIONS)]
        inpos = IN_SEGMENT[((rot + t) // len(SEGMENT_POSITIONS)) % len(IN_SEGMENT)]
        if where == "seg":
            seg, inpos = text[(k + t) % len(text)], "whole"
        else:
            if where == "mid":
                inpos = "mid"
            elif where == "path-end":
                segpos, inpos = ("only", "last")[(rot + t) % 2], "end"
            elif text.endswith("\\") and not text.endswith("\\\\") and inpos == "end" and segpos in ("only", "last"):
                inpos = "mid"       # one backslash at the very end of the path is a class of its own
            seg = {"start": f"{text}k{k}", "mid": f"k{text}{k}", "end": f"k{k}{text}"}[inpos]
        p = {"only": f"/{seg}", "first": f"/{seg}/d/e{k}", "middle": f"/d/{seg}/e{k}", "last": f"/d/e{k}/{seg}"}[segpos]
        if not any(q == p or q.startswith(p.rstrip("/") + "/") or p.startswith(q.rstrip("/") + "/") for q in used):
            used.add(p)
            return p, segpos, inpos
    raise ValueError("no free path for " + cls)


def pipeline_paths(prog, call, pre):
    """The store paths of a job in a fixed order, and which of them are the path of a data function."""
    paths, annots = [], set()
    for mn in sorted(prog["modules"]):
        for f in prog["modules"][mn]["funcs"]:
            if f.get("annot"):
                annots.add(f["annot"])
            for p in [f.get("annot")] + [st.get("path") for st in f["stmts"]]:
                if p and p not in paths:
                    paths.append(p)
    for a in list(pre) + [call]:
        if a.get("path") and a["path"] not in paths:
            paths.append(a["path"])
    return paths, annots


def rename_paths(job, cls_of, rng, rot=0):
    """The job with its store paths renamed: cls_of(path index) = class of PATH_CLASSES (None: the path stays).  The
    path of a data function is written in its decorator, between double quotes: it only takes the classes that can be
    written so and stays as it is for the others.  The path of a keep / load statement is written as a string literal
    (when it can be) or given through a module variable holding a str or a pathlib.Path (when that keeps the text)."""
    import pathlib
    prog, call, pre = copy.deepcopy(job["prog"]), dict(job["call"]), [dict(a) for a in job.get("pre", [])]
    paths, annots = pipeline_paths(prog, call, pre)
    ren, info, used = {}, {}, set()
    for k, p in enumerate(paths):
        cls = cls_of(k)
        if cls is not None:
            q, segpos, inpos = special_path(cls, k + 1, rot + k, used)
            if p in annots and not literal_safe(q):
                used.discard(q)
                cls = None
        if cls is None:
            used.add(p)
            continue
        ren[p] = q
        info[q] = {"class": cls, "segment": segpos, "place": inpos, "was": p, "data_function": p in annots, "spelled": []}
    nvar = [0]
    for mn in sorted(prog["modules"]):
        m, var_of = prog["modules"][mn], {}
        for f in m["funcs"]:
            if f.get("annot") in ren:
                f["annot"] = ren[f["annot"]]
                info[f["annot"]]["spelled"].append("decorator")
            for st in f["stmts"]:
                if st.get("path") not in ren:
                    continue
                q = st["path"] = ren[st["path"]]
                options = (["literal"] if literal_safe(q) else []) + ["str-variable"] + (["path-variable"] if pathlib.PurePosixPath(q).as_posix() == q else [])
                how = var_of[q][1] if q in var_of else rng.choice(options)
                if how != "literal":
                    if q not in var_of:
                        nvar[0] += 1
                        var_of[q] = (f"PA_{nvar[0]}", how)
                        m["vars"][var_of[q][0]] = ["str" if how == "str-variable" else "ppath", q.encode("utf-8").hex()]
                    st["path_var"] = var_of[q][0]
                    if st["path_var"] not in f["reads"]:
                        f["reads"] = f["reads"] + [st["path_var"]]
                if how not in info[q]["spelled"]:
                    info[q]["spelled"].append(how)
    for a in pre + [call]:
        if a.get("path") in ren:
            a["path"] = ren[a["path"]]
            info[a["path"]]["spelled"].append("argument")
    return {"prog": prog, "call": call, "pre": pre, "alphabet": info}


def path_class(paths_info, names):
    """The class the (expected or unexpected) node names belong to: the class of the renamed path that is the name or
    shares the longest beginning with it."""
    if not paths_info:
        return "none"
    def common(a, b):
        n = 0
        while n < min(len(a), len(b)) and a[n] == b[n]:
            n += 1
        return n
    name = sorted(names)[0]
    return paths_info[max(sorted(paths_info), key=lambda q: (q == name, common(q, name)))]["class"]


# Violation keys: path-alphabet:<class of characters> when the export fails or the graph read back has other nodes / edges
# (what a class of names does to the dot text shows as the one or the other depending on the graph around it);
# path-alphabet:<other kind of failure>:<class> otherwise.

def check_drawn(rep, cls, rr):
    """An interaction tree drawn by the real draw_graph (drive_graphrender.py): the file read back against the graph of the
    real _structure for the same tree.  Returns the list of differences (also used by the replay)."""
    rj = {"drawn": True, "class": cls, "tree": rr["tree"], "names": rr["names"], "present": rr["present"]}
    used = sorted(set(rr.get("nodes", [])))
    where = f"interaction tree with the paths {json.dumps(used, ensure_ascii=False)[:300]} of class '{cls}' given to the real draw_graph"
    if "structure_error" in rr:
        return []           # not a matter of names: the fuzzed interaction trees above look for these
    if "draw_error" in rr:
        rep.violation(f"path-alphabet:{cls}", f"{where}: _structure gives a graph of {len(used)} nodes but drawing it fails: {rr['draw_error']}", rj)
        return ["fails"]
    nodes, edges = parse_plain(rr["plain"])
    snodes, sedges = set(rr["nodes"]), {tuple(e) for e in rr["edges"]}
    rj = dict(rj, nodes=sorted(nodes), edges=sorted(edges), structure_nodes=rr["nodes"], structure_edges=rr["edges"], graph=rr["plain"][:3000])
    diffs = []
    if snodes - nodes:
        diffs.append("missing")
        rep.violation(f"path-alphabet:{cls}", f"{where}: the nodes {json.dumps(sorted(snodes - nodes), ensure_ascii=False)[:200]} of the graph are not in the file"
                      + (f", which has the nodes {json.dumps(sorted(nodes - snodes), ensure_ascii=False)[:200]} instead" if nodes - snodes else ""), rj)
    elif nodes - snodes:
        diffs.append("bogus")
        rep.violation(f"path-alphabet:{cls}", f"{where}: the file has the nodes {json.dumps(sorted(nodes - snodes), ensure_ascii=False)[:200]}, which are no nodes of the graph", rj)
    if not (snodes - nodes) and edges != sedges:
        diffs.append("edges")
        rep.violation(f"path-alphabet:{cls}", f"{where}: the styled edges of the file differ from those of the graph: extra {sorted(edges - sedges)[:3]} missing {sorted(sedges - edges)[:3]}", rj)
    return diffs


def passes_alone(r):
    """Does the pipeline, with the paths it has, evaluate with and without export to the same result, with exactly the
    graph of the specification?"""
    if "error" in r or not r["rec"]["impl"]["out"].startswith("ok:") or r["rec"]["impl"].get("graph") is None:
        return False
    nodes, edges = parse_plain(r["rec"]["impl"]["graph"])
    kept, loaded, solid, dashed = spec_graph(r["job"]["prog"], r["job"]["call"])
    return (r["rec"]["impl"]["out"] == r["ctl"]["impl"]["out"] and hist.impl_obs(r["rec"])["sigs"] == hist.impl_obs(r["ctl"])["sigs"] and nodes == kept | loaded
            and len(nodes) >= 2 and {(a, b) for a, b, s in edges if s == "solid"} == solid and {(a, b) for a, b, s in edges if s == "dashed"} == dashed and not has_cycle(edges))


def check_alphabet(rep, r):
    """The checks of a pipeline with renamed paths (the same pipeline with its own paths passed them all).  Returns
    True when the pipeline was evaluated."""
    job = r["job"]
    info, cls = job["alphabet"], job["alphabet_class"]
    rep_job = {"prog": job["prog"], "call": job["call"], "pre": job.get("pre", []), "alphabet": info, "alphabet_class": cls, "base": job["base"]}
    where = f"paths of class '{cls}' {json.dumps(sorted(info), ensure_ascii=False)[:300]} (the same pipeline with the paths {sorted(v['was'] for v in info.values())[:6]} passes)"
    if "error" in r:
        rep.violation("harness-error:c18-path-alphabet", r["error"][-300:], rep_job, no_input=True)
        return False
    io, ctl = r["rec"]["impl"], r["ctl"]["impl"]
    if not ctl["out"].startswith("ok:"):
        return False            # not a pipeline that evaluates (with these paths): nothing is demanded of the export
    if not io["out"].startswith("ok:"):
        if job.get("alphabet_base") is not None:
            # paths of several classes: the first class that makes the export fail when only its paths are renamed
            for c in sorted({v["class"] for v in info.values()}):
                one_class = one(dict(rename_paths(job["alphabet_base"], lambda k_, c=c: c if job["alphabet_pick"](k_) == c else None, random.Random(0), rot=job["alphabet_rot"])))
                if "error" not in one_class and one_class["ctl"]["impl"]["out"].startswith("ok:") and not one_class["rec"]["impl"]["out"].startswith("ok:"):
                    cls = c
                    where = f"(fails too when only the paths of class '{c}' are renamed) " + where
                    break
        rep.violation(f"path-alphabet:{cls}", f"{where}: the evaluation succeeds without export but gives {io['out'][:60]} with dds_export_graph "
                      f"({' '.join(io.get('tb', '').split())[-160:]})", dict(rep_job, tb=io.get("tb", "")[-400:]))
        return True
    if io["out"] != ctl["out"] or hist.impl_obs(r["rec"])["sigs"] != hist.impl_obs(r["ctl"])["sigs"]:
        rep.violation(f"path-alphabet:export-perturbs:{cls}", f"{where}: result or signatures differ with and without dds_export_graph", rep_job)
    if io.get("graph") is None:
        rep.violation(f"path-alphabet:export-missing:{cls}", f"{where}: the evaluation succeeded but no graph file was written", rep_job)
        return True
    nodes, edges = parse_plain(io["graph"])
    kept, loaded, solid, dashed = spec_graph(job["prog"], job["call"])
    rj = dict(rep_job, nodes=sorted(nodes), edges=sorted(edges), graph=io["graph"][:3000])
    missing, bogus = (kept | loaded) - nodes, nodes - (kept | loaded)
    if missing:
        rep.violation(f"path-alphabet:{path_class(info, missing)}", f"{where}: kept / loaded paths {json.dumps(sorted(missing), ensure_ascii=False)[:200]} do not appear as nodes"
                      + (f", nodes that are no path of the pipeline: {json.dumps(sorted(bogus), ensure_ascii=False)[:200]}" if bogus else ""), rj)
    elif bogus:
        rep.violation(f"path-alphabet:{path_class(info, bogus)}", f"{where}: the graph has nodes that are neither kept nor loaded paths of the pipeline: "
                      f"{json.dumps(sorted(bogus), ensure_ascii=False)[:200]}", rj)
    isolid = {(a, b) for a, b, s in edges if s == "solid"}
    idashed = {(a, b) for a, b, s in edges if s == "dashed"}
    if not missing and (isolid != solid or idashed != dashed):
        diff = sorted((isolid ^ solid) | (idashed ^ dashed))
        rep.violation(f"path-alphabet:{path_class(info, {x for e in diff for x in e})}", f"{where}: solid / dashed edges differ from the specification: "
                      f"extra {sorted((isolid - solid) | (idashed - dashed))[:3]} missing {sorted((solid - isolid) | (dashed - idashed))[:3]}", rj)
    if has_cycle(edges):
        rep.violation(f"path-alphabet:graph-cyclic:{cls}", f"{where}: the exported graph has a cycle", rj)
    for a, b, s in edges:
        if s not in ("solid", "dashed", "dotted"):
            rep.violation(f"path-alphabet:edge-style-unknown:{cls}", f"{where}: edge {a}->{b} has style {s}", rj)
    return True


# ----------------------------------------------------------------------------- the state of the store at export time
# The exported graph (nodes + styled edges), the result and the signatures are functions of the pipeline only: whatever
# the store already contains when the graph is requested, and whether or not the extra debug information (which asks the
# store which blobs are present) is computed, they must equal what the same pipeline gives on a fresh store.

def _other_literals(call):
    """The same top-level call with every argument replaced by another literal (None when the call has no argument)."""
    if not call.get("pos") and not call.get("kw"):
        return None
    def other(v):
        return P.LIT_VALUES[(P.LIT_VALUES.index(v) + 4) % len(P.LIT_VALUES)] if v in P.LIT_VALUES else P.LIT_VALUES[0]
    return dict(call, pos=[other(v) for v in call.get("pos", [])], kw=[[k, other(v)] for k, v in call.get("kw", [])])


def sub_pipelines(prog, call):
    """Other pipelines that share sub-nodes with this one: the functions below the entry point that keep something,
    evaluated on their own (required parameters bound to literals)."""
    out = []
    for (m, n) in P.reachable(prog, call["mod"], call["fn"])[1:]:
        g = P.find_func(prog, m, n)
        if g.get("is_class"):
            continue
        if g.get("annot"):
            out.append({"a": "call", "mod": m, "fn": n, "style": "direct", "pos": [], "kw": []})
        elif P.contains_keep(prog, m, n):
            pos = [P.LIT_VALUES[(3 + j) % len(P.LIT_VALUES)] for j, p in enumerate(g["params"]) if p.get("default") is None]
            out.append({"a": "call", "mod": m, "fn": n, "style": "eval", "pos": pos, "kw": []})
    return out


def _num(e):
    """Numeric value of an encoded bool / int / float, None for the other values."""
    if e[0] == "bool":
        return int(bool(e[1]))
    if e[0] == "int":
        return int(e[1])
    if e[0] == "float":
        import struct
        return struct.unpack("!d", bytes.fromhex(e[1]))[0]
    return None


def classified_edits(prog, call, rng):
    """Single edits that change some signatures of the pipeline, by what is edited: {class: [(description, edited program)]}.
    kept-leaf = function kept / data function with no keep below it; middle = function (not the entry point) with keeps
    below it; entry = the evaluated function; helper = plain function without keeps; variable / literal."""
    p0 = copy.deepcopy(prog)
    p0["root"] = (call["mod"], call["fn"])
    kept_only = P.kept_only_functions(p0)
    out = {}
    for kind, desc, p2 in P.edit_catalogue(p0, rng):
        if kind == "body":
            m, n = desc["fn"]
            if (m, n) == (call["mod"], call["fn"]):
                cls = "entry"
            elif P.contains_keep(prog, m, n):
                cls = "middle"
            elif (m, n) in kept_only or P.find_func(prog, m, n).get("annot"):
                cls = "kept-leaf"
            else:
                cls = "helper"
        elif kind == "var":
            cls = "variable"
            # dds_hash identifies True / 1 / 1.0 (documented, C05): such an edit is no edit for dds
            old = prog["modules"][desc["mod"]]["vars"][desc["name"]]
            if _num(desc["value"]) is not None and _num(desc["value"]) == _num(old):
                new = rng.choice([v for v in P.VAR_VALUES if _num(v) is None or _num(v) != _num(old)])
                p2["modules"][desc["mod"]]["vars"][desc["name"]] = desc["value"] = new
        elif kind == "literal":
            cls = "literal"
            st0, st2 = P.find_func(prog, *desc["fn"])["stmts"][desc["stmt"]], P.find_func(p2, *desc["fn"])["stmts"][desc["stmt"]]
            where, j = ("args", desc["arg"]) if "arg" in desc else ("pos", desc["pos"])
            old = st0[where][j][1]
            if _num(st2[where][j][1]) is not None and _num(st2[where][j][1]) == _num(old):
                st2[where][j] = ["lit", rng.choice([v for v in P.LIT_VALUES if _num(v) is None or _num(v) != _num(old)])]
        else:
            continue
        p2["root"] = prog["root"]
        out.setdefault(cls, []).append((dict(desc, kind=kind), p2))
    return out


EDIT_CLASSES = ("kept-leaf", "middle", "variable", "literal", "helper", "entry")


def store_state_scenarios(job, idx, tier, rng):
    """Histories that bring the store into some state and then request the graph of job's pipeline.  Each scenario:
    {"state": class of store state, "detail", "events", "store", "options", "observe": [(index of the action among the
    records, label)]}."""
    prog, call, pre = job["prog"], job["call"], job.get("pre", [])
    head = [("prog", prog)] + [("act", a) for a in pre]
    exp = dict(call, export=True)
    quick = tier == "quick"
    out = []
    # fully populated: the same pipeline was evaluated before (without / with export); dds_extra_debug given explicitly
    out.append({"state": "same-pipeline-evaluated-before", "detail": "evaluated, then exported twice (second time dds_extra_debug=True)", "store": "memory", "options": {},
                "events": head + [("act", call), ("act", exp), ("act", dict(exp, extra_debug=True))],
                "observe": [(len(pre) + 1, "all blobs present"), (len(pre) + 2, "all blobs present, dds_extra_debug=True")]})
    # the extra debug information switched off (option extra_debug=False): fresh, then fully populated
    if not quick or idx % 4 == 0:
        out.append({"state": "extra-debug-off", "detail": "option extra_debug=False: exported on the fresh store, then again", "store": "memory", "options": {"extra_debug": False},
                    "events": head + [("act", exp), ("act", exp)], "observe": [(len(pre), "fresh store"), (len(pre) + 1, "all blobs present")]})
    # populated by other pipelines that share sub-nodes
    subs = sub_pipelines(prog, call)
    if subs and (not quick or idx % 2 == 0):
        chosen = [subs[idx % len(subs)]] if quick else subs[:2]
        for s in chosen:
            out.append({"state": "sub-pipeline-evaluated-before", "detail": f"{s['mod']}.{s['fn']} evaluated on its own before", "store": "memory", "options": {},
                        "events": head + [("act", s), ("act", exp)], "observe": [(len(pre) + 1, f"blobs below {s['fn']} present")]})
    # the same entry point evaluated with other arguments: the keeps that do not depend on them are present
    c2 = _other_literals(call)
    if c2 is not None:
        out.append({"state": "evaluated-with-other-arguments", "detail": "same entry point evaluated before with other argument values", "store": "memory", "options": {},
                    "events": head + [("act", c2), ("act", exp)], "observe": [(len(pre) + 1, "blobs independent of the arguments present")]})
    # partly populated: an edited variant of the pipeline was evaluated before on the same (local) store, in another
    # process: the blobs not affected by the edit are present, the edited function and everything above it are not
    eds = classified_edits(prog, call, rng)
    classes = [c for c in EDIT_CLASSES if c in eds]
    if quick:
        classes = [classes[(idx // 2) % len(classes)]] if classes else []
    for j, cls in enumerate(classes):
        desc, p2 = eds[cls][idx % len(eds[cls])]
        # the run-time debug switch is one more coordinate of the partly populated state
        opts = {"extra_debug": False} if (idx + j) % 3 == 2 else {}
        ex2 = dict(exp, extra_debug=True) if (idx + j) % 3 == 1 else exp
        out.append({"state": "edited-variant-evaluated-before:" + cls, "detail": f"variant with edit {json.dumps(desc)} evaluated before" + (" (option extra_debug=False)" if opts else ""),
                    "store": "local", "options": opts,
                    "events": [("prog", p2)] + [("act", a) for a in pre] + [("act", call)] + head + [("act", ex2)],
                    "observe": [(2 * len(pre) + 1, f"blobs not affected by the {cls} edit present")]})
    return out


def run_state(sc):
    import os
    import shutil
    import tempfile
    gdir = tempfile.mkdtemp(prefix="c18g_", dir=C.scratch_dir())
    try:
        # one file per export of the history: a file left by an earlier export must not pass for the graph of a later one
        events = []
        for k, e in enumerate(sc["events"]):
            if e[0] == "act" and e[1].get("export") is True:
                e = ("act", dict(e[1], export=os.path.join(gdir, f"g{k}.plain")))
            events.append(e)
        recs = hist.run_history(events, store_kind=sc["store"], run_ref=False, run_model=False, options=sc["options"])
        return {"sc": sc, "recs": recs}
    except Exception as e:  # noqa
        return {"sc": sc, "error": str(e)[-600:]}
    finally:
        shutil.rmtree(gdir, ignore_errors=True)


def events_json(events):
    return [list(e) for e in events]


def run(rep, tier, seed, proof_ok):
    rng = random.Random(seed)
    n = 14 if tier == "quick" and proof_ok else 150
    n_st = min(n, 14) if tier == "quick" else 60         # random pipelines that are also exported in the other states of the store
    per_class, n_mixed = (1, 0) if tier == "quick" else (4, 40)
    n_alpha = per_class * len(PATH_CLASSES)
    n_drawn = (2 if tier == "quick" else 12) * len(PATH_CLASSES)
    family = c18_commit.nested_family()
    rep.rule = (f"{n} random pipelines (nesting, shared sub-nodes, keeps with run-time arguments) plus the load scenarios of C09 (placement x "
                f"producer) plus {len(family)} shapes in which the analysis reaches one path several times under different signatures (a keep nested in the callee of another keep: run-time / literal "
                "arguments on either level, three levels, a nested data function, the entry point's argument by keyword, the nested path loaded by a later keep, the callee called directly before it "
                "is kept, the callee kept under two paths) evaluated with dds_export_graph (plain format) on a memory store: the exported nodes and styled edges are "
                "parsed back and compared with the Coq model of _structure and with the specification graph computed from the program "
                "(kept paths + paths loaded by kept functions as nodes; solid = reaches the keep without crossing a kept function; "
                "dashed = loads; remaining edges must be dotted and join sibling keeps); result and signatures are compared with the "
                f"same evaluation without export; {n_st} of the random pipelines and all the others{' (a third of the nested-keep shapes)' if tier == 'quick' else ''} are exported again in other states of the store at export time (the same pipeline "
                "evaluated / exported before = all blobs present, with dds_extra_debug=True or the option extra_debug=False; another pipeline sharing sub-nodes (a function "
                "below the entry point) evaluated before; the same entry point evaluated before with other arguments; an edited variant (kept leaf / middle function / "
                "variable / literal / helper / entry point) evaluated before on the same local store by another process = partly populated): graph, result and "
                "signatures must equal those of the fresh store; what the exported evaluation leaves in the store: for "
                + ("the first nested-keep shape (every history), the other shapes, every second pipeline of the corpus and every fourth of the others (two histories each, by rotation)" if tier == "quick"
                   else f"{n_st} of the random pipelines (two histories each, by rotation) and all the others (every history)") +
                f", {len(c18_commit.VARIANTS)} histories on a local store in which some evaluations request the graph (an exported evaluation alone; stopped after the analysis stage, then a plain "
                "evaluation; a plain evaluation then the exported one and the reverse, in one process and in two processes; with and without dds_extra_debug) are compared with the same history without "
                "dds_export_graph on another store: evaluation by evaluation the result, the execution log, the blobs stored (key, value) and the map given to sync_paths; afterwards the raw links of "
                "the data directory (path -> key) and the keys of the blob directory read without dds, and dds.load of every store path of the program from a fresh process (value and key fetched) "
                f"must be the same; the alphabet of the paths: {n_alpha} of the pipelines that pass the checks above with their own paths and have at least two nodes (random ones and load scenarios alternating) are evaluated and exported "
                f"again with every store path renamed to a path of one of {len(PATH_CLASSES)} classes of characters special to the dot language, to the plain format or to pydot's handling of names (double quote, "
                "quoted word, backslash alone / doubled / before a letter / before a quote / at the very end, colon, comma, semicolon, space, tab, ->, --, braces, angle brackets, |, #, %, &, =[], single quote, "
                "unicode, /* */, empty segment, a segment that is a dot keyword or a number, a name longer than an output line), the special text in the only / first / middle / last segment and at the start / "
                "middle / end of it, the path written as a literal, through a str or a pathlib.Path variable, in a decorator or given as an argument"
                + ("" if tier == "quick" else f"; {n_mixed} more with paths of several classes in one pipeline") +
                ": export must succeed when the evaluation without export does, same result and signatures, the nodes read back (with the exact quoting rules of the plain format) are exactly the renamed kept / loaded paths, "
                f"solid and dashed edges as specified, no cycle; {n_drawn} random interaction trees whose paths are of one class each are drawn by the real draw_graph (also with present blobs, as for dds_extra_debug): the file "
                "read back must be exactly the graph the real _structure gives for the tree (nodes, solid / dashed / dotted edges); plus random interaction trees with shared sub-trees, run-time-argument nodes and loads given directly to the real _structure (cycle search; a sample compared with the Coq model); distinct = distinct pipeline / tree; non-trivial = at least two nodes")
    jobs = []
    for i in range(n):
        r2 = random.Random(seed * 1000 + i)
        prog = P.gen_program(r2)
        call = dict(P.root_call(prog, r2), style="eval")      # dds_export_graph is an option of dds.eval
        call.pop("path", None)
        jobs.append({"prog": prog, "call": call})
    import glob
    import os
    for fn in sorted(glob.glob(os.path.join(C.VERIF, "corpus", "C18", "*.json"))):
        c = json.load(open(fn))
        c["prog"]["root"] = tuple(c["prog"]["root"])
        jobs.append({"prog": c["prog"], "call": c["call"], "pre": c.get("pre", []), "corpus": c["name"]})
    for placement in c09.PLACEMENTS:
        for producer in ("data-function-before", "keep-before", "earlier-evaluation"):
            prog = c09.build(placement, producer, arg_passing=(placement == "root"))
            call = {"a": "call", "mod": "m0", "fn": "root", "style": "eval", "pos": [], "kw": []}
            pre = [{"a": "call", "mod": "m0", "fn": "prod", "style": "direct", "pos": [], "kw": []}] if producer == "earlier-evaluation" else []
            jobs.append({"prog": prog, "call": call, "pre": pre, "load_scenario": f"{placement}/{producer}"})
    # a path loaded from an earlier evaluation whose signature is also kept, under another path, in this evaluation
    for placement in c09.PLACEMENTS:
        prog = c09.build(placement, "alias-of-earlier-evaluation")
        call = {"a": "call", "mod": "m0", "fn": "root", "style": "eval", "pos": [], "kw": []}
        pre = [{"a": "call", "mod": "m0", "fn": "prod", "style": "keep", "path": "/p", "pos": [], "kw": []}]
        jobs.append({"prog": prog, "call": call, "pre": pre, "load_scenario": f"{placement}/alias-of-earlier-evaluation"})
    # one path analysed under several signatures (the shapes of F23 / F24 and their neighbours)
    for name, prog, call in family:
        jobs.append({"prog": prog, "call": call, "pre": [], "corpus": "nested-keeps:" + name})
    # the state of the store at export time (quick: every pipeline gets the fully populated state and a rotation of the others)
    scs = []
    for i, job in enumerate(jobs):
        job["idx"] = i
    n_state_pipelines = len(jobs) - n + n_st
    for i, job in enumerate(jobs[-n_state_pipelines:]):
        bi = len(jobs) - n_state_pipelines + i
        if tier == "quick" and job.get("corpus", "").startswith("nested-keeps:") and bi % 3:
            continue
        for sc in store_state_scenarios(job, bi, tier, random.Random(seed * 7919 + bi)):
            scs.append(dict(sc, base=bi))
    # what the exported evaluation leaves in the store (c18_commit.py): histories with exports against the same histories without
    # (quick: every history for the first nested-keep shape, two histories by rotation for the other shapes, for every second
    # pipeline of the corpus and every fourth of the others; otherwise every history, two by rotation for the random pipelines)
    ccs = []
    for i, job in enumerate(jobs[-n_state_pipelines:]):
        bi = len(jobs) - n_state_pipelines + i
        nested = job.get("corpus", "").startswith("nested-keeps:")
        if tier != "quick" or nested or bi % (2 if "corpus" in job else 4) == 0:
            ccs += c18_commit.scenarios(job, bi, full=(tier != "quick" and bi >= n) or job.get("corpus") == "nested-keeps:" + family[0][0])
    # the alphabet of the paths: pipelines (of the random ones and of the load scenarios, alternating) that pass with their
    # own paths, with their paths renamed; quick: one pipeline per class of characters, otherwise several, plus pipelines
    # whose paths are of different classes.  For a class, the next pipeline in which the renaming reaches at least two nodes.
    def alphabet_jobs(passing):
        bases = [j for j in jobs if j["idx"] in passing and "corpus" not in j]
        with_loads, others = [b for b in bases if "load_scenario" in b], [b for b in bases if "load_scenario" not in b]
        if with_loads and others:
            bases = [b for i in range(max(len(with_loads), len(others))) for b in (others[i % len(others)], with_loads[i % len(with_loads)])]
        out = []
        for cls in [c[0] for c in PATH_CLASSES] * per_class + ["several-classes"] * n_mixed if bases else []:
            k = len(out)
            r3 = random.Random(seed * 104729 + k)
            pick = [r3.choice([c[0] for c in PATH_CLASSES] + [None] * 3) for _ in range(64)]
            cls_of = (lambda k_, pick=pick: pick[k_ % len(pick)]) if cls == "several-classes" else (lambda k_, cls=cls: cls)
            best = None
            for t in range(len(bases)):
                base = bases[(seed + k + t) % len(bases)]
                j = rename_paths(base, cls_of, random.Random(seed * 104729 + k), rot=seed + 5 * k)
                kept, loaded, _, _ = spec_graph(j["prog"], j["call"])
                reach = min(2, len([q for q in j["alphabet"] if q in kept | loaded]))
                if best is None or reach > best[0]:
                    best = (reach, dict(j, alphabet_class=cls, base=base["idx"]))
                    if cls == "several-classes":
                        best[1].update(alphabet_base=base, alphabet_pick=cls_of, alphabet_rot=seed + 5 * k)
                if reach == 2:
                    break
            out.append(best[1])
        return out
    with cf.ThreadPoolExecutor(max_workers=C.NPROC) as ex:
        fut = [ex.submit(one, j) for j in jobs]
        sfut = [ex.submit(run_state, sc) for sc in scs]
        cfut = [ex.submit(c18_commit.run_group, g) for g in c18_commit.grouped(ccs)]
        res = [f.result() for f in fut]
        ajobs = alphabet_jobs({r["job"]["idx"] for r in res if passes_alone(r)})
        afut = [ex.submit(one, j) for j in ajobs]
        sres = [f.result() for f in sfut]
        ares = [f.result() for f in afut]
        cres = [x for f in cfut for x in f.result()]
    good =[r for r in res if "error" not in r and r["rec"]["impl"]["out"].startswith("ok:")]
    exprs = []
    for r in good:
        job = r["job"]
        term = "(discover " + P.mfn_term(job["prog"], job["call"]["mod"], job["call"]["fn"]) + ")"
        pos = "[" + "; ".join(V.to_coq(x) for x in job["call"].get("pos", [])) + "]"
        kw = "[" + "; ".join(f"({C.hexs(k)}, {V.to_coq(x)})" for k, x in job["call"].get("kw", [])) + "]"
        # committed paths before the evaluation (for loads resolved from the store)
        paths = []
        for x in r.get("paths_before", []):
            if x[0] == "sync":
                paths = x[1]
        pc = "[" + "; ".join(f"({C.hexs(p)}, {C.hexs(k)})" for p, k in paths) + "]"
        exprs.append(f"run_export {term} {hist.style_coq(job['call'])} {pos} {kw} {pc}")
    model = C.coq_eval_strings(PRELUDE, exprs, label="c18")
    sizes = {}
    two_sig_pipelines = set()   # pipelines in which (by the model) a path is analysed under several signatures
    fresh = {}          # pipeline index -> what the export on the fresh store gave
    for r, m in zip(good, model):
        job = r["job"]
        rep_job = {"prog": job["prog"], "call": job["call"], "pre": job.get("pre", [])}
        text = r["rec"]["impl"].get("graph")
        if text is None:
            rep.violation("export-missing", "the evaluation succeeded but no graph file was written", rep_job)
            continue
        nodes, edges = parse_plain(text)
        fresh[job["idx"]] = {"nodes": nodes, "edges": edges, "out": r["rec"]["impl"]["out"], "sigs": hist.impl_obs(r["rec"])["sigs"]}
        rep.case(json.dumps(job["call"]) + str(len(nodes)) + str(sorted(nodes))[:200], nontrivial=len(nodes) >= 2)
        sizes[len(nodes)] = sizes.get(len(nodes), 0) + 1
        # 1. does not perturb
        if r["rec"]["impl"]["out"] != r["ctl"]["impl"]["out"] or hist.impl_obs(r["rec"])["sigs"] != hist.impl_obs(r["ctl"])["sigs"]:
            a, b = [dict(x.split("=") for x in (hist.impl_obs(y)["sigs"] or "").split(",") if x) for y in (r["rec"], r["ctl"])]
            rep.violation("export-perturbs", f"entry {job['call']['mod']}.{job['call']['fn']}" + (f" ({job['corpus']})" if "corpus" in job else "") + " on a memory store: "
                          + ("the result differs" if r["rec"]["impl"]["out"] != r["ctl"]["impl"]["out"] else "the signatures given to sync_paths differ: "
                             + ", ".join(f"{p} -> {str(a.get(p))[:10]}.. (without export {str(b.get(p))[:10]}..)" for p in sorted(set(a) | set(b)) if a.get(p) != b.get(p)))
                          + " with and without dds_export_graph", rep_job)
        # 2. model
        two_sigs = []
        if m.startswith("ok:"):
            mn, me, mk = m[3:].split("#")
            by_path = {}
            for x in mk.split(","):
                if x:
                    pth, sg = x.split("=")
                    by_path.setdefault(pth, set()).add(sg)
            two_sigs = sorted(pth for pth, sgs in by_path.items() if len(sgs) > 1)
            if two_sigs:
                two_sig_pipelines.add(job["idx"])
            mnodes = set(x for x in mn.split(",") if x)
            medges = set()
            for e in me.split(","):
                if e:
                    ft, st = e.rsplit(":", 1)
                    a, b = ft.split(">")
                    medges.add((a, b, st))
            mnodes |= {x for a, b, _ in medges for x in (a, b)}     # dot declares the end points of an edge as nodes
            if mnodes != nodes or medges != edges:
                rep.violation("model-mismatch:graph", f"exported graph and model differ: nodes {sorted(nodes ^ mnodes)[:4]} edges {sorted(edges ^ medges)[:4]}",
                              dict(rep_job, impl_nodes=sorted(nodes), impl_edges=sorted(edges), model=m))
        else:
            rep.violation("model-mismatch:graph", f"model says {m[:60]}", rep_job)
        # 3. specification
        kept, loaded, solid, dashed = spec_graph(job["prog"], job["call"])
        if has_cycle(edges):
            kind = "path-kept-with-two-signatures" if two_sigs else "other"
            rep.violation("graph-cyclic:" + kind, "the exported graph has a cycle" + (f" (paths analysed with two signatures: {two_sigs})" if two_sigs else ""),
                          dict(rep_job, edges=sorted(edges)))
        missing = (kept | loaded) - nodes
        if missing:
            # two paths with one signature share a node (keyed by signature)
            rep.violation("node-missing:" + ("same-function-kept-at-two-paths" if len(kept) > len(nodes & kept) else "other"),
                          f"kept / loaded paths {sorted(missing)} do not appear as nodes", dict(rep_job, nodes=sorted(nodes)))
        isolid = {(a, b) for a, b, s in edges if s == "solid"}
        idashed = {(a, b) for a, b, s in edges if s == "dashed"}
        if not missing:
            if isolid != solid:
                _, _, solid2, _ = spec_graph(job["prog"], job["call"], keep_callee_is_reference=True)
                kind = "extra-edges-through-the-callee-name-of-keep" if (isolid == solid2 and solid <= isolid) else "other"
                rep.violation("solid-edges-wrong:" + kind, f"solid edges differ from the specification: extra {sorted(isolid - solid)[:3]} missing {sorted(solid - isolid)[:3]}",
                              dict(rep_job, edges=sorted(edges)))
            if idashed != dashed:
                rep.violation("dashed-edges-wrong", f"dashed edges differ from the specification: extra {sorted(idashed - dashed)[:3]} missing {sorted(dashed - idashed)[:3]}",
                              dict(rep_job, edges=sorted(edges)))
        for a, b, s in edges:
            if s not in ("solid", "dashed", "dotted"):
                rep.violation("edge-style-unknown", f"edge {a}->{b} has style {s}", rep_job)
    # 4. the state of the store at export time: same graph, result and signatures as on the fresh store
    states = {}
    for sr in sres:
        sc = sr["sc"]
        base = fresh.get(sc["base"])
        if base is None:
            continue        # the pipeline does not evaluate (or its export on the fresh store is reported above)
        bjob = jobs[sc["base"]]
        rep_sc = {"events": events_json(sc["events"]), "store": sc["store"], "options": sc["options"], "state": sc["state"], "detail": sc["detail"],
                  "fresh_events": events_json([("prog", bjob["prog"])] + [("act", a) for a in bjob.get("pre", [])] + [("act", dict(bjob["call"], export=True))]),
                  "fresh_nodes": sorted(base["nodes"]), "fresh_edges": sorted(base["edges"])}
        if "error" in sr:
            rep.violation("harness-error:c18-store-state", sr["error"][-300:], rep_sc, no_input=True)
            continue
        for pos, label in sc["observe"]:
            rec = sr["recs"][pos]
            io = rec["impl"]
            rj = dict(rep_sc, observe=pos, label=label)
            where = f"store state '{sc['state']}' ({sc['detail']}; {label}), entry {bjob['call']['mod']}.{bjob['call']['fn']}"
            states[sc["state"]] = states.get(sc["state"], 0) + 1
            if not io["out"].startswith("ok:"):
                rep.violation("store-state:export-fails:" + sc["state"], f"{where}: the evaluation with dds_export_graph gives {io['out'][:80]}, on a fresh store it succeeds",
                              dict(rj, tb=io.get("tb", "")[-400:]))
                continue
            sigs = hist.impl_obs(rec)["sigs"]
            if io["out"] != base["out"] or (sigs is not None and base["sigs"] is not None and sorted(sigs.split(",")) != sorted(base["sigs"].split(","))):
                rep.violation("store-state:result-or-signatures-differ:" + sc["state"], f"{where}: result or signatures differ from the evaluation on a fresh store", rj)
            if io.get("graph") is None:
                rep.violation("store-state:export-missing:" + sc["state"], f"{where}: the evaluation succeeded but no graph file was written", rj)
                continue
            nodes, edges = parse_plain(io["graph"])
            rep.case("store:" + sc["state"] + label + json.dumps(bjob["call"]) + str(sorted(base["edges"]))[:200] + str(sorted(nodes))[:200], nontrivial=len(nodes) >= 2)
            if nodes != base["nodes"] or edges != base["edges"]:
                rep.violation("store-state:graph-differs:" + sc["state"],
                              f"{where}: the exported graph differs from the graph of the same pipeline exported on a fresh store: missing nodes {sorted(base['nodes'] - nodes)[:3]} "
                              f"extra nodes {sorted(nodes - base['nodes'])[:3]} missing edges {sorted(base['edges'] - edges)[:4]} extra edges {sorted(edges - base['edges'])[:4]}",
                              dict(rj, nodes=sorted(nodes), edges=sorted(edges)))
    # 4b. what the exported evaluation leaves in the store: the same as the same history without export
    commit = {"pipelines": len({sc["base"] for sc in ccs}), "histories": 0, "by_history": {}, "paths_loaded_from_a_fresh_process": 0, "nested_keep_shapes": len(family)}
    c18_commit.check(rep, cres, jobs, commit)
    commit["pipelines_with_a_path_analysed_under_several_signatures"] = len({sc["base"] for sc in ccs} & two_sig_pipelines)
    # 5. the alphabet of the paths: the pipelines that pass with their own paths, with renamed paths
    alpha = {"pipelines": len(ajobs), "checked": 0, "not_evaluated_with_these_paths": 0, "by_class": {}, "renamed_paths": 0,
             "paths_by_segment": {}, "paths_by_place_in_segment": {}, "paths_by_role": {}, "paths_by_spelling": {}}
    for r in ares:
        job = r["job"]
        if not check_alphabet(rep, r):
            alpha["not_evaluated_with_these_paths"] += 1
            continue
        kept, loaded, _, _ = spec_graph(job["prog"], job["call"])
        rep.case("alphabet:" + job["alphabet_class"] + json.dumps(job["call"]) + str(sorted(job["alphabet"])), nontrivial=len(job["alphabet"]) >= 1 and len(kept | loaded) >= 2)
        alpha["checked"] += 1
        alpha["by_class"][job["alphabet_class"]] = alpha["by_class"].get(job["alphabet_class"], 0) + 1
        for q, v in job["alphabet"].items():
            alpha["renamed_paths"] += 1
            role = "+".join(x for x, on in (("kept", q in kept), ("loaded", q in loaded), ("data-function", v["data_function"])) if on) or "not-in-the-graph"
            for dim, val in [("paths_by_segment", [v["segment"]]), ("paths_by_place_in_segment", [v["place"]]), ("paths_by_role", [role]), ("paths_by_spelling", v["spelled"])]:
                for x in val:
                    alpha[dim][x] = alpha[dim].get(x, 0) + 1
    for r in res:
        if "error" in r:
            rep.violation("harness-error:c18", r["error"][-300:], {"call": r["job"]["call"]}, no_input=True)
        elif not r["rec"]["impl"]["out"].startswith("ok:"):
            if r["ctl"]["impl"]["out"].startswith("ok:"):
                rep.violation("export-fails", f"the evaluation succeeds without export but gives {r['rec']['impl']['out'][:80]} with dds_export_graph",
                              {"prog": r["job"]["prog"], "call": r["job"]["call"], "tb": r["rec"]["impl"].get("tb", "")[-400:]})
    # search support: random interaction trees with shared sub-trees given to the real _structure (cycles), a sample of
    # them also to the Coq model of _structure
    fz = C.run_driver("drive_graphfuzz.py", {"n": 4000 if tier == "quick" and proof_ok else 80000, "seed": seed, "sample": 150 if tier == "quick" else 600}, timeout=1500)
    for cy in fz["cyclic"]:
        rep.violation("graph-cyclic:fuzzed-interaction-tree", "the real _structure returns a cyclic graph for an interaction tree in which a sub-tree is shared",
                      {"fuzz": True, "tree": cy["tree"], "edges": cy["edges"]})
    for er in fz["errors"]:
        rep.violation("export-fails:fuzzed-interaction-tree", f"the real _structure raises {er['error']}", {"fuzz": True, "tree": er["tree"]})
    if "unsupported" in fz:
        rep.violation("harness-error:c18-structure-signature", fz["unsupported"], {"fuzz": True}, no_input=True)
    for mu in fz.get("mutated", []):
        tb, pth, was, now = mu["changed"][0]
        rep.violation("export-writes-into-the-tables-of-the-evaluation:fuzzed-interaction-tree",
                      f"the real _structure, given the tables dds.eval has for an interaction tree (kept paths {tree_paths(mu['tree'])[:6]}), "
                      f"does not leave them as they are: {tb}[{pth}] was {was} and is {now} afterwards (the evaluation commits store_paths after the export)",
                      {"fuzz": True, "tree": mu["tree"], "changed": mu["changed"]})

    # the alphabet of the paths, below the analysis: interaction trees whose paths are of one class, drawn by the real
    # draw_graph; the file read back must be the graph the real _structure gives (all three styles of edges)
    rtrees = []
    for cls, _, _ in PATH_CLASSES:
        for t in range(n_drawn // len(PATH_CLASSES)):
            used = set()
            rtrees.append({"class": cls, "names": [special_path(cls, k + 1, seed + len(rtrees) + k, used)[0] for k in range(7)], "present": len(rtrees) % 3 == 2})
    rres = C.run_driver("drive_graphrender.py", {"seed": seed, "trees": rtrees}, timeout=1500)
    alpha["drawn_interaction_trees"] = len(rres)
    for spec, rr in zip(rtrees, rres):
        check_drawn(rep, spec["class"], rr)
        if rr.get("mutated"):
            tb, pth, was, now = rr["mutated"][0]
            rep.violation("export-writes-into-the-tables-of-the-evaluation:drawn-interaction-tree",
                          f"the real draw_graph, given the tables dds.eval has for an interaction tree with the paths {json.dumps(sorted(set(rr.get('nodes', []))), ensure_ascii=False)[:200]}, "
                          f"does not leave them as they are: {tb}[{pth}] was {was} and is {now} afterwards", {"drawn": True, "class": spec["class"], "tree": rr["tree"], "names": rr["names"], "present": rr["present"]})
        if "plain" in rr:
            rep.case("drawn:" + json.dumps(rr["tree"])[:300], nontrivial=len(rr["nodes"]) >= 2)

    def fi_coq(t):
        sig, path, nargs, loads, ch = t
        return (f"(FI {C.hexs(sig)} {('(Some ' + C.hexs(path) + ')') if path else 'None'} {C.hexs('f')} {nargs} "
                f"[{'; '.join(C.hexs(q) for q in loads)}] [{'; '.join(fi_coq(c) for c in ch)}])")
    fexprs = [f"render_graph (structure {fi_coq(smp['tree'])} [{'; '.join('(' + C.hexs(p) + ', ' + C.hexs(k) + ')' for p, k in smp['refs'])}])" for smp in fz["sample"]]
    fmodel = C.coq_eval_strings(PRELUDE, fexprs, label="c18f")
    for smp, m in zip(fz["sample"], fmodel):
        rep.case("fuzz:" + json.dumps(smp["tree"])[:300], nontrivial=len(smp["nodes"]) >= 2)
        mn, me = m.split("#")[:2]
        mnodes = sorted(x for x in mn.split(",") if x)
        medges = sorted([e.rsplit(":", 1)[0].split(">")[0], e.rsplit(":", 1)[0].split(">")[1], e.rsplit(":", 1)[1]] for e in me.split(",") if e)
        if mnodes != smp["nodes"] or medges != smp["edges"]:
            rep.violation("model-mismatch:graph-fuzz", "the real _structure and its Coq model differ on a fuzzed interaction tree",
                          {"fuzz": True, "tree": smp["tree"], "impl_nodes": smp["nodes"], "impl_edges": smp["edges"], "model": m})
    rep.extra["input_distribution"] = {"pipelines": len(jobs), "graphs_by_number_of_nodes": sizes, "store_state_histories": len(scs),
                                       "exports_by_store_state": dict(states, fresh=len(good)), "fuzzed_interaction_trees": fz["trees"], "fuzzed_trees_with_a_path_under_two_signatures": fz.get("trees_two_signatures", 0),
                                       "fuzzed_trees_compared_with_model": len(fz["sample"]), "path_alphabet": alpha,
                                       "store_after_export": commit}
    if good:
        rep.sample({"entry": good[0]["job"]["call"], "graph": good[0]["rec"]["impl"].get("graph", "")[:300]})


def _tuples(events):
    events = [tuple(e) for e in events]
    for e in events:
        if e[0] == "prog":
            e[1]["root"] = tuple(e[1]["root"])
    return events


def replay(path):
    r = json.load(open(path))["replay"]
    if r.get("fuzz") and r.get("changed"):
        # the tree is given again to the real draw_graph (which calls _structure), with the tables dds.eval has for it
        rr = C.run_driver("drive_graphrender.py", {"seed": 0, "trees": [{"tree": r["tree"], "names": tree_paths(r["tree"]), "present": False}]})[0]
        print("tree:", json.dumps(r["tree"])[:2000])
        print("tables of the evaluation changed by the export [table, path, before, after]:", rr.get("mutated") or rr.get("draw_error") or rr.get("structure_error") or "none")
        print("REPRODUCED" if rr.get("mutated") else "not reproduced")
        return 1 if rr.get("mutated") else 0
    if r.get("fuzz"):
        print("fuzzed interaction tree: re-run drive_graphfuzz.py with the recorded seed; tree:", json.dumps(r["tree"])[:2000])
        return 1
    if r.get("commit"):
        return c18_commit.replay(r)
    if r.get("drawn"):
        rr = C.run_driver("drive_graphrender.py", {"seed": 0, "trees": [{"tree": r["tree"], "names": r["names"], "present": r["present"]}]})[0]
        rep = C.Report("C18", "replay", 0)
        rep.known = []
        diffs = check_drawn(rep, r["class"], rr)
        print("graph of _structure:", rr.get("nodes"), rr.get("edges"))
        print("file read back     :", rr.get("draw_error") or [sorted(x) for x in parse_plain(rr.get("plain", ""))])
        for v in rep.violations:
            print("  ", v["what"][:400])
        if rr.get("mutated"):
            print("tables of the evaluation changed by the export [table, path, before, after]:", rr["mutated"])
        print("REPRODUCED" if diffs or rr.get("mutated") else "not reproduced")
        return 1 if diffs or rr.get("mutated") else 0
    if "events" in r:
        # a store-state scenario: the history is run again, and the same pipeline is exported on a fresh store
        got = run_state({"events": _tuples(r["events"]), "store": r["store"], "options": r["options"]})
        ref = run_state({"events": _tuples(r["fresh_events"]), "store": "memory", "options": {}})
        for x in (got, ref):
            if "error" in x:
                print("harness error:", x["error"])
                return 2
        a, b = got["recs"][r["observe"]]["impl"], ref["recs"][-1]["impl"]
        print(f"state: {r['state']} ({r['detail']}; {r.get('label')})")
        print("in that state :", a["out"][:100], sorted(parse_plain(a.get("graph") or "")[1]))
        print("fresh store   :", b["out"][:100], sorted(parse_plain(b.get("graph") or "")[1]))
        bad = a["out"] != b["out"] or a.get("graph") is None or parse_plain(a["graph"]) != parse_plain(b.get("graph") or "")
        print("REPRODUCED" if bad else "not reproduced")
        return 1 if bad else 0
    r["prog"]["root"] = tuple(r["prog"]["root"])
    x = one({"prog": r["prog"], "call": r["call"], "pre": r.get("pre", [])})
    if "error" in x:
        print("harness error:", x["error"])
        return 2
    nodes, edges = parse_plain(x["rec"]["impl"].get("graph") or "")
    kept, loaded, solid, dashed = spec_graph(r["prog"], r["call"])
    print("with export   :", x["rec"]["impl"]["out"][:100], "| without:", x["ctl"]["impl"]["out"][:100])
    print("exported      : nodes", sorted(nodes), "edges", sorted(edges))
    print("specification : nodes", sorted(kept | loaded), "solid", sorted(solid), "dashed", sorted(dashed))
    bad = (x["rec"]["impl"]["out"] != x["ctl"]["impl"]["out"] or has_cycle(edges) or bool((kept | loaded) - nodes) or ("alphabet" in r and nodes != kept | loaded)
           or {(a, b) for a, b, s in edges if s == "solid"} != solid or {(a, b) for a, b, s in edges if s == "dashed"} != dashed)
    print("REPRODUCED" if bad else "not reproduced")
    return 1 if bad else 0
