"""Targeted edit-and-rerun scenarios for C01 (failing-input search on constructs that random generation hits rarely)."""
import copy

import hist
import progs as P
import values as V

i_, s_ = V.i_, V.s_


def base_prog():
    return {"pkg": "vpt", "ext_helpers": {}, "root": ("m0", "root"), "modules": {"m0": {"vars": {"VAR_A": i_(1)}, "funcs": [
        {"name": "g", "params": [{"name": "a", "default": None}, {"name": "b", "default": i_(2)}], "annot": None, "salt": "g0",
         "stmts": [], "reads": []},
        {"name": "root", "params": [], "annot": None, "salt": "r0", "reads": [], "stmts": []},
    ]}}}


def scenario_multiline(layout, nargs_before):
    """a run-time argument (negative literal) of a keep call, on the first or on a later line of the call, is edited"""
    p0 = base_prog()
    root = P.find_func(p0, "m0", "root")
    pos = [["lit", i_(5)]] * 0 + [["lit", i_(-1)]]
    kw = [["b", ["lit", i_(-7)]]] if nargs_before else []
    root["stmts"] = [{"k": "keep", "path": "/k", "callee": ("m0", "g"), "pos": pos, "kw": kw, "layout": layout}]
    p1 = copy.deepcopy(p0)
    st = P.find_func(p1, "m0", "root")["stmts"][0]
    if nargs_before:
        st["kw"] = [["b", ["lit", i_(-8)]]]
    else:
        st["pos"] = [["lit", i_(-2)]]
    call = {"a": "call", "mod": "m0", "fn": "root", "style": "eval", "pos": [], "kw": []}
    return [("prog", p0), ("act", call), ("prog", p1), ("act", call)]


def scenario_var_collision(v0, v1):
    """a tracked variable changes between two values that dds_hash cannot tell apart (C05 / F03)"""
    p0 = base_prog()
    p0["modules"]["m0"]["vars"]["VAR_A"] = v0
    p0["modules"]["m0"]["funcs"][0] = {"name": "g", "params": [], "annot": "/g", "salt": "g0", "stmts": [], "reads": ["VAR_A"]}
    P.find_func(p0, "m0", "root")["stmts"] = [{"k": "call", "callee": ("m0", "g"), "args": []}]
    p1 = copy.deepcopy(p0)
    p1["modules"]["m0"]["vars"]["VAR_A"] = v1
    call = {"a": "call", "mod": "m0", "fn": "root", "style": "eval", "pos": [], "kw": []}
    return [("prog", p0), ("act", call), ("prog", p1), ("act", call)]


def scenario_plain_call_default():
    """F30: a plain call passes an explicit literal to a parameter that has a default; the callee keeps something that
    depends on it; the literal is then edited."""
    def mk(v):
        return {"pkg": "vpt", "ext_helpers": {}, "root": ("m0", "root"), "modules": {"m0": {"vars": {}, "funcs": [
            {"name": "h", "params": [{"name": "a", "default": None}], "annot": None, "salt": "h0", "stmts": [], "reads": []},
            {"name": "g", "params": [{"name": "a", "default": i_(3)}], "annot": None, "salt": "g0", "reads": [],
             "stmts": [{"k": "keep", "path": "/p", "callee": ("m0", "h"), "pos": [["param", 0]], "kw": [], "layout": "single"}]},
            {"name": "root", "params": [], "annot": None, "salt": "r0", "reads": [],
             "stmts": [{"k": "call", "callee": ("m0", "g"), "args": [["lit", i_(v)]]}]}]}}}
    call = {"a": "call", "mod": "m0", "fn": "root", "style": "eval", "pos": [], "kw": []}
    return [("prog", mk(5)), ("act", call), ("prog", mk(7)), ("act", call), ("prog", mk(3)), ("act", call), ("prog", mk(5)), ("act", call)]


def scenario_var_edit(v0, v1):
    """a tracked variable of a scalar type changes (bool / None are tracked since fix F18)"""
    return scenario_var_collision(v0, v1)


SCENARIOS = [
    ("plain-call-argument-for-defaulted-parameter", scenario_plain_call_default),
    ("var-edit:bool-flag", lambda: scenario_var_edit(["bool", True], ["bool", False])),
    ("var-edit:none-to-int", lambda: scenario_var_edit(["none"], i_(5))),
    ("var-edit:dict-entries-reordered", lambda: scenario_var_edit(["dict", [[s_("a"), i_(1)], [s_("b"), i_(2)]]], ["dict", [[s_("b"), i_(2)], [s_("a"), i_(1)]]])),
    ("var-edit:list-reordered", lambda: scenario_var_edit(["list", [i_(1), i_(2)]], ["list", [i_(2), i_(1)]])),
    ("var-edit-between-colliding-values:empty-str-vs-empty-list", lambda: scenario_var_collision(s_(""), ["list", []])),
    ("var-edit-between-colliding-values:int-vs-4byte-str", lambda: scenario_var_collision(i_(0x41424344), s_("ABCD"))),
    ("runtime-arg-edit:single-line", lambda: scenario_multiline("single", 0)),
    ("runtime-arg-edit:multi-line-first-arg", lambda: scenario_multiline("multi", 0)),
    ("runtime-arg-edit:multi-line-later-arg", lambda: scenario_multiline("multi", 1)),
]


RAW_MODULE = '''import dds
def helper():
    return {h}
def f(x):
    return x * 10
def mid(x):
    return dds.keep("/nested", f, x)
def root_keep_arg():
    return dds.keep("/a", f, helper())
def root_call_arg():
    return mid(helper())
TUP = ({h}, 2)
def reads_tuple():
    return TUP
def same_path_twice():
    a = dds.keep("/same", f, 1)
    b = dds.keep("/same", f, 2)
    return (a, b)
'''
RAW_RUN = '''import dds, sys, json
dds.accept_module("rawpk")
dds.set_store("local", internal_dir=sys.argv[1] + "/i", data_dir=sys.argv[1] + "/d")
import rawpk.m as m
out = {{}}
plain = {{"root_keep_arg": lambda: m.f(m.helper()), "root_call_arg": lambda: m.f(m.helper()), "reads_tuple": lambda: m.TUP,
         "same_path_twice": lambda: (m.f(1), m.f(2))}}
for name in ("root_keep_arg", "root_call_arg", "reads_tuple", "same_path_twice"):
    fn = getattr(m, name)
    out[name] = [repr(dds.keep("/out_" + name, fn)), repr(plain[name]())]
print("@@" + json.dumps(out))
'''


def run_raw(rep):
    """Constructs outside the generated program grammar (hand-written files, no model): a call to an accepted function
    inside the argument expressions of a keep / of a plain call that leads to a nested keep; the helper is then edited."""
    import json
    import os
    import shutil
    import tempfile
    import common as C
    base = tempfile.mkdtemp(prefix="c01raw_", dir=C.scratch_dir())
    try:
        os.makedirs(os.path.join(base, "rawpk"))
        open(os.path.join(base, "rawpk", "__init__.py"), "w").write("")
        open(os.path.join(base, "run.py"), "w").write(RAW_RUN.format())
        outs = []
        for h in (1, 2):
            open(os.path.join(base, "rawpk", "m.py"), "w").write(RAW_MODULE.format(h=h))
            env = C.impl_env()
            env["PYTHONPATH"] = C.REPO + os.pathsep + base
            rc, out = C.sh([C.PY, os.path.join(base, "run.py"), base], env=env, cwd=base, timeout=120)
            line = [l for l in out.splitlines() if l.startswith("@@")]
            if not line:
                rep.violation("harness-error:c01raw", "raw scenario could not be run: " + out[-300:], {"out": out[-800:]}, no_input=True)
                return
            outs.append(json.loads(line[-1][2:]))
        rep.case("targeted:untracked-tuple-variable")
        got, plain = outs[1]["reads_tuple"]
        if got != plain:
            rep.violation("stale:untracked-tuple-variable", f"after a module-level tuple read by a kept function changed, dds returns {got} but plain execution "
                          f"gives {plain}", {"scenario": "reads_tuple", "module_v1": RAW_MODULE.format(h=1), "edit": "TUP = (2, 2)", "dds": got, "plain": plain})
        rep.case("targeted:same-path-kept-twice")
        got, plain = outs[0]["same_path_twice"]
        if got != plain:
            rep.violation("wrong:same-path-kept-twice", f"one function keeps the same path twice with different arguments: dds returns {got}, plain execution {plain}",
                          {"scenario": "same_path_twice", "module": RAW_MODULE.format(h=1), "dds": got, "plain": plain})
        for name in ("root_keep_arg", "root_call_arg"):
            rep.case("targeted:inline-call-in-argument:" + name)
            got, plain = outs[1][name]
            if got != plain:
                rep.violation("stale:inline-call-in-argument", f"{name}: after editing helper() (called inside the argument expression) dds returns {got} "
                              f"but plain execution gives {plain}", {"scenario": name, "module_v1": RAW_MODULE.format(h=1), "edit": "helper returns 2",
                                                                      "dds": got, "plain": plain})
    finally:
        shutil.rmtree(base, ignore_errors=True)


def run(rep, tier, seed, proof_ok):
    run_raw(rep)
    for name, mk in SCENARIOS:
        events = mk()
        recs = hist.run_history(events)
        rep.case("targeted:" + name)
        for i, r in enumerate(recs):
            if r["act"]["a"] == "setvar":
                continue
            if r["impl"]["out"] != r["ref"]["out"]:
                rep.violation("stale:" + name, f"{name}: dds returned {r['impl']['out'][:80]} but plain execution gives {r['ref']['out'][:80]}",
                              {"scenario": name, "events": events, "action": i})
            d = hist.compare(r)
            if d:
                rep.violation("model-mismatch:targeted:" + name, f"{name}: implementation and model disagree: {d[:2]}",
                              {"scenario": name, "events": events, "action": i, "diffs": d[:3]})
