"""C01 search support on REAL Python syntax (no model): a kept function uses an accepted helper function / a tracked module
variable inside many syntactic contexts (comprehensions, lambdas, nested functions, conditionals, loops, try / with,
f-strings, aliases, attribute access through a module, decorators, default values ...).  The helper's body or the variable
is then edited; a later process evaluating on the same store must return what plain execution returns (or dds must reject
the construct with a DDS error) - never the stale value."""
import concurrent.futures as cf
import json
import os
import shutil
import tempfile

import common as C

CONTEXTS = {
    "direct-call": "    return helper()",
    "list-comprehension": "    return [helper() for _ in range(2)]",
    "dict-comprehension": "    return {k: helper() for k in 'ab'}",
    "generator-expression": "    return list(helper() for _ in range(2))",
    "lambda": "    return (lambda: helper())()",
    "nested-function": "    def inner():\n        return helper()\n    return inner()",
    "conditional-expression": "    return helper() if len('a') == 1 else 0",
    "if-statement": "    if len('a') == 1:\n        return helper()\n    return 0",
    "for-loop": "    r = 0\n    for _ in range(1):\n        r = helper()\n    return r",
    "while-loop": "    while True:\n        return helper()",
    "try-except": "    try:\n        return helper()\n    except ValueError:\n        return -1",
    "with-statement": "    with ctx():\n        return helper()",
    "f-string": "    return f'{helper()}'",
    "alias-then-call": "    x = helper\n    return x()",
    "passed-by-name": "    return list(map(helper1, [0]))",
    "functools-partial": "    return functools.partial(helper)()",
    "walrus": "    return (y := helper())",
    "star-args": "    return helper(*[])",
    "binary-operation": "    return helper() + 0",
    "through-module-attribute": "    return selfmod.helper()",
    "dunder-call": "    return helper.__call__()",
    "assert": "    assert helper() or True\n    return helper()",
    "return-tuple-nested-call": "    return (1, (2, [helper()]))",
    "keyword-argument-value": "    return ident(v=helper())",
    "argument-of-external-call": "    return str(helper())",
    "subscript-index": "    return [10, 20, 30][helper() % 3]",
    "boolean-operator": "    return 0 or helper()",
    "global-variable-read": "    return VARV",
    "global-variable-in-comprehension": "    return [VARV for _ in range(1)]",
    "global-variable-in-lambda": "    return (lambda: VARV)()",
    "global-variable-in-nested-function": "    def inner():\n        return VARV\n    return inner()",
    "global-variable-in-fstring": "    return f'{VARV}'",
    "global-variable-as-default-of-nested-function": "    def inner(a=VARV):\n        return a\n    return inner()",
    "global-declared": "    global VARV\n    return VARV",
    "helper-in-default-value-of-nested-function": "    def inner(a=helper()):\n        return a\n    return inner()",
    "class-instantiation": "    return Klass().v",
    "method-call-on-new-instance": "    return Klass().meth()",
    "decorated-helper": "    return cached_helper()",
    "generator-function": "    def gen():\n        yield helper()\n    return list(gen())",
    "two-levels": "    return via()",
    "augmented-assignment": "    r = 0\n    r += helper()\n    return r",
    "import-inside-function": "    from . import other\n    return other.helper3()",
    "try-finally": "    try:\n        return helper()\n    finally:\n        pass",
    "loop-else": "    for _ in range(1):\n        pass\n    else:\n        return helper()",
    "str-format": "    return '{}'.format(helper())",
    "slice-bound": "    return list(range(100))[:helper()]",
    "unary-minus": "    return -helper()",
    "comparison-chain": "    return 0 < helper() < 100000",
    "starred-in-list": "    return [*[helper()]]",
    "dict-value": "    return {'k': helper()}['k']",
    "set-literal": "    return sorted({helper()})",
    "nested-lambda-argument": "    return list(map(lambda z: z + helper(), [0]))",
    "sorted-key": "    return sorted([3, 1], key=lambda z: z * helper())",
    "global-list-variable": "    return LISTV",
    "global-dict-variable": "    return DICTV",
    "global-path-variable": "    return PATHV",
    "global-variable-in-default-of-lambda": "    return (lambda a=VARV: a)()",
    "global-variable-in-decorated-helper": "    return reads_var()",
    "global-variable-via-other-module": "    from . import other\n    return other.OTHERV",
    "helper-through-imported-module-attribute": "    return othermod.helper3()",
    "global-variable-through-imported-module-attribute": "    return othermod.OTHERV",
    "global-variable-imported-by-name": "    return OTHERV2",
}

MODULE = '''import dds
import functools
import contextlib
import sys
from . import other as othermod
from .other import OTHERV as OTHERV2
from pathlib import PurePosixPath
VARV = {var}
LISTV = [1, {var}]
DICTV = {{"k": {var}}}
PATHV = PurePosixPath("/a/{var}")
selfmod = sys.modules[__name__]

@contextlib.contextmanager
def ctx():
    yield

def ident(v=None):
    return v

def helper():
    return {hv}

def helper1(_):
    return {hv}


class Klass:
    def __init__(self):
        self.v = helper()

    def meth(self):
        return helper()


@functools.lru_cache(maxsize=None)
def cached_helper():
    return helper()


def via():
    return helper()


def reads_var():
    return VARV

def target():
{body}
'''
RUN = '''import dds, sys, json
sys.path.insert(0, sys.argv[1])
dds.accept_module("synpk")
dds.set_store("local", internal_dir=sys.argv[1] + "/i", data_dir=sys.argv[1] + "/d")
import synpk.m as m
from dds.structures import DDSException
try:
    out = "ok:" + repr(dds.keep("/t", m.target))
except DDSException as e:
    out = "dds:" + (e.error_code.name if getattr(e, "error_code", None) is not None else "NONE")
except BaseException as e:
    out = "exc:" + type(e).__name__ + ":" + str(e)[:80]
print("@@" + json.dumps({"dds": out, "plain": "ok:" + repr(m.target())}))
'''


def run_case(args):
    name, edit = args
    base = tempfile.mkdtemp(prefix="c01syn_", dir=C.scratch_dir())
    try:
        os.makedirs(os.path.join(base, "synpk"))
        open(os.path.join(base, "synpk", "__init__.py"), "w").write("")
        other_tpl = "OTHERV = {var}\n\n\ndef helper3():\n    return {hv}\n"
        open(os.path.join(base, "run.py"), "w").write(RUN)
        outs = []
        for version in (0, 1):
            hv = 11 + (version if edit == "helper" else 0)
            var = 5 + (version if edit == "variable" else 0)
            open(os.path.join(base, "synpk", "m.py"), "w").write(MODULE.format(var=var, hv=hv, body=CONTEXTS[name]))
            open(os.path.join(base, "synpk", "other.py"), "w").write(other_tpl.format(var=var, hv=hv))
            env = C.impl_env()
            rc, out = C.sh([C.PY, os.path.join(base, "run.py"), base], env=env, cwd=base, timeout=120)
            line = [l for l in out.splitlines() if l.startswith("@@")]
            if not line:
                return {"name": name, "edit": edit, "error": out[-400:]}
            outs.append(json.loads(line[-1][2:]))
        return {"name": name, "edit": edit, "outs": outs}
    finally:
        shutil.rmtree(base, ignore_errors=True)


def run(rep, tier, seed, proof_ok):
    jobs = [(n, e) for n in CONTEXTS for e in (("variable",) if n.startswith("global-") else ("helper",))]
    with cf.ThreadPoolExecutor(max_workers=C.NPROC) as ex:
        res = list(ex.map(run_case, jobs))
    dist = {"served-correctly": 0, "rejected-by-dds": 0}
    for r in res:
        rep.case(f"syntax:{r['name']}:{r['edit']}")
        if "error" in r:
            rep.violation("harness-error:c01syntax", f"{r['name']}: " + r["error"][-200:], r, no_input=True)
            continue
        first, second = r["outs"]
        if second["dds"].startswith("dds:") or first["dds"].startswith("dds:"):
            dist["rejected-by-dds"] += 1
            continue
        if first["dds"].startswith("exc:") and second["dds"].startswith("exc:"):
            # the construct is refused on every run (no value is ever served), though not with a coded DDS error:
            # e.g. the immediate call of a lambda expression hits an assertion of the analysis
            dist.setdefault("refused-with-uncoded-exception", []).append(r["name"])
            continue
        if second["dds"] != second["plain"] or first["dds"] != first["plain"]:
            kind = "stale" if second["dds"] == first["dds"] else "wrong"
            rep.violation(f"{kind}:syntax:{r['name']}", f"a kept function uses the {r['edit']} inside a '{r['name']}' construct; after editing the {r['edit']} "
                          f"dds returns {second['dds'][:60]} but plain execution gives {second['plain'][:60]}",
                          {"construct": r["name"], "edit": r["edit"], "body": CONTEXTS[r["name"]], "runs": r["outs"]})
        else:
            dist["served-correctly"] += 1
    rep.extra["syntax_contexts"] = dict(dist, contexts=len(CONTEXTS))
