"""C18 - what an evaluation with dds_export_graph leaves in the store.

Requesting the graph never changes the result or the signatures of an evaluation.  What an evaluation does with its
signatures is: store blobs under them and commit the path -> key map.  So the property is also quantified over the
HISTORY around the export and observed where the signatures end up: on a local store, for every history of evaluations
of a pipeline in which some evaluations request the graph (alone / after or before a plain evaluation of the same
pipeline, in the same process or in another one / stopped after the analysis stage and followed by a plain one), the
same history WITHOUT dds_export_graph is run on another store and the two are compared
  - evaluation by evaluation: result, execution log (what was run), blobs stored (key, value), the map given to
    sync_paths;
  - after the history, without dds: the raw links of the data directory (path -> key) and the keys of the blob directory;
  - after the history, from a fresh process: dds.load of every store path of the program (value, key it was fetched by).
The expected values are those of plain execution, never those of another exported run.

The pipelines are those of c18.py (random ones, corpus, load scenarios) plus a family of shapes in which the analysis
reaches one path several times, under different signatures (known findings F23 / F24: a keep with run-time arguments
nested in the callee of another keep with run-time arguments, and its neighbours): there "the signature of the path" is
whatever the evaluation commits, and any table of signatures that the export builds or touches shows."""
import json
import os
import shutil
import tempfile

import common as C
import hist
import progs as P

# ----------------------------------------------------------------------------- a path analysed under several signatures


def _fn(name, params, stmts, annot=None):
    return {"name": name, "params": [{"name": p, "default": None} for p in params], "annot": annot, "salt": "s_" + name, "stmts": stmts,
            "reads": [], "ext": []}


def _keep(path, callee, pos=(), kw=()):
    return {"k": "keep", "path": path, "callee": ("m0", callee), "pos": [list(e) for e in pos], "kw": [[n, list(e)] for n, e in kw], "layout": "single", "via": "name"}


def _call(callee, args=()):
    return {"k": "call", "callee": ("m0", callee), "args": [list(e) for e in args], "via": "name"}


LIT7 = ["lit", ["int", "7"]]
LITZ = ["lit", ["str", "7a"]]


def nested_family():
    """Pipelines in which a keep is nested in the callee of a keep (the callee of dds.keep(p, g, ...) is also analysed
    through the by-name mention of g, in another calling context).  [(name, prog, call)]"""
    base, inner = _fn("base", [], []), _fn("inner", ["a"], [])
    outer = _fn("outer", ["a"], [_keep("/q", "inner", [["param", 0]])])
    shapes = []

    def add(name, funcs, entry_params=(), pos=()):
        prog = {"pkg": "vpk", "modules": {"m0": {"vars": {}, "funcs": funcs}}, "ext_helpers": {}, "root": ("m0", "top")}
        assert P.find_func(prog, "m0", "top")["params"] == [{"name": p, "default": None} for p in entry_params]
        shapes.append((name, prog, {"a": "call", "mod": "m0", "fn": "top", "style": "eval", "pos": list(pos), "kw": []}))
    # the shape of F23: /b, then /p = outer(/b's value) whose callee keeps /q = inner(its argument)
    add("runtime-keep-in-callee-of-runtime-keep", [base, inner, outer, _fn("top", [], [_keep("/b", "base"), _keep("/p", "outer", [["local", 0]])])])
    # three levels
    mid = _fn("mid", ["a"], [_keep("/r", "inner", [["param", 0]])])
    outer3 = _fn("outer", ["a"], [_keep("/q", "mid", [["param", 0]])])
    add("three-levels-of-runtime-keeps", [base, inner, mid, outer3, _fn("top", [], [_keep("/b", "base"), _keep("/p", "outer", [["local", 0]])])])
    # the nested keep has only literal arguments, the outer one a run-time argument
    outer_lit = _fn("outer", ["a"], [_keep("/q", "inner", [LIT7])])
    add("literal-keep-in-callee-of-runtime-keep", [base, inner, outer_lit, _fn("top", [], [_keep("/b", "base"), _keep("/p", "outer", [["local", 0]])])])
    # the outer keep has only literal arguments, the nested one its parameter
    add("runtime-keep-in-callee-of-literal-keep", [base, inner, outer, _fn("top", [], [_keep("/b", "base"), _keep("/p", "outer", [LIT7])])])
    # the nested node is a data function (no argument: dds refuses data functions with arguments)
    inner_df = _fn("inner", [], [], annot="/q")
    outer_df = _fn("outer", ["a"], [_call("inner")])
    add("data-function-call-in-callee-of-runtime-keep", [base, inner_df, outer_df, _fn("top", [], [_keep("/b", "base"), _keep("/p", "outer", [["local", 0]])])])
    # the run-time argument is the argument of the entry point, given by keyword to the outer keep
    add("entry-argument-by-keyword", [inner, outer, _fn("top", ["a"], [_keep("/p", "outer", [], [["a", ["param", 0]]])])], entry_params=["a"], pos=[["int", "7"]])
    # the nested path is loaded afterwards by another kept function
    reader = _fn("reader", [], [{"k": "load", "path": "/q"}])
    add("nested-path-loaded-by-a-later-keep", [base, inner, outer, reader,
                                              _fn("top", [], [_keep("/b", "base"), _keep("/p", "outer", [["local", 0]]), _keep("/l", "reader")])])
    # the callee is first called directly (its name is known when the keep mentions it), then kept
    add("callee-called-directly-then-kept", [base, inner, outer, _fn("top", [], [_keep("/b", "base"), _call("outer", [["local", 0]]), _keep("/p", "outer", [["local", 0]])])])
    # the callee is kept under two paths with two arguments: its nested path has a signature per calling context
    add("callee-kept-under-two-paths", [base, inner, outer, _fn("top", [], [_keep("/b", "base"), _keep("/p", "outer", [["local", 0]]), _keep("/p2", "outer", [LITZ])])])
    return shapes


# ----------------------------------------------------------------------------- histories

def _variants(call):
    """name -> (detail, process segments of the entry point's evaluations).  E = with dds_export_graph."""
    plain, exp = dict(call), dict(call, export=True)
    dbg = dict(exp, extra_debug=True)
    return {
        "export-alone": ("one evaluation, with dds_export_graph", [[exp]]),
        "analysis-only-export-then-plain": ("an evaluation stopped after the analysis stage with dds_export_graph, then a plain evaluation", [[dict(exp, n_stages=1), plain]]),
        "plain-then-export": ("a plain evaluation, then the same evaluation with dds_export_graph, in one process", [[plain, exp]]),
        "export-then-plain": ("an evaluation with dds_export_graph (and dds_extra_debug=True), then the same evaluation without, in one process", [[dbg, plain]]),
        "plain|export": ("a plain evaluation, then in another process the same evaluation with dds_export_graph", [[plain], [exp]]),
        "export|plain": ("an evaluation with dds_export_graph, then in another process the same evaluation without", [[exp], [plain]]),
    }


GROUPS = [("export-alone", "analysis-only-export-then-plain"), ("plain-then-export", "export-then-plain"), ("plain|export", "export|plain")]
VARIANTS = [v for g in GROUPS for v in g]


def without_export(segments):
    return [[{k: v for k, v in a.items() if k not in ("export", "extra_debug")} for a in seg] for seg in segments]


def scenarios(job, idx, full):
    """The histories of a job: full = every variant, otherwise the two variants of one group (by rotation).  Variants
    whose history without export is the same share one control run."""
    vs = _variants(job["call"])
    names = VARIANTS if full else GROUPS[idx % len(GROUPS)]
    return [{"variant": v, "detail": vs[v][0], "segments": vs[v][1], "prog": job["prog"], "pre": job.get("pre", []), "call": job["call"], "base": idx} for v in names]


def raw_links(data_dir):
    """The committed paths as the files say, without dds: every symbolic link below the data directory."""
    out = {}
    for d, dirs, files in os.walk(data_dir):
        for f in dirs + files:
            fp = os.path.join(d, f)
            if os.path.islink(fp):
                out["/" + os.path.relpath(fp, data_dir)] = os.path.basename(os.readlink(fp))
    return out


def run_segments(prog, pre, segments, paths):
    """Runs the process segments (the pre actions in the first one) against one local store with the real dds
    (drive_prog.py), then reads the store: raw links, blob keys, and dds.load of the paths from a fresh process."""
    root = tempfile.mkdtemp(prefix="c18c_", dir=C.scratch_dir())
    try:
        pkgroot = os.path.join(root, "src")
        os.makedirs(pkgroot)
        P.write_package(prog, pkgroot)
        store = {"kind": "local", "internal_dir": os.path.join(root, "internal"), "data_dir": os.path.join(root, "data")}
        evals = []
        for k, seg in enumerate(segments):
            acts = [hist.impl_action(a) for a in (pre if k == 0 else [])] + [hist.impl_action(a) for a in seg]
            for j, a in enumerate(acts):
                if a.get("export") is True:
                    a["export"] = os.path.join(root, f"g{k}_{j}.plain")
            outs = C.run_driver("drive_prog.py", {"root": pkgroot, "pkg": prog["pkg"], "store": store, "actions": acts, "options": {}})
            for io in outs[len(acts) - len(seg):]:
                sync = [r for r in io["rec"] if r[0] == "sync"]
                evals.append({"out": io["out"], "log": io["log"], "puts": [[r[1], r[2]] for r in io["rec"] if r[0] == "put"],
                              "sync": sorted(map(tuple, sync[-1][1])) if sync else None, "tb": io.get("tb", "")[-300:],
                              "graph": io.get("graph") is not None})
        links = raw_links(store["data_dir"])
        bdir = os.path.join(store["internal_dir"], "blobs")
        blobs = sorted(f for f in (os.listdir(bdir) if os.path.isdir(bdir) else []) if not f.endswith(".meta") and ".tmp." not in f)
        outs = C.run_driver("drive_prog.py", {"root": pkgroot, "pkg": prog["pkg"], "store": store, "actions": [{"a": "load", "path": p} for p in paths], "options": {}})
        loads = {}
        for p, io in zip(paths, outs):
            fetched = [r[1] for r in io["rec"] if r[0] == "fetch"]
            loads[p] = [io["out"], fetched[-1] if fetched else None]
        return {"evals": evals, "links": links, "blobs": blobs, "loads": loads}
    finally:
        shutil.rmtree(root, ignore_errors=True)


def program_paths(prog, call, pre):
    paths = []
    for mn in sorted(prog["modules"]):
        for f in prog["modules"][mn]["funcs"]:
            for p in [f.get("annot")] + [st.get("path") for st in f["stmts"]]:
                if p and p not in paths:
                    paths.append(p)
    for a in list(pre) + [call]:
        if a.get("path") and a["path"] not in paths:
            paths.append(a["path"])
    return paths


def grouped(scs):
    """The scenarios grouped by the history without export they are compared with (run once per group)."""
    groups = {}
    for sc in scs:
        groups.setdefault((sc["base"], json.dumps(without_export(sc["segments"]), sort_keys=True)), []).append(sc)
    return list(groups.values())


def run_group(scs):
    """The histories of a group and, once, the same history without export."""
    try:
        sc = scs[0]
        paths = program_paths(sc["prog"], sc["call"], sc["pre"])
        ctl = run_segments(sc["prog"], sc["pre"], without_export(sc["segments"]), paths)
    except Exception as e:  # noqa
        return [{"sc": sc, "error": str(e)[-600:]} for sc in scs]
    out = []
    for sc in scs:
        try:
            out.append({"sc": sc, "got": run_segments(sc["prog"], sc["pre"], sc["segments"], paths), "ctl": ctl})
        except Exception as e:  # noqa
            out.append({"sc": sc, "error": str(e)[-600:]})
    return out


def _short(k):
    return k if k is None or len(k) < 14 else k[:10] + ".."


def differences(got, ctl):
    """[(aspect, text)] of a history with exports against the same history without, most telling first."""
    out = []
    # from a fresh process
    for p, (o, k) in ctl["loads"].items():
        o2, k2 = got["loads"][p]
        if o.startswith("ok:") and not o2.startswith("ok:"):
            out.append(("fresh-load-fails", f"a fresh process cannot dds.load('{p}') any more: {o2[:40]} (the link of {p} refers to the key {_short(got['links'].get(p))}, "
                        f"blob {'present' if got['links'].get(p) in got['blobs'] else 'not in the store'}); without export it gives {o[:40]} from the key {_short(k)}"))
    for p, (o, k) in ctl["loads"].items():
        o2, k2 = got["loads"][p]
        if o2 != o and not (o.startswith("ok:") and not o2.startswith("ok:")):
            out.append(("fresh-load-differs", f"a fresh process gets {o2[:40]} for dds.load('{p}'), without export {o[:40]}"))
    # the raw links
    dl = sorted(p for p in set(got["links"]) | set(ctl["links"]) if got["links"].get(p) != ctl["links"].get(p))
    if dl:
        out.append(("committed-links-differ", "the links of the data directory differ: " + ", ".join(
            f"{p} -> {_short(got['links'].get(p))} (without export {_short(ctl['links'].get(p))})" for p in dl[:3]) + (f" and {len(dl) - 3} more" if len(dl) > 3 else "")))
    if got["blobs"] != ctl["blobs"]:
        a, b = sorted(set(got["blobs"]) - set(ctl["blobs"])), sorted(set(ctl["blobs"]) - set(got["blobs"]))
        out.append(("stored-blobs-differ", f"the blob directory differs: keys only with export {[_short(k) for k in a[:3]]}, only without {[_short(k) for k in b[:3]]}"))
    # evaluation by evaluation
    for i, (e, c) in enumerate(zip(got["evals"], ctl["evals"])):
        if e["out"] != c["out"]:
            out.append(("result-differs", f"evaluation {i + 1} of the history gives {e['out'][:50]}, without export {c['out'][:50]}" + (f" ({' '.join(e['tb'].split())[-160:]})" if e["tb"] else "")))
            continue
        if e["sync"] != c["sync"]:
            ds = sorted(set(e["sync"] or []) ^ set(c["sync"] or []))
            dp = sorted({p for p, _ in ds})
            out.append(("sync-paths-differ", f"evaluation {i + 1} of the history commits other signatures: " + ", ".join(
                f"{p} -> {_short(dict(e['sync'] or []).get(p))} (without export {_short(dict(c['sync'] or []).get(p))})" for p in dp[:3])))
        if e["puts"] != c["puts"]:
            out.append(("stored-blobs-differ", f"evaluation {i + 1} of the history stores the blobs {[_short(k) for k, _ in e['puts']][:4]}, without export {[_short(k) for k, _ in c['puts']][:4]}"))
        if e["log"] != c["log"]:
            out.append(("executes-differently", f"evaluation {i + 1} of the history runs {e['log'][:8]}, without export {c['log'][:8]}"))
    seen, res = set(), []
    for a, t in out:
        if a not in seen:
            seen.add(a)
            res.append((a, t))
    return res


def replay_json(sc, name):
    return {"commit": True, "shape": name, "variant": sc["variant"], "detail": sc["detail"], "prog": sc["prog"], "call": sc["call"], "pre": sc["pre"],
            "segments": sc["segments"], "segments_without_export": without_export(sc["segments"])}


def check(rep, results, jobs, dist):
    """results of run_group, flattened; dist = the counters of the input distribution."""
    for r in results:
        sc = r["sc"]
        job = jobs[sc["base"]]
        name = job.get("corpus") or job.get("load_scenario") or "random pipeline"
        rj = replay_json(sc, name)
        if "error" in r:
            rep.violation("harness-error:c18-commit", r["error"][-300:], rj, no_input=True)
            continue
        got, ctl = r["got"], r["ctl"]
        if not all(e["out"].startswith("ok:") for e in ctl["evals"]):
            continue            # not a pipeline that evaluates: nothing is demanded of the export
        dist["histories"] += 1
        dist["by_history"][sc["variant"]] = dist["by_history"].get(sc["variant"], 0) + 1
        dist["paths_loaded_from_a_fresh_process"] += len([1 for o, _ in ctl["loads"].values() if o.startswith("ok:")])
        rep.case("commit:" + sc["variant"] + name + json.dumps(sc["call"]) + str(sorted(ctl["links"].items()))[:300], nontrivial=len(ctl["links"]) >= 2)
        where = (f"entry {sc['call']['mod']}.{sc['call']['fn']} ({name}; committed paths {sorted(ctl['links'])[:6]}), history '{sc['variant']}' ({sc['detail']}) on a local store")
        for aspect, text in differences(got, ctl):
            rep.violation(f"export-commit:{aspect}:{sc['variant']}", f"{where}: {text}", dict(rj, got=got, without_export=ctl))
        for i, (a, e) in enumerate(zip([a for seg in sc["segments"] for a in seg], got["evals"])):
            if a.get("export") and e["out"].startswith("ok:") and not e["graph"]:
                rep.violation(f"export-commit:export-missing:{sc['variant']}", f"{where}: evaluation {i + 1} succeeded but no graph file was written", rj)


def replay(r):
    r["prog"]["root"] = tuple(r["prog"]["root"])
    sc = {"variant": r["variant"], "detail": r["detail"], "prog": r["prog"], "call": r["call"], "pre": r.get("pre", []), "segments": r["segments"], "base": 0}
    x = run_group([sc])[0]
    if "error" in x:
        print("harness error:", x["error"])
        return 2
    print(f"history '{r['variant']}' ({r['detail']}), entry {r['call']['mod']}.{r['call']['fn']} ({r.get('shape')})")
    for tag, o in (("with export   ", x["got"]), ("without export", x["ctl"])):
        print(tag, ": results", [e["out"][:40] for e in o["evals"]])
        print(tag, ": links  ", sorted((p, _short(k)) for p, k in o["links"].items()))
        print(tag, ": fresh process loads", sorted((p, v[0][:30], _short(v[1])) for p, v in o["loads"].items()))
    diffs = differences(x["got"], x["ctl"])
    for a, t in diffs:
        print("  ", a + ":", t[:400])
    print("REPRODUCED" if diffs else "not reproduced")
    return 1 if diffs else 0
