"""Encoded Python values shared by the C05 / C13 / C01 harnesses: generation, rendering as Coq terms
(L0_Hash.PyVal.pyval), canonical form modulo the documented identifications, collision classes."""
import hashlib
import itertools
import struct

from common import hexs


def s_(x):
    return ["str", x.encode("utf-8", "surrogatepass").hex()] if "\ud800" not in x else ["strbad", x.encode("utf-8", "surrogatepass").hex()]


def f_(x):
    return ["float", struct.pack("!d", x).hex()]


def i_(n):
    return ["int", str(n)]


H = lambda b: hashlib.sha256(b).hexdigest()

ATOMS_INT = [0, 1, -1, 7, 2**31 - 1, -(2**31), 2**31, -(2**31) - 1, 2**64, -(2**70), 0x41424344]
ATOMS_FLOAT = [0.0, -0.0, 1.0, 1.5, float("nan"), float("inf"), float("-inf"), struct.unpack("!d", b"ABCDEFGH")[0], 5e-324]
ATOMS_STR = ["", "|", "a", "b", "ab", "ABCD", "ABCDEFGH", "__DDS_NONE__", "__none__", "é", "a|b", H(b"a"),
             H(b"a") + "|" + H(b"b"), "\ud800", "None", "0", "\x00\x00\x00\x01"]
ATOMS_PATH = ["a", "/x/y", "__DDS_NONE__", ".", "../data", "a/../b", "../../x/y", ".."]
ATOMS_DATE = ["datetime.date(2020, 1, 2)", "datetime.datetime(2020, 1, 2, 3, 4)", "datetime.time(1, 2)",
              "datetime.timedelta(days=3)", "datetime.timezone.utc"]
ATOMS_OTHER = ["bytes", "set", "object", "complex"]


def atoms():
    out = [["none"], ["bool", True], ["bool", False]]
    out += [i_(n) for n in ATOMS_INT]
    out += [f_(x) for x in ATOMS_FLOAT]
    out += [s_(x) for x in ATOMS_STR]
    out += [["path", p.encode().hex()] for p in ATOMS_PATH]
    out += [["date", d] for d in ATOMS_DATE]
    # the text form of each date / a text equal to a path: documented identifications
    out += [s_(d) for d in ATOMS_DATE[:2]]
    out += [["other", k] for k in ATOMS_OTHER]
    return out


def key_atoms():
    return [s_("a"), s_("b"), s_(""), i_(0), i_(1), i_(2**40), ["none"], ["tuple", [i_(1), s_("a")]], f_(1.5)]


def to_coq(e):
    t = e[0]
    if t == "none":
        return "VNone"
    if t == "bool":
        return "(VBool true)" if e[1] else "(VBool false)"
    if t == "int":
        return f"(VInt ({e[1]})%Z)"
    if t == "float":
        return f'(VFloat (hx "{e[1]}"))'
    if t == "str":
        return f'(VStr (hx "{e[1]}"))'
    if t == "strbad":
        return f'(VStrBad (hx "{e[1]}"))'
    if t == "list":
        return "(VList [" + "; ".join(to_coq(x) for x in e[1]) + "])"
    if t == "tuple":
        return "(VTuple [" + "; ".join(to_coq(x) for x in e[1]) + "])"
    if t in ("path", "ppath"):       # ppath: a concrete pathlib.Path (a PurePosixPath for dds_hash)
        return f'(VPath (hx "{e[1]}"))'
    if t in ("dict", "odict"):
        return "(VDict [" + "; ".join(f"({to_coq(k)}, {to_coq(v)})" for (k, v) in e[1]) + "])"
    if t == "data":
        return f"(VData {hexs(e[1])} [" + "; ".join(f"({hexs(n)}, {to_coq(v)})" for (n, v) in e[2]) + "])"
    if t == "date":
        return f"(VDate {hexs(e[1])})"
    if t == "canon":
        return f"(VCanon {hexs(e[1])})"
    if t == "other":
        return "VOther"
    raise ValueError(t)


def size(e):
    t = e[0]
    if t in ("list", "tuple"):
        return 1 + sum(size(x) for x in e[1])
    if t in ("dict", "odict"):
        return 1 + sum(size(k) + size(v) for (k, v) in e[1])
    if t == "data":
        return 1 + sum(size(v) for (_, v) in e[2])
    return 1


def depth(e):
    t = e[0]
    if t in ("list", "tuple"):
        return 1 + max([depth(x) for x in e[1]] + [0])
    if t in ("dict", "odict"):
        return 1 + max([max(depth(k), depth(v)) for (k, v) in e[1]] + [0])
    if t == "data":
        return 1 + max([depth(v) for (_, v) in e[2]] + [0])
    return 0


def canon(e):
    """Canonical form modulo the documented identifications: list=tuple, bool=int, path/date = text form,
    dict = OrderedDict.  None if the value is outside the supported universe."""
    t = e[0]
    if t == "none":
        return ("none",)
    if t == "bool":
        return ("int", int(e[1]))
    if t == "int":
        return ("int", int(e[1]))
    if t == "float":
        return ("float", e[1])
    if t in ("str", "strbad", "path", "ppath"):
        return ("text", e[1])
    if t == "date":
        return ("text", e[1].encode().hex())
    if t == "canon":
        return ("text", ("<" + e[1] + ">").encode().hex())
    if t in ("list", "tuple"):
        xs = [canon(x) for x in e[1]]
        return None if any(x is None for x in xs) else ("seq", tuple(xs))
    if t in ("dict", "odict"):
        xs = [(canon(k), canon(v)) for (k, v) in e[1]]
        return None if any(k is None or v is None for (k, v) in xs) else ("map", tuple(xs))
    if t == "data":
        xs = [(n, canon(v)) for (n, v) in e[2]]
        return None if any(v is None for (_, v) in xs) else ("data", e[1], tuple(xs))
    return None


def _is_hexjoin(hexbytes):
    try:
        s = bytes.fromhex(hexbytes).decode("ascii")
    except Exception:
        return False
    parts = s.split("|")
    return all(len(p) == 64 and all(c in "0123456789abcdef" for c in p) for p in parts)


def collision_class(c1, c2):
    """Name the class of a collision between two canonical forms with c1 != c2 (harness classification of
    the known-confusion generators of DESIGN.md section 5/C05)."""
    if c1 == c2:
        return "same"
    k1, k2 = c1[0], c2[0]

    def empty(c):
        return (c[0] in ("seq", "map") and len(c[1]) == 0) or (c[0] == "data" and len(c[2]) == 0) or (c[0] == "text" and c[1] == "")

    if empty(c1) and empty(c2):
        return "collide:empty-containers-and-empty-text"
    ks = {k1, k2}
    pair = {k1: c1, k2: c2}
    if ks == {"none", "text"} and pair["text"][1] == b"__DDS_NONE__".hex():
        return "collide:none-vs-marker-text"
    if ks == {"int", "text"} and len(pair["text"][1]) == 8:
        return "collide:int-vs-4byte-text"
    if ks == {"float", "text"} and len(pair["text"][1]) == 16:
        return "collide:float-vs-8byte-text"
    if ks == {"seq", "text"} and _is_hexjoin(pair["text"][1]):
        return "collide:container-vs-text-of-joined-hashes"
    if ks == {"map", "text"} and _is_hexjoin(pair["text"][1]):
        return "collide:container-vs-text-of-joined-hashes"
    if ks == {"data", "text"} and _is_hexjoin(pair["text"][1]):
        return "collide:container-vs-text-of-joined-hashes"
    if ks == {"seq", "map"} or ks == {"seq", "data"} or ks == {"map", "data"}:
        return "collide:container-vs-container-of-hash-texts"
    if k1 == k2 == "data":
        if c1[1] != c2[1] and c1[2] == c2[2]:
            return "collide:dataclass-class-name-ignored"
        if len(c1[2]) == len(c2[2]) and [n for n, _ in c1[2]] == [n for n, _ in c2[2]]:
            for (_, a), (_, b) in zip(c1[2], c2[2]):
                if a != b:
                    return collision_class(a, b)
    if k1 == k2 == "seq" and len(c1[1]) == len(c2[1]):
        for a, b in zip(c1[1], c2[1]):
            if a != b:
                return collision_class(a, b)
    if k1 == k2 == "map" and len(c1[1]) == len(c2[1]):
        for (ka, va), (kb, vb) in zip(c1[1], c2[1]):
            if ka != kb:
                return collision_class(ka, kb)
            if va != vb:
                return collision_class(va, vb)
    return f"collide:UNCLASSIFIED:{k1}-vs-{k2}"


def enumerate_values(rng, tier):
    """Mostly exhaustive small universe + constructed confusions + random deeper values."""
    A = atoms()
    vals = list(A)
    K = key_atoms()
    small = [a for a in A if a[0] != "other"][:]
    # width-0/1/2 sequences over all atoms
    for ctor in ("list", "tuple"):
        vals.append([ctor, []])
        vals += [[ctor, [a]] for a in A]
    pairs = list(itertools.product(range(len(A)), repeat=2))
    rng.shuffle(pairs)
    npairs = 400 if tier == "quick" else len(pairs)
    for (i, j) in pairs[:npairs]:
        vals.append(["list" if (i + j) % 2 else "tuple", [A[i], A[j]]])
    # dicts
    vals.append(["dict", []])
    vals.append(["odict", []])
    for k in K:
        for a in (A if tier != "quick" else rng.sample(A, 12)):
            vals.append(["dict" if rng.random() < 0.7 else "odict", [[k, a]]])
    for _ in range(150 if tier == "quick" else 1500):
        ks = rng.sample(K, 2)
        if {tuple(map(str, ks[0])), tuple(map(str, ks[1]))} == {("int", "1"), ("bool", "True")}:
            continue
        vals.append(["dict", [[ks[0], rng.choice(A)], [ks[1], rng.choice(A)]]])
    # dataclasses
    vals.append(["data", "A", []])
    for a in A:
        vals.append(["data", "A", [["x", a]]])
    for a in rng.sample(A, 10):
        vals.append(["data", "B", [["x", a]]])
        vals.append(["data", "A", [["y", a]]])
        vals.append(["data", "A", [["x", a], ["y", rng.choice(A)]]])
    # constructed confusions (need the digest of sub-values: computed by the generator with hashlib)
    hA, hB = H(b"a"), H(b"b")
    vals.append(["list", [s_(hA + "|" + hB)]])           # dict {"a":"b"} vs list of pair-texts
    vals.append(["dict", [[s_("a"), s_("b")]]])
    vals.append(s_(H((hA + "|" + hB).encode())))         # text vs dict {"a": "b"}
    vals.append(["dict", [[s_("x"), s_(H(struct.pack("!l", 1)))]]])   # dataclass A(x=1) vs dict
    vals.append(["data", "A", [["x", i_(1)]]])
    vals.append(["dict", [[s_("a"), i_(1)]]])                       # dict vs list of pairs (both clean)
    vals.append(["list", [["tuple", [s_("a"), i_(1)]]]])
    vals.append(["dict", [[s_("x"), ["list", [i_(1)]]]]])           # dataclass A(x=1) vs dict {"x": [1]}
    # nesting 2..3 and random deeper values
    n_rand = 600 if tier == "quick" else 8000

    def rnd(d):
        r = rng.random()
        if d == 0 or r < 0.35:
            return rng.choice(A)
        if r < 0.6:
            return [rng.choice(["list", "tuple"]), [rnd(d - 1) for _ in range(rng.randint(0, 3))]]
        if r < 0.85:
            ks = rng.sample(K, rng.randint(0, 3))
            seen, kv = set(), []
            for k in ks:
                ck = ("int", 1) if k in (["bool", True], i_(1)) else tuple(map(str, k))
                if ck in seen:
                    continue
                seen.add(ck)
                kv.append([k, rnd(d - 1)])
            return [rng.choice(["dict", "odict"]), kv]
        names = rng.sample(["x", "y", "z"], rng.randint(0, 3))
        return ["data", rng.choice(["A", "B"]), [[n, rnd(d - 1)] for n in names]]

    for _ in range(n_rand):
        vals.append(rnd(rng.choice([2, 2, 3, 4] if tier != "quick" else [2, 2, 3])))
    return vals
