"""C05 - declared value classes: dataclasses as people write them (init=False fields set in __post_init__ from an
InitVar / a constant / another field, default / default_factory, compare / repr / hash / kw_only flags, ClassVar and
InitVar pseudo-fields, methods, properties, frozen / slots / eq / order / unsafe_hash / kw_only classes, inheritance
chains with overridden defaults, private (mangled) and unicode field names, fields assigned after construction,
non-field attributes, nesting), plus namedtuples, subclasses of the builtin types, dict subclasses and enums.

Encoding (an extension of values.py that values.py itself does not need to know about): a value keeps the shape
values.py understands, followed by ONE extra element that only the driver reads (harness/drive_c05.py):

  ["data", name, [[field, value]...], decl]     a declared dataclass; the 3rd element is the EXPECTED abstract view -
                                                dataclasses.fields() in order with their values - computed here by
                                                `view` (a small model of the dataclass semantics) and re-checked by
                                                the driver against plain Python (fields / getattr / asdict)
  ["tuple", [...], {"nt": name, "names": [..]}] a namedtuple (is a tuple)
  [tag, payload, {"sub": 1}]                    an instance of a subclass of str / int / float / list / tuple / dict
  ["dict", [...], {"cls": "defaultdict"|"Counter"}]
  ["int", n, {"enum": 1}] / ["str", hex, {"enum": 1}]   a member of an IntEnum / of a class E(str, Enum)

decl = {"classes": [{"name", "params": {dataclass(...) keywords}, "members": [member...]}...]   (base first; each class
                                                                                                 derives from the previous)
        "args":  [[name, value]...]     keyword arguments of the constructor (fields with init=True and InitVars)
        "post":  [[field, src]...]      assignments of __post_init__ (of the last class): src = ["arg", name] (an InitVar
                                        or another field) | ["const", value]
        "set":   [[field, value]...]    fields assigned after construction
        "attrs": [[name, value]...]     non-field attributes assigned after construction
        "unset": [field...]             fields that are left without a value (probe only)}
member = {"n": name, "k": "field"|"initvar"|"classvar"|"attr"|"method"|"property", "init", "default": None|["v", value]|
          ["f", value] (default_factory), "compare", "repr", "hash", "kw_only"}
"""
import values as V
from values import s_, f_, i_

FLAG_DEFAULTS = {"init": True, "compare": True, "repr": True, "hash": None, "kw_only": False}


def fld(n, default=None, **flags):
    m = {"n": n, "k": "field", "default": default}
    m.update(FLAG_DEFAULTS)
    m.update(flags)
    return m


def ivar(n, default=None):
    return {"n": n, "k": "initvar", "default": default, "init": True, "kw_only": False}


def other(kind, n, v=None):
    """kind: classvar | attr (un-annotated class attribute) | method | property - none of them is a field."""
    return {"n": n, "k": kind, "default": None if v is None else ["v", v]}


def cls(name, members, **params):
    return {"name": name, "params": params, "members": members}


def mangle(cname, n):
    """Name mangling of private names in a class body (applies to the annotations, hence to the field names)."""
    if n.startswith("__") and not n.endswith("__") and cname.lstrip("_"):
        return "_" + cname.lstrip("_") + n
    return n


def hashable_default(e):
    """dataclasses refuses unhashable default values (list, dict, set, instances of eq dataclasses): those need a factory."""
    if e[0] in ("none", "bool", "int", "float", "str", "strbad", "path", "date"):
        return True
    if e[0] == "tuple":
        return all(hashable_default(x) for x in e[1])
    return False


def members_of(decl):
    """Effective (mangled) name -> (member, index of the declaring class), plus the order of first declaration:
    a field redeclared in a derived class keeps its position and takes the new definition."""
    order, info = [], {}
    for ci, c in enumerate(decl["classes"]):
        for m in c["members"]:
            if m["k"] in ("field", "initvar"):
                n = mangle(c["name"], m["n"])
                if n not in info:
                    order.append(n)
                info[n] = (m, ci)
    return order, info


class Unset(Exception):
    pass


def view(decl):
    """The abstract value of the instance: [[name, value]...] for dataclasses.fields() in order (InitVar / ClassVar
    pseudo-fields, class attributes, methods and non-field attributes are not part of it)."""
    order, info = members_of(decl)
    args = dict((n, v) for (n, v) in decl["args"])
    vals = {}
    for n in order:
        m = info[n][0]
        if m["init"] and n in args:
            vals[n] = args[n]
        elif m["default"] is not None:
            vals[n] = m["default"][1]
    for (t, src) in decl.get("post", []):
        vals[t] = vals[src[1]] if src[0] == "arg" else src[1]
    for (t, v) in decl.get("set", []):
        vals[t] = v
    out = []
    for n in order:
        if info[n][0]["k"] != "field" or n in decl.get("unset", []):
            continue
        if n not in vals:
            raise Unset(n)
        out.append([n, vals[n]])
    return out


def normalise(classes):
    """Respect the rules of the dataclass decorator so that every generated declaration is accepted: no positional
    parameter without default after one with a default (along the whole chain), unhashable defaults through a
    factory, InitVar pseudo-fields are never keyword-only here (the order of the __post_init__ parameters)."""
    seen_default = False
    for c in classes:
        for m in c["members"]:
            if m["k"] not in ("field", "initvar"):
                continue
            if m["default"] is not None and m["default"][0] == "v" and not hashable_default(m["default"][1]):
                m["default"] = ["f", m["default"][1]] if m["k"] == "field" else ["v", i_(0)]
            if not m["init"] or m.get("kw_only") or c["params"].get("kw_only"):
                continue
            if m["default"] is not None:
                seen_default = True
            elif seen_default:
                m["default"] = ["v", i_(0)]
    return classes


def mk(classes, args, post=(), sets=(), attrs=(), unset=()):
    classes = normalise(classes)
    decl = {"classes": classes, "args": [list(a) for a in args], "post": [list(p) for p in post],
            "set": [list(s) for s in sets], "attrs": [list(a) for a in attrs]}
    if unset:
        decl["unset"] = list(unset)
    return ["data", classes[-1]["name"], view(decl), decl]


def field_flags(e, name):
    """Declared properties of field `name` of the dataclass value e that differ from an ordinary field (for messages and
    violation keys)."""
    if len(e) < 4:
        return "plain"
    order, info = members_of(e[3])
    if name not in info:
        return "plain"
    m, ci = info[name]
    fl = [f"{k}={m[k]}" for k in ("init", "compare", "repr", "hash", "kw_only") if m.get(k, FLAG_DEFAULTS[k]) != FLAG_DEFAULTS[k]]
    if m["default"] is not None:
        fl.append("default" if m["default"][0] == "v" else "default_factory")
    if ci < len(e[3]["classes"]) - 1:
        fl.append("inherited")
    if any(t == name for (t, _) in e[3].get("set", [])):
        fl.append("assigned-after-init")
    return ",".join(fl) or "plain"


def class_flags(e):
    if len(e) < 4:
        return ""
    ps = sorted(set(k for c in e[3]["classes"] for (k, v) in c["params"].items() if v is True) |
                set(k + "=False" for c in e[3]["classes"] for (k, v) in c["params"].items() if v is False))
    bases = [c["name"] for c in e[3]["classes"][:-1]]
    return "<" + ",".join((["bases=" + "/".join(bases)] if bases else []) + ps) + ">" if ps or bases else ""


def show(e):
    """Compact Python-like text of an encoded value (messages only)."""
    t = e[0]
    extra = e[2] if len(e) > 2 and isinstance(e[2], dict) else {}
    if t == "data":
        inner = ", ".join(f"{n}={show(v)}" + (f" [{field_flags(e, n)}]" if field_flags(e, n) != "plain" else "") for (n, v) in e[2])
        return f"{e[1]}{class_flags(e)}({inner})"
    if t in ("list", "tuple"):
        inner = ", ".join(show(x) for x in e[1])
        if "nt" in extra:
            return f"namedtuple:{extra['nt']}({inner})"
        return ("sub" if "sub" in extra else "") + (f"[{inner}]" if t == "list" else f"({inner})")
    if t in ("dict", "odict"):
        return extra.get("cls", "sub" if "sub" in extra else ("OrderedDict" if t == "odict" else "")) + "{" + ", ".join(f"{show(k)}: {show(v)}" for (k, v) in e[1]) + "}"
    if t == "none":
        return "None"
    if t in ("bool", "int"):
        return ("enum:" if "enum" in extra else "") + str(e[1])
    if t == "float":
        import struct
        return repr(struct.unpack("!d", bytes.fromhex(e[1]))[0])
    if t in ("str", "strbad"):
        return ("enum:" if "enum" in extra else "") + repr(bytes.fromhex(e[1]).decode("utf-8", "surrogatepass"))
    if t in ("path", "ppath"):
        return "Path(%r)" % bytes.fromhex(e[1]).decode("utf-8")
    return str(e[1]) if len(e) > 1 else t


# ------------------------------------------------------------------------------------------------ systematic families

VARY = [i_(1), i_(2), s_("a")]          # the values taken by the field that distinguishes the members of a group
CLASS_PARAMS = [{}, {"frozen": True}, {"slots": True}, {"frozen": True, "slots": True}, {"eq": False}, {"order": True},
                {"unsafe_hash": True}, {"kw_only": True}]


def families(rng, tier):
    """Groups of values of one declared class (same class name, same field names) whose members differ in ONE declared
    field - so that every group is a set of pairwise unequal values (or, for the `same` groups, of equal values that
    differ only in something that is NOT a field).  Returns [(family name, [values])]."""
    G = []
    quick = tier == "quick"
    params = CLASS_PARAMS if not quick else [{}] + rng.sample(CLASS_PARAMS[1:], 3)
    # 1. a field with init=False set in __post_init__ from an InitVar (the derived-configuration idiom)
    for p in CLASS_PARAMS:
        G.append(("initvar-derived", [
            mk([cls("S", [fld("name"), fld("frac"), ivar("total"), fld("n", init=False)], **p)],
               [["name", s_("s")], ["frac", f_(0.5)], ["total", v]], post=[["n", ["arg", "total"]]]) for v in VARY]))
    # 2. init=False with a default / a default_factory, assigned after construction
    for dflt in (["v", i_(0)], ["f", ["list", []]], ["f", ["dict", [[s_("k"), i_(0)]]]]):
        G.append(("init-false-assigned", [mk([cls("S", [fld("x"), fld("n", init=False, default=dflt)])], [["x", i_(7)]])] + [
            mk([cls("S", [fld("x"), fld("n", init=False, default=dflt)])], [["x", i_(7)]], sets=[["n", v]]) for v in VARY]))
    # 3. init=False set in __post_init__ from a constant / from another field / from a default'd InitVar
    G.append(("init-false-const", [mk([cls("S", [fld("x"), fld("tag", init=False)])], [["x", i_(7)]], post=[["tag", ["const", v]]])
                                   for v in VARY + [["list", [i_(1)]]]]))
    G.append(("init-false-copy", [mk([cls("S", [fld("x"), fld("y", init=False), fld("z")])], [["x", v], ["z", i_(7)]],
                                     post=[["y", ["arg", "x"]]]) for v in VARY]))
    G.append(("initvar-default", [mk([cls("S", [fld("x"), ivar("t", ["v", i_(5)]), fld("n", init=False)])], [["x", i_(7)]] + a,
                                     post=[["n", ["arg", "t"]]]) for a in ([], [["t", i_(5)]], [["t", i_(6)]])]))
    # 4. the other flags of field(): every one of them leaves the field a field
    for flag in ({"compare": False}, {"repr": False}, {"hash": False}, {"kw_only": True}, {"compare": False, "repr": False, "hash": False},
                 {"init": False, "compare": False}):
        for p in (params if not quick else params[:2]):
            members = [fld("x"), fld("y", **flag)]
            if flag.get("init") is False:
                G.append(("field-flags", [mk([cls("S", [fld("x"), fld("y", **flag)], **p)], [["x", i_(7)]], post=[["y", ["const", v]]])
                                          for v in VARY]))
            else:
                G.append(("field-flags", [mk([cls("S", members, **p)], [["x", i_(7)], ["y", v]]) for v in VARY]))
    # 5. defaults: omitted argument = explicit argument equal to the default (same value), other argument (other value)
    for dflt, same, diff in ((["v", i_(1)], i_(1), i_(2)), (["f", ["list", [i_(1)]]], ["list", [i_(1)]], ["list", [i_(2)]]),
                             (["v", ["none"]], ["none"], i_(0)), (["v", s_("")], s_(""), s_("a"))):
        G.append(("default", [mk([cls("S", [fld("x"), fld("y", default=dflt)])], [["x", i_(7)]] + a)
                              for a in ([], [["y", same]], [["y", diff]])]))
    # 6. class-level parameters, with an ordinary pair of fields
    for p in CLASS_PARAMS[1:]:
        G.append(("class-params", [mk([cls("S", [fld("x"), fld("y")], **p)], [["x", i_(7)], ["y", v]]) for v in VARY[:2]]))
    # 7. inheritance: fields of the bases come first; a redeclared field keeps its position
    for p in ({}, {"frozen": True}, {"slots": True}):
        G.append(("inherit-base-field", [mk([cls("B", [fld("x")], **p), cls("D", [fld("y")], **p)], [["x", v], ["y", i_(7)]]) for v in VARY]))
        G.append(("inherit-own-field", [mk([cls("B", [fld("x")], **p), cls("D", [fld("y")], **p)], [["x", i_(7)], ["y", v]]) for v in VARY]))
        G.append(("inherit-base-init-false", [mk([cls("B", [ivar("t"), fld("n", init=False)], **p), cls("D", [fld("y")], **p)],
                                                 [["t", v], ["y", i_(7)]], post=[["n", ["arg", "t"]]]) for v in VARY]))
    G.append(("inherit-3", [mk([cls("B", [fld("x")]), cls("M", [fld("y")]), cls("D", [fld("z")])], [["x", v], ["y", i_(7)], ["z", i_(8)]])
                            for v in VARY]))
    G.append(("inherit-3", [mk([cls("B", [fld("x")]), cls("M", [other("method", "m")]), cls("D", [fld("z", init=False, default=["v", i_(0)])])],
                               [["x", i_(7)]], sets=[["z", v]]) for v in VARY]))
    G.append(("inherit-override", [mk([cls("B", [fld("x"), fld("y", default=["v", i_(1)])]), cls("D", [fld("y", default=["v", i_(2)]), fld("z", default=["v", i_(0)])])],
                                      [["x", i_(7)]] + a) for a in ([], [["y", i_(1)]], [["y", i_(2)]], [["z", i_(1)]])]))
    G.append(("inherit-override", [mk([cls("B", [fld("x"), fld("y", default=["v", i_(1)])]), cls("D", [fld("y", init=False, default=["v", v])])],
                                      [["x", i_(7)]]) for v in VARY]))
    # 8. things that are NOT fields: members of a group are EQUAL values (same signature expected)
    G.append(("same:classvar", [mk([cls("S", [fld("x"), other("classvar", "c", v)])], [["x", i_(7)]]) for v in VARY]))
    G.append(("same:initvar-unused", [mk([cls("S", [fld("x"), ivar("t", ["v", i_(0)])])], [["x", i_(7)]] + a)
                                      for a in ([], [["t", i_(1)]], [["t", s_("a")]])]))
    G.append(("same:attribute", [mk([cls("S", [fld("x")])], [["x", i_(7)]], attrs=a) for a in ([], [["extra", i_(1)]], [["extra", i_(2)], ["n", i_(3)]])]))
    G.append(("same:class-members", [mk([cls("S", [fld("x")] + ms)], [["x", i_(7)]]) for ms in
                                     ([], [other("method", "m")], [other("property", "p")], [other("attr", "k", i_(1))],
                                      [other("classvar", "c", i_(1)), other("method", "y"), other("attr", "z", i_(2))])]))
    G.append(("classvar-vs-field", [mk([cls("S", [fld("x"), other("classvar", "c", i_(1))])], [["x", i_(7)]]),
                                    mk([cls("S", [fld("x"), fld("c", default=["v", i_(1)])])], [["x", i_(7)]]),
                                    mk([cls("S", [other("classvar", "c", i_(1))])], []),
                                    mk([cls("S", [ivar("t")])], [["t", i_(1)]])]))
    # 9. nesting: a dataclass that differs only in its init=False field, inside the usual containers
    inner = [mk([cls("C", [fld("name"), ivar("total"), fld("n", init=False)], frozen=True)], [["name", s_("s")], ["total", v]],
                post=[["n", ["arg", "total"]]]) for v in VARY[:2]]
    G.append(("nested:field", [mk([cls("O", [fld("cfg"), fld("k")])], [["cfg", c], ["k", i_(1)]]) for c in inner]))
    G.append(("nested:init-false-field", [mk([cls("O", [fld("k"), fld("cfg", init=False)])], [["k", i_(1)]], post=[["cfg", ["const", c]]]) for c in inner]))
    G.append(("nested:default-factory", [mk([cls("O", [fld("k"), fld("cfg", default=["f", inner[0]])])], [["k", i_(1)]] + a)
                                         for a in ([], [["cfg", inner[0]]], [["cfg", inner[1]]])]))
    G.append(("nested:list", [["list", [c, i_(1)]] for c in inner]))
    G.append(("nested:tuple", [["tuple", [i_(1), ["list", [c]]]] for c in inner]))
    G.append(("nested:dict-value", [["dict", [[s_("cfg"), c]]] for c in inner]))
    G.append(("nested:dict-key", [["dict", [[c, i_(1)]]] for c in inner]))
    G.append(("nested:namedtuple", [["tuple", [c, i_(1)], {"nt": "P", "names": ["cfg", "k"]}] for c in inner]))
    # 10. field names: like each other's values, declared in the other order, unicode, private (mangled), marker-like
    G.append(("names:like-values", [mk([cls("S", [fld("x"), fld("y")])], [["x", s_(a)], ["y", s_(b)]])
                                    for (a, b) in (("x", "y"), ("y", "x"), ("y", "y"), ("x", "x"))]))
    G.append(("names:declared-order", [mk([cls("S", [fld(a), fld(b)])], [["x", s_("x")], ["y", s_("y")]]) for (a, b) in (("x", "y"), ("y", "x"))]))
    G.append(("names:unicode", [mk([cls("S", [fld("é"), fld("e")])], [["é", v], ["e", s_("é")]]) for v in VARY]))
    G.append(("names:private", [mk([cls("S", [fld("__n"), fld("_S__m", default=["v", i_(0)])])], [["_S__n", v]]) for v in VARY]))
    G.append(("names:private", [mk([cls("B", [fld("__n")]), cls("D", [fld("__n", default=["v", i_(0)])])], [["_B__n", i_(7)], ["_D__n", v]])
                                for v in VARY]))
    G.append(("names:marker", [mk([cls("S", [fld("__DDS_NONE__"), fld("__none__", default=["v", ["none"]])])], [["__DDS_NONE__", v]])
                               for v in (["none"], s_("__DDS_NONE__"), s_("__none__"))]))
    # 11. namedtuples, subclasses of the builtin types, dict subclasses, enums
    G.append(("namedtuple", [["tuple", [v, s_("a")], {"nt": "P", "names": ["x", "y"]}] for v in VARY]))
    G.append(("same:namedtuple", [["tuple", [i_(1), s_("a")]], ["tuple", [i_(1), s_("a")], {"nt": "P", "names": ["x", "y"]}],
                                  ["tuple", [i_(1), s_("a")], {"nt": "Q", "names": ["y", "x"]}], ["list", [i_(1), s_("a")], {"sub": 1}]]))
    G.append(("same:dict-classes", [["dict", [[s_("a"), i_(1)], [s_("b"), i_(2)]]] + x for x in ([], [{"cls": "defaultdict"}], [{"cls": "Counter"}], [{"sub": 1}])]
              + [["odict", [[s_("a"), i_(1)], [s_("b"), i_(2)]]]]))
    G.append(("dict-orderings", [[t, kv] for t in ("dict", "odict") for kv in ([[s_("a"), i_(1)], [s_("b"), i_(2)]], [[s_("b"), i_(2)], [s_("a"), i_(1)]])]))
    for base in (i_(2), i_(2**40), s_("a"), f_(1.5), ["tuple", [i_(1)]], ["list", []]):
        G.append(("same:subclass", [base, base + [{"sub": 1}]] + ([base + [{"enum": 1}]] if base[0] in ("int", "str") else [])))
    G.append(("nested-empty", [["list", [["list", []]]], ["list", [["list", []], ["list", []]]], ["list", [["list", [["list", []]]]]],
                               ["list", [["dict", []]]], ["dict", [[s_(""), ["list", []]]]], ["tuple", [["tuple", []], ["list", []]]],
                               mk([cls("S", [fld("x", default=["f", ["list", []]])])], []), mk([cls("S", [fld("x", default=["f", ["list", [["list", []]]]])])], [])]))
    return G


# ------------------------------------------------------------------------------------------------ random declarations

def random_pair(rng, values, depth=1):
    """A random declaration (chain of 1-3 classes, random kinds / flags / defaults / class parameters) instantiated
    twice: the two instances differ in exactly ONE field of dataclasses.fields(), chosen uniformly - whatever way that
    field gets its value (argument, default, __post_init__ from an InitVar / constant, assignment after construction)."""
    def val():
        if depth > 0 and rng.random() < 0.15:
            return random_pair(rng, values, depth - 1)[0][0]
        return rng.choice(values)

    frozen = rng.random() < 0.3
    slots = rng.random() < 0.25     # along the whole chain: CPython drops the class-level default of an init=False field of a
    #                                 slots base, and the __init__ of a derived class without slots does not assign it
    names = ["x", "y", "z", "n", "b", "a", "w", "k"]
    rng.shuffle(names)
    classes, post, args, sets, attrs = [], [], [], [], []
    nclasses = rng.choice([1, 1, 1, 2, 2, 3])
    how = {}          # field -> how its value can be changed
    ni = 0
    for ci in range(nclasses):
        p = {}
        if frozen:
            p["frozen"] = True
        if slots:
            p["slots"] = True
        for k, pr in (("order", 0.15), ("unsafe_hash", 0.1), ("kw_only", 0.15)):
            if rng.random() < pr:
                p[k] = True
        if rng.random() < 0.1 and not p.get("order"):
            p["eq"] = False
        ms = []
        for _ in range(rng.randint(0 if ci else 1, 3)):
            if ni >= len(names):
                break
            n = names[ni]
            ni += 1
            r = rng.random()
            if r < 0.12:
                ms.append(other(rng.choice(["classvar", "attr", "method", "property"]), n, rng.choice(values[:6])))
                continue
            if r < 0.3 and ni < len(names):
                # an InitVar feeding an init=False field
                t = names[ni]
                ni += 1
                ms.append(ivar(n, ["v", i_(0)] if rng.random() < 0.3 else None))
                ms.append(fld(t, init=False, compare=rng.random() < 0.8))
                post.append([t, ["arg", n]])
                args.append([n, val()])
                how[t] = ("arg", n)
                continue
            flags = {"compare": rng.random() < 0.85, "repr": rng.random() < 0.85, "hash": rng.choice([None, None, None, False, True]),
                     "kw_only": rng.random() < 0.15}
            dflt = None
            if rng.random() < 0.4:
                d = val()
                dflt = ["v", d] if hashable_default(d) and rng.random() < 0.7 else ["f", d]
            if rng.random() < 0.3:
                # init=False: default, or constant in __post_init__, or assigned afterwards
                m = fld(n, default=dflt, init=False, **dict((k, v) for (k, v) in flags.items() if k != "kw_only"))
                ms.append(m)
                if dflt is None or rng.random() < 0.4:
                    post.append([n, ["const", val()]])
                    how[n] = ("const", len(post) - 1)
                else:
                    how[n] = ("set", n)
                continue
            ms.append(fld(n, default=dflt, **flags))
            if dflt is None or rng.random() < 0.6:
                args.append([n, val()])
            how[n] = ("arg", n)
        classes.append(cls("BMD"[ci] if ci < nclasses - 1 else "S", ms, **p))
    if not how:
        classes[-1]["members"].append(fld("f0"))
        args.append(["f0", val()])
        how["f0"] = ("arg", "f0")
    if not any(c["params"].get("slots") for c in classes) and rng.random() < 0.15:
        attrs.append(["extra", val()])
    first = mk(classes, args, post, sets, attrs)
    # the sibling: exactly one field gets another value
    import copy
    target = rng.choice(sorted(how))
    old = dict((n, v) for (n, v) in first[2])[target]
    for _ in range(20):
        new = val()
        if V.canon(new) is None or V.canon(old) is None or V.canon(new) != V.canon(old):
            break
    kind, ref = how[target]
    classes2, args2, post2, sets2 = copy.deepcopy(first[3]["classes"]), copy.deepcopy(args), copy.deepcopy(post), copy.deepcopy(sets)
    if kind == "arg":
        args2 = [[n, v] for (n, v) in args2 if n != ref] + [[ref, new]]
    elif kind == "const":
        post2[ref] = [target, ["const", new]]
    else:
        sets2.append([target, new])
    second = mk(classes2, args2, post2, sets2, copy.deepcopy(attrs))
    return [first, second], target


def enumerate_declared(rng, tier):
    """-> (values, groups): all values of the declared-classes dimension, and the groups [(family, [values])] whose
    members are pairwise unequal in one field (family not starting with 'same:') or equal (family 'same:...')."""
    G = families(rng, tier)
    atoms = [i_(1), i_(2), s_("a"), s_(""), ["none"], ["bool", True], f_(1.5), i_(2**40), ["list", []], ["list", [i_(1)]],
             ["dict", [[s_("a"), i_(1)]]], ["tuple", [i_(1), s_("a")]], s_("x"), s_("__DDS_NONE__"), ["path", b"a/b".hex()],
             ["date", "datetime.date(2020, 1, 2)"], ["other", "enum"]]
    for _ in range(60 if tier == "quick" else 1500):
        pair, target = random_pair(rng, atoms)
        G.append(("random:" + target_kind(pair[0], target), pair))
    vals = []
    for (_, g) in G:
        vals += g
    return vals, G


def target_kind(e, target):
    f = field_flags(e, target)
    return "init=False" if "init=False" in f else ("inherited" if "inherited" in f else "ordinary")


def unset_probes():
    """Dataclass instances with a declared field that never got a value (init=False, no default, not set in
    __post_init__): legal Python objects, outside the value universe of the model (a field without a value)."""
    return [mk([cls("S", [fld("x"), fld("n", init=False)])], [["x", i_(7)]], unset=["n"]),
            mk([cls("S", [fld("x"), fld("n", init=False)], slots=True)], [["x", i_(7)]], unset=["n"]),
            mk([cls("B", [fld("n", init=False)]), cls("D", [fld("y")])], [["y", i_(7)]], unset=["n"])]
