"""Implementation driver for C17 through the public API: results kept with dds.keep / dds.eval are obtained again from the store by a
second evaluation, by dds.load, by another tool (the file under the data directory) - in the process that wrote them and in another one.
One process; stdin: {"dir": ..., "phase": "write" | "read", "values": [spec...], "pre": [registration...], "mid": [...], "cache_objects": ...}
Output: one dictionary per value (channel -> 'equal' | 'DIFFERENT:...' | 'ASBARE:...' | 'X:...')."""
import importlib
import json
import os
import sys

sys.path.insert(0, os.path.dirname(os.path.abspath(__file__)))
import drive_codec as DC  # noqa: E402

MODULE = "c17_results"


def module_text(values, in_pipeline):
    """One function per value (its body is the plain execution that the read-back is compared with); the pipeline keeps those that the
    format accepts.  The execution log is in drive_codec (not an accepted module), see DC.note_call."""
    lines = ["import dds", "import drive_codec as DC", ""]
    for i, spec in enumerate(values):
        lines += [f"def f{i}():", f"    DC.note_call('f{i}')", f"    return DC.make_value({spec!r})", ""]
    lines += ["def pipeline():"]
    for i in in_pipeline:
        lines += [f"    dds.keep('/c17/v{i}', f{i})"]
    lines += ["    return None", ""]
    return "\n".join(lines)


def attempt(f):
    from dds.structures import DDSException
    try:
        return f()
    except DDSException as e:
        c = getattr(e, "error_code", None)
        return "E:" + (c.name if c is not None else "NONE") + ":" + str(e)[:60]
    except BaseException as e:  # noqa
        return "X:" + type(e).__name__ + ":" + str(e)[:60]


def register(regs):
    from dds.codec import codec_registry
    for r in regs:
        c = DC.make_codec(r)
        if r["kind"] == "file":
            codec_registry().add_file_codec(c)
        else:
            codec_registry().add_codec(c)


def read_channels(dds, mod, d, i, spec, res):
    path = f"/c17/v{i}"
    before = DC.CALLS.get(f"f{i}", 0)
    res["keep"] = attempt(lambda: DC.compare(dds.keep(path, getattr(mod, f"f{i}")), spec))
    res["executed_again"] = DC.CALLS.get(f"f{i}", 0) - before
    res["load"] = attempt(lambda: DC.compare(dds.load(path), spec))
    loc = os.path.join(d, "dat", "c17", f"v{i}")
    blob = os.path.realpath(loc)
    res["protocol"] = attempt(lambda: json.load(open(blob + ".meta"))["protocol"])
    if res["protocol"] == "local.pandas":
        import pandas
        res["tool"] = attempt(lambda: DC.compare(pandas.read_parquet(loc), spec))
    elif res["protocol"] in ("local.string", "local.bytes"):
        want = DC.make_value(spec)
        want = want.encode("utf-8") if isinstance(want, str) else bytes(want)
        res["tool"] = attempt(lambda: "equal" if open(loc, "rb").read() == want else "DIFFERENT:" + open(loc, "rb").read()[:30].hex())


def main():
    payload = json.load(sys.stdin)
    d = payload["dir"]
    values = payload["values"]
    pkgs = os.path.join(d, "pkgs")
    out = [{} for _ in values]
    register(payload.get("pre", []))
    if payload["phase"] == "write":
        for spec, res in zip(values, out):
            res["bare"] = attempt(lambda: DC.bare_roundtrip(DC.make_value(spec)))
        os.makedirs(pkgs, exist_ok=True)
        with open(os.path.join(pkgs, MODULE + ".py"), "w") as f:
            f.write(module_text(values, [i for i, res in enumerate(out) if not res["bare"].startswith("refused")]))
    sys.path.insert(0, pkgs)
    import dds
    mod = importlib.import_module(MODULE)
    dds.accept_module(MODULE)
    kw = {} if payload.get("cache_objects") is None else {"cache_objects": payload["cache_objects"]}
    dds.set_store("local", internal_dir=os.path.join(d, "int"), data_dir=os.path.join(d, "dat"), **kw)
    top = {}
    if payload["phase"] == "write":
        top["eval"] = attempt(lambda: dds.eval(mod.pipeline) or "ok")
        for i, (spec, res) in enumerate(zip(values, out)):
            res["executed"] = DC.CALLS.get(f"f{i}", 0)
            if res["bare"].startswith("refused"):
                # a frame that the format refuses: the refusal must be loud and leave nothing that a later read would take for the result
                res["keep_refused"] = attempt(lambda: DC.compare(dds.keep(f"/c17/v{i}", getattr(mod, f"f{i}")), spec))
                res["load_refused"] = attempt(lambda: DC.compare(dds.load(f"/c17/v{i}"), spec))
        register(payload.get("mid", []))
    for i, (spec, res) in enumerate(zip(values, out)):
        if not res.get("bare", "").startswith("refused") and not (payload["phase"] == "read" and i in payload.get("skip", [])):
            read_channels(dds, mod, d, i, spec, res)
    print("@@RESULT@@" + json.dumps({"top": top, "values": out}))


if __name__ == "__main__":
    main()
