"""Implementation driver for C14, repeated requests: ONE process, a package tree on disk, an accept list, a local file store and a
SCRIPT of requests made one after the other in this process.
stdin: {"root": dir, "accept": [...], "store_dir": dir, "modules": {"acc": dotted module, "ext": dotted module},
        "steps": [{"api": "call" | "keep" | "eval", "side": "acc" | "ext", "fn": name, "args": [...], "path": "/p" (keep)}
                  | {"api": "accept", "module": dotted name}]}
call: fn(*args) (a function decorated with dds.data_function); keep: dds.keep(path, fn, *args); eval: dds.eval(fn, *args);
accept: dds.accept_module(module) in the middle of the life of the process.
A request that raises is caught and the script goes on (a notebook cell that is run again, a driver that catches and retries).
The generated modules report every execution of their functions to the module c14cnt (never accepted: invisible to dds).
-> one entry per step: {"value": repr | None, "error": None | "dds:<code>:<text>" | "exc:<type>:<text>", "hits": [labels of the
   functions executed by this request], "added": [store files created], "changed": [store files removed or modified],
   "paths": {committed path: key} after the request}."""
import importlib
import json
import os
import sys
import warnings


def snapshot(sd):
    res = {}
    for dp, _, fns in os.walk(sd):
        for fn in fns:
            fp = os.path.join(dp, fn)
            rel = os.path.relpath(fp, sd)
            res[rel] = "->" + os.path.basename(os.readlink(fp)) if os.path.islink(fp) else "file:%d" % os.path.getsize(fp)
    return res


def main():
    payload = json.load(sys.stdin)
    sys.dont_write_bytecode = True
    sys.path.insert(0, payload["root"])
    warnings.simplefilter("ignore")
    import dds
    from dds.structures import DDSException
    sd = payload["store_dir"]
    dds.set_store("local", internal_dir=os.path.join(sd, "internal"), data_dir=os.path.join(sd, "data"))
    for a in payload["accept"]:
        dds.accept_module(a)
    try:
        mods = {side: importlib.import_module(m) for side, m in payload["modules"].items()}
        cnt = importlib.import_module("c14cnt")
    except BaseException as e:  # noqa
        print("@@RESULT@@" + json.dumps({"__import__": "exc:" + type(e).__name__ + ":" + str(e)[:400]}))
        return
    out = []
    for st in payload["steps"]:
        res = {"value": None, "error": None, "hits": [], "added": [], "changed": [], "paths": {}}
        before = snapshot(sd)
        del cnt.HITS[:]
        try:
            if st["api"] == "accept":
                dds.accept_module(st["module"])
            else:
                fn = getattr(mods[st["side"]], st["fn"])
                if st["api"] == "call":
                    v = fn(*st["args"])
                elif st["api"] == "keep":
                    v = dds.keep(st["path"], fn, *st["args"])
                else:
                    v = dds.eval(fn, *st["args"])
                res["value"] = repr(v)
        except DDSException as e:
            res["error"] = "dds:" + (e.error_code.name if getattr(e, "error_code", None) is not None else "NONE") + ":" + str(e)[:400]
        except BaseException as e:  # noqa
            res["error"] = "exc:" + type(e).__name__ + ":" + str(e)[:300]
        res["hits"] = list(cnt.HITS)
        after = snapshot(sd)
        res["added"] = sorted(k for k in after if k not in before)
        res["changed"] = sorted(k for k in before if after.get(k) != before[k])
        pre = "data" + os.sep
        res["paths"] = {"/" + k[len(pre):]: v[2:] for k, v in sorted(after.items()) if k.startswith(pre) and v.startswith("->")}
        out.append(res)
    print("@@RESULT@@" + json.dumps(out))


if __name__ == "__main__":
    main()
