"""C15 - restricting the stages makes an evaluation a side-effect-free dry run."""
import itertools
import json
import random

import common as C

COQ_FILES = ("Base/Bytes.v", "Extracted/ConstStages.v", "L4_Eval/Stages.v", "L4_Eval/RunSmall.v", "L4_Eval/StageProofs.v",
             "Properties/C15.v", "Base/PyRt.v", "Extracted/GenStages.v", "L4_Eval/GenStagesProofs.v", "Properties/C15g.v")
PROPERTY_FILES = ("C15", "C15g")
EXTRACTED = ("ConstStages", "GenStages")
ALLOWED_AXIOMS = ()

PRELUDE = """From Coq Require Import List String.
From DDS Require Import Base.Bytes L4_Eval.Stages L4_Eval.RunSmall.
Import ListNotations.
Local Open Scope string_scope.
"""
NAMES = ["ANALYSIS", "STORE_INSPECT", "EVAL", "STORE_COMMIT", "PATH_COMMIT"]


def arg_coq(a):
    if a[0] == "name":
        return f'(SAName "{a[1].upper()}")'
    if a[0] == "enum":
        return "(SAEnum " + {"ANALYSIS": "Analysis", "STORE_INSPECT": "StoreInspect", "EVAL": "Eval", "STORE_COMMIT": "StoreCommit",
                              "PATH_COMMIT": "PathCommit"}[a[1]] + ")"
    return "SAOther"


def spell(rng, name):
    r = rng.random()
    if r < 0.3:
        return ["name", name.lower()]
    if r < 0.5:
        return ["name", name]
    if r < 0.65:
        return ["name", "".join(c.upper() if rng.random() < 0.5 else c.lower() for c in name)]
    return ["enum", name]


def gen_cases(rng, tier):
    cases = [None, []]
    for n in range(1, 6):
        for _ in range(6 if tier == "quick" else 40):
            cases.append([spell(rng, x) for x in NAMES[:n]])
    # wrong order / unknown names / wrong types / too long
    for _ in range(150 if tier == "quick" else 1500):
        n = rng.randint(1, 7)
        l = []
        for i in range(n):
            r = rng.random()
            if r < 0.6 and i < 5:
                l.append(spell(rng, NAMES[i]))
            elif r < 0.8:
                l.append(spell(rng, rng.choice(NAMES)))
            elif r < 0.9:
                l.append(["name", rng.choice(["evaluate", "", "all_phases", "__doc__", "ANALYSIS ", "upper"])])
            else:
                l.append(["other", rng.choice(["int", "none", "bytes"])])
        cases.append(l)
    return cases


def run(rep, tier, seed, proof_ok):
    rng = random.Random(seed)
    rep.rule = ("stage lists: None, every prefix of the stage order in random spellings (lower/upper/mixed case names, enum members), "
                "random lists with wrong order, unknown names, non-string entries and over-long lists; real dds._api._parse_stages "
                "vs Coq model; non-trivial = a list (not None)")
    cases = gen_cases(rng, tier)
    impl = C.run_driver("drive_small.py", {"kind": "stages", "cases": cases})
    exprs = []
    for c in cases:
        exprs.append("run_stages None" if c is None else "run_stages (Some [" + "; ".join(arg_coq(a) for a in c) + "])")
    model = C.coq_eval_strings(PRELUDE, exprs, label="c15")
    outcomes = {}
    for c, i, m in zip(cases, impl, model):
        rep.case(json.dumps(c), nontrivial=c is not None)
        istr = i if isinstance(i, str) else "ok:" + ",".join(i)
        outcomes[istr.split(":")[0] if istr.startswith("ok") else istr] = outcomes.get(istr.split(":")[0] if istr.startswith("ok") else istr, 0) + 1
        if istr != m:
            rep.violation("model-mismatch:stages", f"_parse_stages: impl {istr} vs model {m}", {"stages": c, "impl": istr, "model": m})
        if istr.startswith("low:"):
            rep.violation("stages-lowlevel:" + istr, f"_parse_stages raised a low-level exception {istr}", {"stages": c, "impl": istr})
    rep.extra["input_distribution"] = {"cases": len(cases), "outcomes": outcomes}
    rep.sample(cases[3]); rep.sample(cases[40]); rep.sample(cases[-1])
    try:
        import c15_programs
        c15_programs.run(rep, tier, seed, proof_ok, rng)
    except ImportError:
        rep.extra["program_part"] = "dry-run purity part not built yet"
    import c15_threads
    rep.rule += ("; thread dimension: generated pipelines whose kept steps (dds.keep / @data_function, some loading a path kept earlier in the "
                 "same evaluation) are reached from other threads than the caller of dds.eval (ThreadPoolExecutor.submit / map, in parallel "
                 "or one by one, threading.Thread, a pool that outlives the evaluation, thread-in-thread, Timer; dds.eval itself called from "
                 "the main or from another thread) x stage prefixes in random spellings x store kinds; restricted runs on an empty and on a "
                 "populated store (after a variable was reassigned) vs plain execution, vs the control history without the restricted runs "
                 "and vs the store below dds (sync_paths / store_blob calls of every thread, committed paths, blob keys); non-trivial = a "
                 "kept step really ran on another thread")
    rep.extra["input_distribution"]["threads"] = c15_threads.run(rep, tier, seed, proof_ok, rng)


def replay(path):
    r = json.load(open(path))["replay"]
    if "stages" in r:
        i = C.run_driver("drive_small.py", {"kind": "stages", "cases": [r["stages"]]})[0]
        print(json.dumps({"stages": r["stages"], "impl": i, "model": r.get("model")}))
        istr = i if isinstance(i, str) else "ok:" + ",".join(i)
        bad = istr != r.get("model")
        print("REPRODUCED" if bad else "not reproduced")
        return 1 if bad else 0
    if "tplan" in r:
        import c15_threads
        return c15_threads.replay(r)
    import c15_programs
    return c15_programs.replay(r)
