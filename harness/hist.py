"""Histories of top-level calls against one store: runs the real dds (drive_prog.py), the dds-free reference run of
the same files, and the Coq model (L4_Eval.RunEval.run_history), and aligns the observations per action."""
import copy
import json
import os
import shutil
import tempfile

import common as C
import progs as P
import values as V

PRELUDE = """From Coq Require Import List String ZArith NArith.
From DDS Require Import Base.Bytes L0_Hash.PyVal L1_Args.ArgCtx L2_Disc.MiniPy L3_Sig.Program L2_Disc.Visitors L3_Sig.Sig L4_Eval.Stages L4_Eval.DdsEval L4_Eval.RunEval.
Import ListNotations.
"""

WHOLE_TREE_PREPASS = "true"     # model switch: pinned indirect pre-pass (F08) vs repaired


def style_coq(act):
    st = act.get("style", "eval")
    if st == "keep":
        return f"(StKeep {C.hexs(act['path'])})"
    return "StDirect" if st == "direct" else "StEval"


def cfg_coq(act):
    n = act.get("n_stages")
    return f"(cfg_full {WHOLE_TREE_PREPASS})" if n is None else f"(cfg_stages {n} {WHOLE_TREE_PREPASS})"


def action_coq(prog, act):
    if act["a"] == "load":
        return f"(ALoad {C.hexs(act['path'])})"
    # the analysis view is derived INSIDE the model (L2_Disc/Visitors.v: discover) from a transcription of the syntax
    term = "(discover " + P.mfn_term(prog, act["mod"], act["fn"]) + ")"
    pos = "[" + "; ".join(V.to_coq(x) for x in act.get("pos", [])) + "]"
    kw = "[" + "; ".join(f"({C.hexs(n)}, {V.to_coq(x)})" for n, x in act.get("kw", [])) + "]"
    return f"(ACall {cfg_coq(act)} {term} {style_coq(act)} {pos} {kw})"


STAGE_NAMES = ["analysis", "store_inspect", "eval", "store_commit", "path_commit"]


def impl_action(act):
    a = dict(act)
    if a.get("n_stages") is not None:
        a["stages"] = STAGE_NAMES[: a["n_stages"]]
    return a


def run_history(events, store_kind="local", keep_dir=False, hashseed="0", extra_env=None, cwd=None, run_ref=True, run_model=True, options=None,
                usage=None):
    """events: list of ("prog", prog) | ("restart",) | ("act", action).  Returns list of per-action records:
    {"act", "impl": {...}, "ref": {...}, "model": {...}}.  A 'setvar' action also updates the model's view."""
    root = tempfile.mkdtemp(prefix="hist_", dir=C.scratch_dir())
    pkgroot = os.path.join(root, "src")
    os.makedirs(pkgroot)
    store = {"kind": store_kind, "internal_dir": os.path.join(root, "internal"), "data_dir": os.path.join(root, "data")}
    kept_file = os.path.join(root, "kept.pickle")
    # split into process segments
    segments, cur_prog, cur = [], None, None
    model_actions, records = [], []
    for ev in events:
        if ev[0] == "prog":
            cur_prog = copy.deepcopy(ev[1])
            cur = {"prog": copy.deepcopy(cur_prog), "actions": []}
            segments.append(cur)
        elif ev[0] == "restart":
            cur = {"prog": copy.deepcopy(cur_prog), "actions": []}
            segments.append(cur)
        else:
            act = ev[1]
            cur["actions"].append(act)
            if act["a"] == "setvar":
                cur_prog["modules"][act["mod"]]["vars"][act["name"]] = act["value"]
            elif act["a"] == "reprog":
                cur_prog = copy.deepcopy(act["prog"])
            elif act["a"] == "subprocess":
                # another process works on the same store meanwhile: for the model its calls are just further calls
                for inner in act["actions"]:
                    if inner["a"] not in ("setvar", "rawfile", "reprog"):
                        model_actions.append(action_coq(act["prog"], inner))
                    records.append({"act": inner, "other_process": True})
                continue
            elif act["a"] != "rawfile":
                model_actions.append(action_coq(cur_prog, act))
            records.append({"act": act})
    # implementation and reference
    impl_out, ref_out = [], []
    for seg in segments:
        if not seg["actions"]:
            continue
        shutil.rmtree(pkgroot, ignore_errors=True)
        os.makedirs(pkgroot)
        P.write_package(seg["prog"], pkgroot)
        payload = {"root": pkgroot, "pkg": seg["prog"]["pkg"], "store": store, "actions": [impl_action(a) for a in seg["actions"]],
                   "options": options or {}}
        if usage:       # "script" | "notebook": single-module programs only
            payload["usage"], payload["main_module"] = usage, seg["prog"]["root"][0]
        for a in payload["actions"]:
            if a.get("export") is True:
                a["export"] = os.path.join(root, "graph.plain")
        wd = None
        if cwd:
            wd = os.path.join(root, cwd)
            os.makedirs(wd, exist_ok=True)
        def flat(outs):
            res = []
            for o in outs:
                res += o["sub"] if "sub" in o else [o]
            return res
        impl_out += flat(C.run_driver("drive_prog.py", payload, hashseed=hashseed, extra_env=extra_env, cwd=wd))
        if run_ref:
            ref_out += flat(C.run_driver("drive_prog.py", dict(payload, nodds=True, kept_file=kept_file)))
        else:
            ref_out += [{"out": None, "log": []} for a in seg["actions"] for _ in (a["actions"] if a["a"] == "subprocess" else [a])]
    do_model = bool(model_actions) and run_model
    model = C.coq_eval_strings(PRELUDE, ["run_history [" + "; ".join(model_actions) + "]"], label="hist", timeout=900)[0] if do_model else ""
    mouts = model.split(";") if do_model else []
    mi = 0
    for rec, io, ro in zip(records, impl_out, ref_out):
        rec["impl"], rec["ref"] = io, ro
        if rec["act"]["a"] not in ("setvar", "rawfile", "reprog") and do_model:
            parts = mouts[mi].split("#")
            mi += 1
            rec["model"] = {"out": parts[0], "log": [x for x in parts[1].split(",") if x], "sigs": parts[2],
                            "new_keys": [x for x in parts[3].split(",") if x], "paths": parts[4], "plain": parts[5]}
    if not keep_dir:
        shutil.rmtree(root, ignore_errors=True)
    return records


def impl_obs(rec):
    """Canonical observation of the implementation for one action, in the model's vocabulary."""
    io = rec["impl"]
    sync = [r for r in io["rec"] if r[0] == "sync"]
    puts = [r[1] for r in io["rec"] if r[0] == "put"]
    sigs = ",".join(f"{p}={k}" for p, k in sync[-1][1]) if sync else None
    return {"out": io["out"], "log": io["log"], "sigs": sigs, "new_keys": puts}


def compare(rec):
    """Differences between implementation and model for one action (empty list = agree)."""
    if rec["act"]["a"] in ("setvar", "rawfile", "reprog") or "model" not in rec:
        return []
    o, m = impl_obs(rec), rec["model"]
    diffs = []
    if o["out"] != m["out"]:
        diffs.append(("outcome", o["out"], m["out"]))
    if o["log"] != m["log"]:
        diffs.append(("log", o["log"], m["log"]))
    if o["sigs"] is not None and o["sigs"] != m["sigs"]:
        diffs.append(("signatures", o["sigs"], m["sigs"]))
    if o["new_keys"] != m["new_keys"]:
        diffs.append(("stored-keys", o["new_keys"], m["new_keys"]))
    if rec["ref"]["out"] is not None and rec["ref"]["out"] != m["plain"]:
        diffs.append(("reference", rec["ref"]["out"], m["plain"]))
    return diffs
