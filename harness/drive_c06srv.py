"""Process server for the crash histories of C06: every request is run in a FRESH forked child of a pristine parent, which
has only imported dds, the drivers and the generated package (nothing evaluated, no store configured).  The child is one
'process lifetime' of a history: it runs harness/drive_prog.py's main unchanged (same payload: store, actions, gate), under
the process identity the request asks for - os.getpid() of the child answers request["pid"] (a container whose entry point
is pid 1 at every start, pid reuse after a reboot, or simply another pid) - and may be killed by the gate (os._exit(77)
before a file-system operation / in the middle of a write: kill -9 semantics, the process state is lost, what reached the
file system stays).  Forking instead of starting an interpreter per process makes a process lifetime cost ~20 ms instead of
~500 ms, which pays for histories of several processes (crash, recovery killed again, recovery, ...).
stdin, first line: {"root": dir with the package, "pkg": name, "mods": [module names]}; then one request per line:
  {"store": {...}, "actions": [...], "gate": {..., "roots": [dirs]|absent}|null, "pid": int|null}  ->  {"rc": exit code, "res": result|null, "out": tail}"""
import importlib
import io
import json
import os
import random
import sys
import tempfile
import traceback

sys.path.insert(0, os.path.dirname(os.path.abspath(__file__)))


def child(req, cfg, outfile):
    """Never returns."""
    code = 3
    try:
        pid = req.get("pid")
        if pid is not None:
            os.getpid = lambda: pid
        random.seed()                      # a new process does not inherit the state of a generator
        payload = {"root": cfg["root"], "pkg": cfg["pkg"], "store": req["store"], "actions": req["actions"]}
        if req.get("gate"):
            payload["gate"] = req["gate"]
            if req["gate"].get("roots"):
                # the crash points are the operations under these roots (the volume of a directory layout: the creation of
                # the parents of the two directories counts), not only those under the two directories of the store
                import fsgate
                install, roots = fsgate.install, list(req["gate"]["roots"])
                fsgate.install = lambda _roots, **kw: install(roots, **kw)
        sys.stdin = io.StringIO(json.dumps(payload))
        sys.stdout = sys.stderr = open(outfile, "w")
        import drive_prog
        drive_prog.main()
        code = 0
    except BaseException:  # noqa
        try:
            traceback.print_exc(file=sys.stdout)
        except BaseException:  # noqa
            pass
    try:
        sys.stdout.flush()
    finally:
        os._exit(code)


def main():
    cfg = json.loads(sys.stdin.readline())
    sys.path.insert(0, cfg["root"])
    import dds  # noqa
    import drive_prog  # noqa
    import drive_c05  # noqa
    import fsgate  # noqa
    import uuid  # noqa
    from dds.codec import codec_registry
    codec_registry()
    importlib.import_module("vlogmod")
    for m in cfg["mods"]:
        importlib.import_module(cfg["pkg"] + "." + m)
    proto = sys.stdout
    proto.write("@@READY@@\n")
    proto.flush()
    scratch = tempfile.mkdtemp(prefix="c06srv_")
    n = 0
    for line in sys.stdin:
        line = line.strip()
        if not line:
            continue
        req = json.loads(line)
        n += 1
        outfile = os.path.join(scratch, "out%d" % n)
        pid = os.fork()
        if pid == 0:
            child(req, cfg, outfile)
        _, status = os.waitpid(pid, 0)
        rc = os.WEXITSTATUS(status) if os.WIFEXITED(status) else -os.WTERMSIG(status)
        try:
            with open(outfile) as f:
                out = f.read()
            os.remove(outfile)
        except OSError:
            out = ""
        lines = [l for l in out.splitlines() if l.startswith("@@RESULT@@")]
        res = json.loads(lines[-1][len("@@RESULT@@"):]) if lines else None
        proto.write("@@REPLY@@" + json.dumps({"rc": rc, "res": res, "out": "" if res is not None else out[-600:]}) + "\n")
        proto.flush()
    import shutil
    shutil.rmtree(scratch, ignore_errors=True)


if __name__ == "__main__":
    main()
