"""Implementation driver for C13, whole evaluations of real module files whose in-source dds.keep arguments are written
in any of the ways Python allows for a literal or a near-literal (unary / binary constant expressions, parentheses,
implicit concatenation, radix / underscore / exponent spellings, bytes, None / True / False ...).
stdin: {"cases": [{"id":.., "def": source of the callee f (and helpers), "calls": [{"args": text, "path": p}, ...]}]}
For every call i the module gets   def main_i(): return dds.keep(<path>, f, <args>)
Per call the driver reports
  constant : every argument node is an ast.Constant (a literal in the sense of the syntax tree)
  defaults : the default values of f, canonical text
  arg_values : the value of each argument expression evaluated on its own (None when python refuses it), canonical text
  binding  : the parameter binding python computes for f(<args>) (inspect.signature(f).bind + defaults), canonical text
  plain    : outcome of the plain execution of f(<args>) in the module
  eval     : outcome of dds.eval(main_i), in the order of the calls, one store for the whole case
  sig      : the signature the evaluation left under <path>
  direct / direct_sig : the same call made directly with the values, dds.keep(<other path>, f, *values), after all evaluations
No expectation is computed here."""
import ast
import importlib
import inspect
import json
import os
import shutil
import struct
import sys
import tempfile


def canon(v):
    """Canonical, type-aware text of a value (drive_prog.canon + bytes / complex / Ellipsis)."""
    if v is None:
        return "N"
    if v is True:
        return "T"
    if v is False:
        return "F"
    if v is Ellipsis:
        return "E"
    if isinstance(v, int):
        return "i" + str(v)
    if isinstance(v, float):
        return "f" + struct.pack("!d", v).hex()
    if isinstance(v, complex):
        return "c" + struct.pack("!dd", v.real, v.imag).hex()
    if isinstance(v, str):
        return "s" + v.encode("utf-8", "surrogatepass").hex()
    if isinstance(v, bytes):
        return "b" + v.hex()
    if isinstance(v, (list, tuple)):
        return ("L" if isinstance(v, list) else "U") + "(" + ",".join(canon(x) for x in v) + ")"
    if isinstance(v, dict):
        return "D(" + ",".join(canon(k) + ":" + canon(x) for k, x in v.items()) + ")"
    if isinstance(v, (set, frozenset)):
        return "S(" + ",".join(sorted(canon(x) for x in v)) + ")"
    return "?" + type(v).__name__


def exc_desc(e):
    from dds.structures import DDSException
    if isinstance(e, DDSException):
        c = getattr(e, "error_code", None)
        return "dds:" + (c.name if c is not None else "NONE")
    return "exc:" + type(e).__name__


def module_source(case):
    src = ["import dds", "", "", case["def"].rstrip("\n"), ""]
    for i, call in enumerate(case["calls"]):
        src += ["", f"def main_{i}():", f"    return dds.keep({call['path']!r}, f, {call['args']})", ""]
    return "\n".join(src)


_count = [0]


def run_case(case, tmp):
    import dds
    from dds import _api
    _count[0] += 1
    modname = f"c13lit_{os.getpid()}_{_count[0]}"
    root = os.path.join(tmp, modname)
    os.makedirs(os.path.join(root, "src"))
    with open(os.path.join(root, "src", modname + ".py"), "w") as fh:
        fh.write(module_source(case))
    sys.path.insert(0, os.path.join(root, "src"))
    importlib.invalidate_caches()
    mod = importlib.import_module(modname)
    dds.accept_module(mod)
    dds.set_store("local", internal_dir=os.path.join(root, "internal"), data_dir=os.path.join(root, "data"))
    f = mod.f
    out = []
    values = []
    defaults = [[n, canon(p.default)] for n, p in inspect.signature(f).parameters.items() if p.default is not inspect.Parameter.empty]
    for i, call in enumerate(case["calls"]):
        res = {"defaults": defaults}
        node = ast.parse(f"f({call['args']})", mode="eval").body
        res["constant"] = all(isinstance(a, ast.Constant) for a in list(node.args) + [k.value for k in node.keywords])
        res["arg_values"] = []
        for a in list(node.args) + [k.value for k in node.keywords]:
            try:
                expr = ast.fix_missing_locations(ast.Expression(a.value if isinstance(a, ast.Starred) else a))
                res["arg_values"].append(canon(eval(compile(expr, "<arg>", "eval"), dict(vars(mod)))))
            except BaseException as e:  # noqa
                res["arg_values"].append(None)
        try:
            a, k = eval(f"(lambda *a, **k: (a, k))({call['args']})", dict(vars(mod)))
            values.append((a, k))
            ba = inspect.signature(f).bind(*a, **k)
            ba.apply_defaults()
            res["binding"] = [[n, canon(v)] for n, v in ba.arguments.items()]
        except BaseException as e:  # noqa
            if len(values) <= i:
                values.append(None)
            res["binding"] = None
            res["binding_error"] = exc_desc(e)
        try:
            res["plain"] = "ok:" + canon(eval(f"f({call['args']})", dict(vars(mod))))
        except BaseException as e:  # noqa
            res["plain"] = exc_desc(e)
        out.append(res)
    for i, call in enumerate(case["calls"]):
        res = out[i]
        try:
            res["eval"] = "ok:" + canon(dds.eval(getattr(mod, f"main_{i}")))
        except BaseException as e:  # noqa
            res["eval"] = exc_desc(e)
            import traceback
            res["tb"] = traceback.format_exc()[-400:]
        res["sig"] = None
        if res["eval"].startswith("ok:"):
            # (a failed evaluation leaves the link of an earlier call under a shared path: not its signature)
            try:
                s = _api._store().fetch_paths([call["path"]]).get(call["path"])
                res["sig"] = None if s is None else str(s)
            except BaseException as e:  # noqa
                res["sig_error"] = exc_desc(e)
    if case.get("direct", True):
        for i, call in enumerate(case["calls"]):
            res = out[i]
            if values[i] is None:
                continue
            a, k = values[i]
            dpath = f"/c13direct/d{i}"
            try:
                res["direct_sig"] = None
                res["direct"] = "ok:" + canon(dds.keep(dpath, f, *a, **k))
                s = _api._store().fetch_paths([dpath]).get(dpath)
                res["direct_sig"] = None if s is None else str(s)
            except BaseException as e:  # noqa
                res["direct"] = exc_desc(e)
                res["direct_sig"] = None
    sys.path.remove(os.path.join(root, "src"))
    return out


def main():
    payload = json.load(sys.stdin)
    tmp = tempfile.mkdtemp(prefix="c13lit_")
    out = []
    try:
        for case in payload["cases"]:
            try:
                out.append(run_case(case, tmp))
            except BaseException as e:  # noqa
                import traceback
                out.append({"error": exc_desc(e), "tb": traceback.format_exc()[-800:]})
    finally:
        shutil.rmtree(tmp, ignore_errors=True)
    print("@@RESULT@@" + json.dumps(out))


if __name__ == "__main__":
    sys.path.insert(0, os.path.dirname(os.path.abspath(__file__)))
    main()
