#!/venv/bin/python
"""Self-test of the Python -> Gallina translator (harness/translate_py.py).

  (i)  baseline: runs the translator on the source tree (DDS_REPO or /repo) and compiles the generated files
       Extracted/Gen*.v, the hand-written proof files and Properties/Gen.v;
  (ii) sensitivity: on scratch copies of the source tree applies, one at a time, semantic edits - each must make the
       translator fail closed (Unrecognised) or a proof file stop compiling - and harmless edits (renaming a local,
       comments, log lines, reformatting, a behaviour-preserving restructuring) - none may break anything.

Nothing is written into coq/theories: every scenario gets a scratch mirror of coq/theories (symbolic links to the
sources and to the compiled .vo of the development, which must be built: ./check --setup) in which the Gen files are
regenerated (extract_constants.regenerate(outdir)) and the proof files are copied and compiled.
Exit 0 iff the baseline passes, every semantic edit is caught and no harmless edit is."""
import concurrent.futures
import json
import os
import re
import shutil
import sys
import tempfile

HERE = os.path.dirname(os.path.abspath(__file__))
sys.path.insert(0, HERE)
import common as C  # noqa: E402

GEN = ["GenLru", "GenCacheOpt", "GenAccept", "GenStages", "GenPath", "GenCodec", "GenMemStore", "GenArgCtx"]
PROOFS = {
    "GenLru": "L5_Stores/GenLruProofs.v",
    "GenCacheOpt": "L5_Stores/GenCacheOptProofs.v",
    "GenAccept": "L2_Disc/GenAcceptProofs.v",
    "GenStages": "L4_Eval/GenStagesProofs.v",
    "GenPath": "L5_Stores/GenPathProofs.v",
    "GenCodec": "L5_Stores/GenCodecProofs.v",
    "GenMemStore": "L5_Stores/GenMemStoreProofs.v",
    "GenArgCtx": "L1_Args/GenArgCtxProofs.v",
}
EXTRA_PROOFS = ["L5_Stores/GenStackProofs.v"]      # proofs about several generated files together: compiled after all of PROOFS
PROPERTIES = ["Properties/C12g.v", "Properties/C14g.v", "Properties/C15g.v", "Properties/C08g.v", "Properties/C17g.v", "Properties/C08m.v", "Properties/C13g.v", "Properties/C12m.v"]
OURS = {os.path.splitext(os.path.basename(p))[0] for p in list(PROOFS.values()) + PROPERTIES + ["L5_Stores/GenStackProofs.v"]} | set(GEN)
SRC_REPO = os.environ.get("DDS_REPO", "/repo")

LRU, API, CTX, STORE, CODEC = "dds/_lru_store.py", "dds/_api.py", "dds/_eval_ctx.py", "dds/store.py", "dds/codec.py"
FUNARGS = "dds/fun_args.py"


def sub1(old, new, regex=False):
    """An edit: replaces the single occurrence of `old`."""
    def f(text):
        n = len(re.findall(old, text, re.S)) if regex else text.count(old)
        if n != 1:
            raise RuntimeError(f"edit does not apply: {n} occurrences of {old!r}")
        return re.sub(old, lambda m: new, text, flags=re.S) if regex else text.replace(old, new)
    return f


# (name, [(file, edit)], expected) ; expected: "caught" or "pass"
SCENARIOS = [
    ("get: move_to_end removed",
     [(LRU, sub1("        else:\n            self._cache.move_to_end(key)\n            return self._cache[key]",
                 "        else:\n            return self._cache[key]"))], "caught"),
    ("put: popitem(last=False) -> popitem(last=True)",
     [(LRU, sub1("self._cache.popitem(last=False)", "self._cache.popitem(last=True)"))], "caught"),
    ("fetch_blob: the miss of an absent key is cached",
     [(LRU, sub1(r"        if res is None and not self\._store\.has_blob\(key\):\n(\s*#[^\n]*\n)*\s*return None\n", "", regex=True))], "caught"),
    ("set_store: cache_objects > 0 -> >= 0",
     [(API, sub1("elif cache_objects > 0:", "elif cache_objects >= 0:"))], "caught"),
    ("is_authorized_path: off by one in the prefix loop",
     [(CTX, sub1("range(len(cp._path.parts) + 1)", "range(len(cp._path.parts))"))], "caught"),
    ("is_authorized_path: off by one in the prefix slice",
     [(CTX, sub1("cp._path.parts[:idx]", "cp._path.parts[:idx + 1]"))], "caught"),
    ("put: move_to_end removed",
     [(LRU, sub1("        self._cache[key] = Entry(value)\n        self._cache.move_to_end(key)\n", "        self._cache[key] = Entry(value)\n"))], "caught"),
    ("has_blob: or -> and",
     [(LRU, sub1("is not None) or self._store.has_blob(key)", "is not None) and self._store.has_blob(key)"))], "caught"),
    ("fetch_blob: a hit is not returned from the cache",
     [(LRU, sub1("        if cache_obj is not None:\n            return cache_obj.obj\n", ""))], "caught"),
    ("set_store: cache_objects < 0 -> <= 0",
     [(API, sub1("if cache_objects < 0:", "if cache_objects <= 0:"))], "caught"),
    ("set_store: cache_objects=True is ignored",
     [(API, sub1("if isinstance(cache_objects, bool) and cache_objects:", "if isinstance(cache_objects, bool) and not cache_objects:"))], "caught"),
    ("_parse_stages: order test inverted",
     [(API, sub1("if x != cur:", "if x == cur:"))], "caught"),
    ("_parse_stages: names are lower-cased",
     [(API, sub1("s = s.upper()", "s = s.lower()"))], "caught"),
    ("path_segments: the segment '.' is accepted",
     [(STORE, sub1('any(s in (".", "..") for s in segments)', 'any(s in ("..",) for s in segments)'))], "caught"),
    ("path_segments: empty segments are kept",
     [(STORE, sub1('[s for s in path.split("/") if s]', '[s for s in path.split("/")]'))], "caught"),
    ("LRUCache: a new method that mutates the dictionary",
     [(LRU, sub1("    def put(self, key: PyHash, value: Any) -> None:", "    def clear(self) -> None:\n        self._cache.clear()\n\n    def put(self, key: PyHash, value: Any) -> None:"))], "caught"),
    ("get: a construct outside the subset (try/except)",
     [(LRU, sub1("            self._cache.move_to_end(key)\n            return self._cache[key]",
                 "            try:\n                self._cache.move_to_end(key)\n            except KeyError:\n                pass\n            return self._cache[key]"))], "caught"),
    ("add_file_codec: a file codec overrides the types that are already bound",
     [(CODEC, sub1("            if t not in self._handled_types:\n                self._handled_types[t] = codec", "            self._handled_types[t] = codec"))], "caught"),
    ("add_file_codec: a file codec rebinds a reference that is already bound",
     [(CODEC, sub1("        if codec.ref() in self._protocols:\n            _logger.warning(f\"{codec.ref()} already in protocols, skipping {codec}\")\n        else:\n            self._protocols[codec.ref()] = codec",
                   "        self._protocols[codec.ref()] = codec"))], "caught"),
    ("add_codec: a codec does not override a reference that is bound",
     [(CODEC, sub1("            self._handled_types[t] = codec\n        self._protocols[codec.ref()] = codec", "            self._handled_types[t] = codec\n        self._protocols.setdefault(codec.ref(), codec)"))], "caught"),
    ("get_codec: the type is looked at before the reference",
     [(CODEC, sub1("        if ref:\n", "        if ref and obj_type is None:\n"))], "caught"),
    ("get_codec: an unregistered reference falls back to the type",
     [(CODEC, sub1("        if ref:\n            if ref not in self._protocols:", "        if ref and ref in self._protocols:\n            if ref not in self._protocols:"))], "caught"),
    ("get_codec: no fallback to the codec of object",
     [(CODEC, sub1("cp = self._handled_types.get(pref) or self._handled_types.get(\n                SupportedTypeUtils.from_type(object)\n            )", "cp = self._handled_types.get(pref)"))], "caught"),
    ("harmless (codec): comments, a log line, a renamed local",
     [(CODEC, lambda t: re.sub(r"\bcp\b", "found", sub1("        # First the reference\n", "        # First the reference\n        _logger.debug(f\"get_codec {obj_type} {ref}\")\n")(t)))], "pass"),
    ("MemoryStore.store_blob: a present key is not overwritten",
     [(STORE, sub1("        if key in self._cache:\n            _logger.warning(f\"Overwriting key {key}\")\n        self._cache[key] = blob", "        if key in self._cache:\n            _logger.warning(f\"Overwriting key {key}\")\n            return\n        self._cache[key] = blob"))], "caught"),
    ("MemoryStore.sync_paths: a committed path is never moved",
     [(STORE, sub1("                _logger.debug(f\"Registering path: {p} -> {k}\")\n            self._paths[p] = k", "                _logger.debug(f\"Registering path: {p} -> {k}\")\n                self._paths[p] = k"))], "caught"),
    ("MemoryStore.fetch_paths: missing paths are dropped instead of refused",
     [(STORE, sub1("        if missing_paths:\n            raise DDSException(f\"Missing paths in store: {missing_paths}\")\n        return OrderedDict([(p, self._paths[p]) for p in paths])",
                   "        return OrderedDict([(p, self._paths[p]) for p in paths if p in self._paths])"))], "caught"),
    ("MemoryStore.has_blob: a stored None counts as absent",
     [(STORE, sub1("        return key in self._cache\n", "        return self._cache.get(key) is not None\n"))], "caught"),
    ("harmless (MemoryStore): log lines changed and added",
     [(STORE, lambda t: sub1("                _logger.debug(f\"Overwriting path: {p} -> {k}\")", "                _logger.info(f\"moving {p}\")")(
         sub1("        missing_paths = [p for p in paths if p not in self._paths]", "        _logger.debug(f\"fetch_paths {paths}\")\n        missing_paths = [p for p in paths if p not in self._paths]")(t)))], "pass"),
    ("get_arg_ctx: a keyword argument is looked up before the positional ones",
     [(FUNARGS, sub1("        if idx < num_args:\n            # It is a list argument\n            # TODO: should it discard arguments of not-whitelisted types?",
                     "        if idx < num_args and n not in kwargs:\n            # It is a list argument\n            # TODO: should it discard arguments of not-whitelisted types?"))], "caught"),
    ("get_arg_ctx: off by one in the positional test",
     [(FUNARGS, sub1("        if idx < num_args:\n            # It is a list argument\n            # TODO: should it discard", "        if idx <= num_args:\n            # It is a list argument\n            # TODO: should it discard"))], "caught"),
    ("get_arg_ctx_ast: the default wins over a keyword argument seen in the source",
     [(FUNARGS, sub1("            if n in kwargs:\n                h = process_arg(kwargs[n])\n            elif p.default != Parameter.empty:",
                     "            if p.default != Parameter.empty:\n                h = _hash_arg(p.default)\n            elif n in kwargs:\n                h = process_arg(kwargs[n])\n            elif p.default != Parameter.empty:"))], "caught"),
    ("get_arg_ctx_ast: a missing argument without default gets the hash of None",
     [(FUNARGS, sub1("                # Do not consider this argument for the time being\n                h = None", "                # Do not consider this argument for the time being\n                h = _hash_arg(None)"))], "caught"),
    ("process_arg: every node is hashed by its value attribute",
     [(FUNARGS, sub1("        if isinstance(node, (ast.Constant, ast.NameConstant)):", "        if hasattr(node, \"value\"):"))], "caught"),
    ("harmless (fun_args): comments and messages changed",
     [(FUNARGS, lambda t: sub1("            # It is a list argument\n            h = process_arg(args[idx])", "            # positional\n            h = process_arg(args[idx])")(
         sub1("                    f\"Missing argument {n} for function {f}. \"", "                    f\"Argument {n} of {f} is missing. \"")(t)))], "pass"),
    # ---- harmless edits
    ("harmless: locals renamed",
     [(LRU, lambda t: re.sub(r"\bres\b", "fetched", re.sub(r"\bcache_obj\b", "hit", t))),
      (API, lambda t: re.sub(r"\bnum_objects\b", "n_obj", t)),
      (CTX, lambda t: re.sub(r"\bidx\b", "i", t)),
      (STORE, lambda t: re.sub(r"\bsegments\b", "segs", t))], "pass"),
    ("harmless: comments and log lines added",
     [(LRU, lambda t: sub1("        if key not in self._cache:\n", "        # probe first\n        _logger.debug(f\"get {key}\")\n        if key not in self._cache:\n")(
         sub1("        # Check the cache first for the key, and then check the store.\n",
              "        # Check the cache first for the key, and then check the store.\n        _logger.debug(f\"has_blob {key} {type(key)}\")\n")(t))),
      (API, sub1("        if not isinstance(cache_objects, (int, bool)):", "        # decoding of the option\n        _logger.debug(f\"cache_objects={cache_objects}\")\n        if not isinstance(cache_objects, (int, bool)):"))], "pass"),
    ("harmless: reformatting",
     [(LRU, lambda t: sub1("        return (self._cache.get(key) is not None) or self._store.has_blob(key)",
                           "        return (\n            (self._cache.get(key) is not None)\n            or self._store.has_blob(\n                key\n            )\n        )")(
         sub1("        if key not in self._cache:", "        if (key not in self._cache):")(t))),
      (API, sub1("elif cache_objects > 0:", "elif (cache_objects > 0):\n")),
      (CTX, sub1('if ".".join(cp._path.parts[:idx]) in self.whitelisted_packages:', 'if (\n                ".".join(cp._path.parts[:idx])\n                in self.whitelisted_packages\n            ):')),
      (STORE, sub1('segments = [s for s in path.split("/") if s]', 'segments = [\n        s for s in path.split("/")\n        if s\n    ]'))], "pass"),
    ("harmless: behaviour-preserving restructuring (branches swapped, early returns)",
     [(LRU, lambda t: sub1("        if key not in self._cache:\n            return None\n        else:\n            self._cache.move_to_end(key)\n            return self._cache[key]",
                           "        if key in self._cache:\n            self._cache.move_to_end(key)\n            return self._cache[key]\n        return None")(
         sub1("        if cache_obj is not None:\n            return cache_obj.obj\n        # Not in the cache\n", "        if cache_obj is None:\n            pass\n        else:\n            return cache_obj.obj\n")(t))),
      (API, sub1("        if isinstance(cache_objects, bool) and cache_objects:\n            num_objects = default_cache_size\n        elif isinstance(cache_objects, int):",
                 "        if cache_objects and isinstance(cache_objects, bool):\n            num_objects = default_cache_size\n        elif not isinstance(cache_objects, bool) or not cache_objects:")),
      (STORE, sub1("if not segments or any(", "if len(segments) == 0 or any("))], "pass"),
]


def coqc(theories, path):
    return C.sh(["timeout", "600", "coqc", "-Q", theories, "DDS", path], timeout=700, cwd=os.path.dirname(path))


def mirror_theories(dst):
    """Scratch mirror of coq/theories: links to everything but the files of the translator route."""
    for d, _dirs, files in os.walk(C.THEORIES):
        rel = os.path.relpath(d, C.THEORIES)
        os.makedirs(os.path.join(dst, rel), exist_ok=True)
        for f in files:
            base = f.lstrip(".").split(".")[0]
            if base in OURS:
                continue
            os.symlink(os.path.join(d, f), os.path.join(dst, rel, f))


def run_scenario(name, edits, root):
    """Returns dict(name, translator=[...failed extractors], gen_compile=[...], proofs=[...], log)."""
    sdir = tempfile.mkdtemp(prefix="sc_", dir=root)
    repo = os.path.join(sdir, "repo")
    os.makedirs(repo)
    shutil.copytree(os.path.join(SRC_REPO, "dds"), os.path.join(repo, "dds"), ignore=shutil.ignore_patterns("__pycache__"))
    for rel, edit in edits:
        p = os.path.join(repo, rel)
        text = open(p).read()
        new = edit(text)
        open(p, "w").write(new)
        compile(new, p, "exec")          # the edited source must still be Python
    out = os.path.join(sdir, "generated")
    env = dict(os.environ)
    env["DDS_REPO"] = repo
    code = ("import json, sys; sys.path.insert(0, %r); import extract_constants as E; ok, m = E.regenerate(sys.argv[1]); "
            "print('@@' + json.dumps(m))" % HERE)
    rc, log = C.sh([C.PY, "-c", code, out], timeout=300, env=env, cwd=sdir)
    lines = [l for l in log.splitlines() if l.startswith("@@")]
    res = dict(name=name, translator=[], const=[], gen_compile=[], proofs=[], log="")
    if not lines:
        res["translator"] = ["harness crashed"]
        res["log"] = log[-2000:]
        return res
    msgs = {n: (ok, msg) for n, ok, msg in json.loads(lines[-1][2:])}
    for n, (ok, msg) in msgs.items():
        if not ok:
            # the older constant extractors (Const*, exact source comparison) are stricter than the translator: noted apart
            res["translator" if n in GEN else "const"].append(f"{n}: {msg}")
    if any(g not in msgs for g in GEN):
        res["translator"].append("a Gen extractor is not registered")
    theories = os.path.join(sdir, "theories")
    mirror_theories(theories)
    compiled = []
    for g in GEN:
        if g in msgs and msgs[g][0]:
            dst = os.path.join(theories, "Extracted", g + ".v")
            shutil.copy(os.path.join(out, g + ".v"), dst)
            rc, o = coqc(theories, dst)
            if rc != 0:
                res["gen_compile"].append(g)
                res["log"] += f"\n--- {g}.v\n" + o[-1500:]
            else:
                compiled.append(g)
    proved = []
    for g in compiled:
        dst = os.path.join(theories, PROOFS[g])
        shutil.copy(os.path.join(C.THEORIES, PROOFS[g]), dst)
        rc, o = coqc(theories, dst)
        if rc != 0:
            res["proofs"].append(PROOFS[g])
            res["log"] += f"\n--- {PROOFS[g]}\n" + o[-1500:]
        else:
            proved.append(g)
    if len(proved) == len(GEN):
        for extra in EXTRA_PROOFS:
            dst = os.path.join(theories, extra)
            shutil.copy(os.path.join(C.THEORIES, extra), dst)
            rc, o = coqc(theories, dst)
            if rc != 0:
                res["proofs"].append(extra)
                res["log"] += f"\n--- {extra}\n" + o[-1500:]
        tot_closed = tot_pa = 0
        for prop in PROPERTIES:
            dst = os.path.join(theories, prop)
            shutil.copy(os.path.join(C.THEORIES, prop), dst)
            rc, o = coqc(theories, dst)
            n_pa = len(re.findall(r"^\s*Print Assumptions", open(dst).read(), re.M))
            closed = len(re.findall(r"Closed under the global context", o))
            if rc != 0 or closed != n_pa:
                res["proofs"].append(prop + f" (rc={rc}, closed {closed}/{n_pa})")
                res["log"] += f"\n--- {prop}\n" + o[-1500:]
            tot_closed, tot_pa = tot_closed + closed, tot_pa + n_pa
        res["closed"] = (tot_closed, tot_pa)
    return res


def verdict(res):
    parts = []
    if res["translator"]:
        parts.append("translator: " + " | ".join(m[:160] for m in res["translator"]))
    if res["gen_compile"]:
        parts.append("generated file ill-typed: " + ", ".join(res["gen_compile"]))
    if res["proofs"]:
        parts.append("proof: " + ", ".join(res["proofs"]))
    return "; ".join(parts)


def main():
    need = [os.path.join(C.THEORIES, "Base", "PyRt.vo"), os.path.join(C.THEORIES, "L5_Stores", "CodecProofs.vo"), os.path.join(C.THEORIES, "L4_Eval", "Store.vo"), os.path.join(C.THEORIES, "L1_Args", "ArgCtx.vo"), os.path.join(C.THEORIES, "L5_Stores", "LruProofs.vo"),
            os.path.join(C.THEORIES, "L5_Stores", "PathMapProofs.vo"), os.path.join(C.THEORIES, "L4_Eval", "Stages.vo"),
            os.path.join(C.THEORIES, "L2_Disc", "Accept.vo")]
    missing = [p for p in need if not os.path.exists(p)]
    if missing:
        print("the Coq development is not built (run ./check --setup): missing " + ", ".join(missing))
        return 2
    root = tempfile.mkdtemp(prefix="ddstr_")
    verbose = "-v" in sys.argv
    failures = 0
    try:
        base = run_scenario("baseline", [], root)
        v = verdict(base)
        print(f"[baseline] source {SRC_REPO}: " + ("ok, Print Assumptions closed %d/%d" % base.get("closed", (0, 0)) if not v else "FAILED " + v))
        if v:
            print(base["log"])
            return 1
        with concurrent.futures.ThreadPoolExecutor(max_workers=min(6, C.NPROC)) as ex:
            futs = [(name, exp, ex.submit(run_scenario, name, edits, root)) for name, edits, exp in SCENARIOS]
            for name, exp, fu in futs:
                try:
                    res = fu.result()
                    v = verdict(res)
                except Exception as e:  # an edit that does not apply, ...
                    res, v, exp_ok = None, f"ERROR {type(e).__name__}: {e}", False
                    print(f"[{name}] {v}")
                    failures += 1
                    continue
                ok = bool(v) if exp == "caught" else not v
                note = ("   (constant extractor also fails closed: " + " | ".join(m[:120] for m in res["const"]) + ")") if res["const"] else ""
                print(f"[{name}] expected {exp}: " + ("OK   " if ok else "WRONG") + (" caught by " + v if v else " nothing broke") + note)
                if not ok or verbose:
                    failures += 0 if ok else 1
                    if res["log"]:
                        print(res["log"])
    finally:
        shutil.rmtree(root, ignore_errors=True)
    print("test_translate: " + ("ok" if failures == 0 else f"{failures} scenario(s) wrong"))
    return 0 if failures == 0 else 1


if __name__ == "__main__":
    sys.exit(main())
