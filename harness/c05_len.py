"""C05, the LENGTH dimension: long sequences / mappings / dataclass field lists / texts and their RE-GROUPINGS.

A value is described by a compact spec (what the replay files carry); expand(spec) gives the usual encoded value
(harness/values.py).  A spec is a JSON object:
  kind   "seq" | "map" | "data" | "text"
  n      number of elements / entries / fields / characters (the boundary lengths LENGTHS)
  elem   the element family: "int" (element i = i), "const" (all 0), "str" ("s<i>"), "mix" (int / float / str / None / big int)
  ctor   "list" | "tuple" (seq), "dict" | "odict" (map);  keys "kint" | "kstr" (map)
  edit   null | ["set", p] (element p replaced by a marker) | ["key", p] (key / field name p replaced) | ["swap", i, j]
         | ["rot", k] (rotated left by k) | ["drop", p] (element p removed)
  group  null (flat) | ["chunks", k] (the list of its k-element slices) | ["tree", k] (chunked again and again until no level has
         more than k elements: the shape of a k-ary tree combiner) | ["split", p] ([x[:p], x[p:]]) | ["wrap"] ([x])
         | ["tail", p] (x[:p] + [x[p:]]) | ["head", p] ([x[:p]] + x[p:])                                   (seq only)
  nest   null | "elem" ([X, 0]) | "val" ({"k": X}) | "field" (A(x=X))
The flat sequence is the flattening of each of its re-groupings (and the concatenation of the two parts of a split): a chunked /
streaming / tree-shaped combiner that forgets the grouping identifies them; one that truncates, samples, de-duplicates or
combines blocks commutatively identifies a sequence with an edit of it or with a sequence of another length."""
import json

import values as V

# around powers of two and round numbers; MAXLEN = the default of hash.max_sequence_size (dds/_options.py)
MAXLEN = 10000
LENGTHS = [255, 256, 257, 1023, 1024, 1025, 2048, 2049, 4096, 9999, 10000, 10001]
BLOCKS = [2, 16, 255, 256, 257, 1023, 1024, 1025, 2048, 2049, 4096, 9999, 10000]
FAMILIES = ["int", "const", "str", "mix"]
MARK = {"int": V.i_(-7), "const": V.i_(-7), "str": V.s_("X"), "mix": V.s_("X")}


def elem(fam, i):
    if fam == "int":
        return V.i_(i)
    if fam == "const":
        return V.i_(0)
    if fam == "str":
        return V.s_("s%d" % i)
    return [V.i_(i), V.f_(i + 0.5), V.s_("s%d" % i), ["none"], V.i_(2 ** 40 + i)][i % 5]


def key(kind, i, alt=False):
    if kind == "kint":
        return V.i_(-7 - i) if alt else V.i_(i)
    return V.s_(("K%d" if alt else "k%d") % i)


def edited(xs, ed, mark):
    xs = list(xs)
    if ed is None or ed[0] == "key":
        return xs
    if ed[0] == "set":
        xs[ed[1]] = mark
    elif ed[0] == "swap":
        xs[ed[1]], xs[ed[2]] = xs[ed[2]], xs[ed[1]]
    elif ed[0] == "rot":
        xs = xs[ed[1]:] + xs[:ed[1]]
    elif ed[0] == "drop":
        del xs[ed[1]]
    else:
        raise ValueError(ed)
    return xs


def grouped(xs, g, ctor):
    mk = lambda ys: [ctor, ys]
    if g is None:
        return mk(xs)
    if g[0] == "chunks":
        return ["list", [mk(xs[i:i + g[1]]) for i in range(0, len(xs), g[1])]]
    if g[0] == "tree":
        level = [mk(xs[i:i + g[1]]) for i in range(0, len(xs), g[1])]
        while len(level) > g[1]:
            level = [["list", level[i:i + g[1]]] for i in range(0, len(level), g[1])]
        return ["list", level]
    if g[0] == "split":
        return ["list", [mk(xs[:g[1]]), mk(xs[g[1]:])]]
    if g[0] == "wrap":
        return ["list", [mk(xs)]]
    if g[0] == "tail":
        return mk(xs[:g[1]] + [mk(xs[g[1]:])])
    if g[0] == "head":
        return mk([mk(xs[:g[1]])] + xs[g[1]:])
    raise ValueError(g)


def expand(spec):
    """The encoded value (harness/values.py) of a spec."""
    k, n, fam, ed = spec["kind"], spec["n"], spec.get("elem", "int"), spec.get("edit")
    if k == "seq":
        x = grouped(edited([elem(fam, i) for i in range(n)], ed, MARK[fam]), spec.get("group"), spec.get("ctor", "list"))
    elif k in ("map", "data"):
        kk = spec.get("keys", "kstr") if k == "map" else "kstr"
        kv = [[key(kk, i, alt=(ed is not None and ed[0] == "key" and ed[1] == i)), elem(fam, i)] for i in range(n)]
        vs = edited([v for (_, v) in kv], ed if ed is None or ed[0] != "drop" else None, MARK[fam])
        kv = [[a, v] for ((a, _), v) in zip(kv, vs)]
        if ed is not None and ed[0] == "drop":
            del kv[ed[1]]
        if k == "map":
            x = [spec.get("ctor", "dict"), kv]
        else:
            x = ["data", "L", [[bytes.fromhex(a[1]).decode(), v] for (a, v) in kv]]
    elif k == "text":
        cs = edited(list(("ab" * n)[:n]), ed, "X")
        x = V.s_("".join(cs))
    else:
        raise ValueError(k)
    nest = spec.get("nest")
    if nest == "elem":
        x = ["list", [x, V.i_(0)]]
    elif nest == "val":
        x = ["dict", [[V.s_("k"), x]]]
    elif nest == "field":
        x = ["data", "A", [["x", x]]]
    return x


def describe(spec):
    k, n, ed, g = spec["kind"], spec["n"], spec.get("edit"), spec.get("group")
    what = {"seq": "%s of %d elements" % (spec.get("ctor", "list"), n),
            "map": "%s of %d entries (%s keys)" % (spec.get("ctor", "dict"), n, "int" if spec.get("keys") == "kint" else "str"),
            "data": "dataclass instance with %d fields" % n, "text": "text of %d characters ('abab..')" % n}[k]
    if k != "text":
        what += {"int": " (element i = i)", "const": " (all 0)", "str": " (element i = 's<i>')",
                 "mix": " (int / float / str / None / big int in turn)"}[spec.get("elem", "int")]
    if ed:
        what += {"set": " with element %s replaced by a marker", "key": " with key / field name %s replaced",
                 "swap": " with elements %s and %s swapped", "rot": " rotated left by %s",
                 "drop": " with element %s removed"}[ed[0]] % tuple(ed[1:])
    if g:
        what += {"chunks": ", re-grouped as the list of its %s-element slices",
                 "tree": ", re-grouped as a tree of lists of at most %s elements (slices of slices)",
                 "split": ", re-grouped as [x[:%s], x[%s:]]" % ((g + [0])[1], (g + [0])[1]),
                 "wrap": ", wrapped as [x]", "tail": ", re-grouped as x[:%s] + [x[%s:]]" % ((g + [0])[1], (g + [0])[1]),
                 "head": ", re-grouped as [x[:%s]] + x[%s:]" % ((g + [0])[1], (g + [0])[1])}[g[0]]
        if g[0] in ("chunks", "tree"):
            what = what % g[1]
    if spec.get("nest"):
        what += {"elem": ", as first element of a 2-element list", "val": ", as the value of a 1-entry dict",
                 "field": ", as the field of a dataclass instance"}[spec["nest"]]
    return what


def too_long(e, mx):
    """The documented outcome (option hash.max_sequence_size: 'only sequences of length less than' it, the guard being
    len(x) > max_sequence_size): is some list / tuple / dict / field list of the value longer than mx?"""
    if mx is None:
        return False
    t = e[0]
    if t in ("list", "tuple"):
        return len(e[1]) > mx or any(too_long(x, mx) for x in e[1])
    if t in ("dict", "odict"):
        return len(e[1]) > mx or any(too_long(k, mx) or too_long(v, mx) for (k, v) in e[1])
    if t == "data":
        return len(e[2]) > mx or any(too_long(v, mx) for (_, v) in e[2])
    return False


def relation(s1, s2):
    """Class of a collision between the values of two specs (none of the known confusions of the encoding)."""
    base = lambda s: (s["kind"], s.get("elem"), s.get("keys"), s.get("nest"))
    if base(s1) != base(s2):
        return "collide:length-dimension:unrelated-long-values"
    if s1["n"] != s2["n"]:
        return "collide:length-dimension:containers-of-different-length"
    if s1.get("edit") != s2.get("edit"):
        return "collide:length-dimension:edit-of-a-long-container-ignored:" + (s1.get("edit") or s2.get("edit"))[0]
    if s1.get("group") != s2.get("group"):
        return "collide:length-dimension:sequence-vs-its-regrouping"
    return "collide:length-dimension:other"


def positions(n):
    """Boundary positions of a container of n elements: both ends and both sides of every block boundary inside it."""
    ps = {0, n - 1, n // 2}
    for b in BLOCKS:
        ps |= {p for p in (b - 1, b, n - b, n - b - 1) if 0 <= p < n}
    return sorted(ps)


def regroupings(n):
    gs = [["wrap"], ["split", n // 2]]
    gs += [["chunks", k] for k in BLOCKS if k < n]
    gs += [["tree", k] for k in (2, 16, 256, 1024) if k * k < n or k == 2]
    for p in BLOCKS:
        if 2 < p < n:
            gs += [["split", p], ["tail", p], ["head", p]]
    out = []
    for g in gs:
        if g not in out:
            out.append(g)
    return out


def edits(n, kind="seq"):
    ps = positions(n)
    es = [["set", p] for p in ps] + [["drop", p] for p in ps]
    if kind == "seq":
        es += [["swap", ps[i], ps[j]] for i in range(len(ps)) for j in range(i + 1, len(ps))]
        es += [["rot", k] for k in [1] + [b for b in BLOCKS if 2 < b < n]]
    elif kind in ("map", "data"):
        es += [["key", p] for p in ps]
    return es


def enumerate_specs(rng, tier):
    """(specs for the collision search and the outcome check under the default option, [(spec, max)] option cases,
    specs sent to the Coq model too, [(spec, spec)] pairs run end to end through dds.keep)."""
    quick = tier == "quick"
    specs = []

    def add(**s):
        s = dict((k, v) for (k, v) in s.items() if v is not None)
        if s not in specs:
            specs.append(s)
        return s

    flats = {}
    for i, n in enumerate(LENGTHS):
        # flat sequences of every boundary length, the block-sized re-groupings that exist for it, a sample of the others
        ctor = ["list", "tuple"][i % 2]
        flats[n] = add(kind="seq", n=n, elem="int", ctor=ctor)
        add(kind="seq", n=n, elem="const", ctor=["tuple", "list"][i % 2])
        gs = regroupings(n)
        sure = [g for g in gs if g[0] == "chunks" and g[1] in (256, 1024, 4096)]
        rest = [g for g in gs if g not in sure]
        for g in sure + rng.sample(rest, min(4 if quick else 10, len(rest))):
            add(kind="seq", n=n, elem="int", ctor=rng.choice(["list", "tuple"]), group=g)
        es = edits(n)
        for ed in rng.sample(es, 3 if quick else 8):
            add(kind="seq", n=n, elem="int", ctor=ctor, edit=ed)
        add(kind="text", n=n)
        add(kind="text", n=n, edit=rng.choice([["set", p] for p in positions(n)]))
    some = rng.sample(LENGTHS, 3 if quick else 6)
    for n in some:
        # the other element families; long values (flat, re-grouped, edited) below the top level
        for fam in (["const", rng.choice(["str", "mix"])] if quick else FAMILIES[1:]):
            add(kind="seq", n=n, elem=fam, ctor="list")
            for g in rng.sample(regroupings(n), 1 if quick else 4):
                add(kind="seq", n=n, elem=fam, ctor="list", group=g)
            if fam != "const":
                add(kind="seq", n=n, elem=fam, ctor="list", edit=rng.choice(edits(n)))
            else:
                add(kind="seq", n=n, elem=fam, ctor="list", edit=["set", rng.choice(positions(n))])
        for nest in (["elem", "val", "field"] if not quick else [rng.choice(["elem", "val", "field"])]):
            add(kind="seq", n=n, elem="int", ctor="list", nest=nest)
            add(kind="seq", n=n, elem="int", ctor="list", nest=nest, group=rng.choice(regroupings(n)))
            add(kind="seq", n=n, elem="int", ctor="list", nest=nest, edit=["set", rng.choice(positions(n))])
    # mappings and field lists
    mlens = LENGTHS[:6] if quick else LENGTHS
    for i, n in enumerate(mlens):
        keys = ["kstr", "kint"][i % 2]
        add(kind="map", n=n, elem="int", keys=keys, ctor=["dict", "odict"][(i // 2) % 2])
        for ed in rng.sample(edits(n, "map"), 1 if quick else 12):
            add(kind="map", n=n, elem="int", keys=keys, ctor="dict", edit=ed)
    dlens = LENGTHS[:3] + ([rng.choice(LENGTHS[3:6])] if quick else LENGTHS[3:9])
    for n in dlens:
        add(kind="data", n=n, elem="int")
        for ed in rng.sample(edits(n, "data"), 1 if quick else 6):
            add(kind="data", n=n, elem="int", edit=ed)
    # the option: the same container under limits on both sides of its length, and without a limit
    opts = []
    for n in (rng.sample(LENGTHS, 3) if quick else LENGTHS):
        s = flats[n]
        opts += [(s, n - 1), (s, n), (s, None)]
        opts.append(({"kind": "map", "n": min(n, 2049), "elem": "int", "keys": "kint"}, min(n, 2049) - rng.choice([0, 1])))
    # a few for the Coq model (SHA-256 under vm_compute: the cost grows with the length)
    mid = [n for n in LENGTHS if 1000 < n < 2100]
    nm = rng.choice(mid)
    model = [(flats[nm], "default"), (flats[rng.choice(LENGTHS[:3])], rng.choice([255, 256, 257])),
             ({"kind": "map", "n": rng.choice(LENGTHS[:3]), "elem": "int", "keys": "kint"}, "default"),
             ({"kind": "data", "n": rng.choice(LENGTHS[:3]), "elem": "int"}, "default")]
    if not quick:
        model += [(flats[rng.choice(mid)], 1024)]
        model += [(flats[n], "default") for n in LENGTHS[:9] if n != nm]
        model += [({"kind": "seq", "n": n, "elem": "mix", "ctor": "tuple", "group": g}, "default")
                  for (n, g) in ((1025, ["chunks", 1024]), (2049, ["tree", 16]), (4096, ["tail", 1024]))]
        model += [({"kind": "map", "n": 1025, "elem": "str", "keys": "kstr"}, "default"),
                  ({"kind": "data", "n": 1025, "elem": "int"}, "default"), (flats[10000], "default")]
    # end to end: a sequence one longer than a block and its block-sized slices; a sequence and an edit of it
    pairs = []
    for b in ((256, 1024, 4096) if not quick else (rng.choice([256, 1024]), rng.choice([1024, 4096]))):
        n = b + rng.choice([1, 1, b // 2, b])
        f = {"kind": "seq", "n": n, "elem": "int", "ctor": "list"}
        pairs.append((f, dict(f, group=["chunks", b])))
        pairs.append((f, dict(f, edit=rng.choice([["set", n - 1], ["set", b], ["swap", 0, n - 1], ["rot", b]]))))
    if not quick:
        for n in LENGTHS[:-1]:
            f = {"kind": "seq", "n": n, "elem": "mix", "ctor": "tuple"}
            pairs.append((f, dict(f, group=rng.choice(regroupings(n)))))
    return specs, opts, model, pairs


def skey(spec, mx="default"):
    return "len:" + json.dumps([spec, mx], sort_keys=True)
