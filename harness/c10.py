"""C10 - a failing user function is never cached and leaves dds and the store clean."""
import concurrent.futures as cf
import copy
import json
import random

import common as C
import hist
import progs as P

COQ_FILES = ("L4_Eval/DdsEval.v", "L4_Eval/RunEval.v", "L4_Eval/EvalProofs.v", "Properties/C10.v")
EXTRACTED = ("ConstHash", "ConstSig")
ALLOWED_AXIOMS = ()
KINDS = ["Exception", "ValueError", "KeyboardInterrupt", "SystemExit", "BaseException",
         # exceptions created by the interpreter itself (progs.make_exc provokes them): Python's own classes, arguments and messages
         "TypeError/missing-argument", "TypeError/unexpected-keyword", "TypeError/multiple-values", "TypeError/too-many-positional",
         "TypeError/not-callable", "TypeError/operand", "AttributeError", "KeyError", "IndexError", "ZeroDivisionError", "StopIteration", "FileNotFoundError",
         "UnicodeDecodeError", "NameError", "RecursionError"]

# The configuration of dds under which a history is run.  The property does not mention it: whatever the configuration, the
# very exception object must come out, nothing may be stored / committed, and the following evaluations must not notice.
OPTS = [None, False, True]                      # dds.set_option("extra_debug", .) for the whole process (None: left at its default)
ARGS = [None, False, True]                      # dds_extra_debug argument of dds.eval
EXPORTS = [False, True]                         # dds_export_graph argument of dds.eval
STAGES = [None, 3, 4]                           # dds_stages of dds.eval: all / up to eval / up to store_commit (user code runs in all)
REPAIRS = ["new-process", "same-process"]       # the repaired code arrives in a new process / is reloaded into the running one
DEFAULT_CFG = {"opt": None, "arg": None, "export": False, "n_stages": None, "repair": "new-process"}


def cfg_name(cfg):
    return (f"set_option('extra_debug', {cfg['opt']})" if cfg["opt"] is not None else "option extra_debug at its default") + \
           f", dds_extra_debug={cfg['arg']}, dds_export_graph={'a file' if cfg['export'] else None}, dds_stages=" + \
           ("None" if cfg["n_stages"] is None else "/".join(hist.STAGE_NAMES[:cfg["n_stages"]])) + f", repaired pipeline in {cfg['repair']}"


def cfg_options(cfg):
    return {} if cfg["opt"] is None else {"extra_debug": cfg["opt"]}


def debug_off(cfg):
    """The debugging level is really off (documented: on by default, the argument of dds.eval can only switch it on)."""
    return not (cfg["arg"] or (True if cfg["opt"] is None else cfg["opt"]))


def draw_cfg(rng, has_eval, opt, args=ARGS):
    cfg = dict(DEFAULT_CFG, opt=opt, repair=rng.choice(REPAIRS))
    if has_eval:        # the three arguments exist on dds.eval only
        staged = rng.random() < 0.25       # (these histories need their own run of the model)
        cfg.update(arg=rng.choice(args), export=rng.choice(EXPORTS), n_stages=rng.choice(STAGES[1:]) if staged else None)
    return cfg


def draw_configs(rng, has_eval, tier):
    """Configurations for one history: always one with the debugging level really off (the default never exercises that) and
    one with the option left alone or switched on; beyond the quick tier four more cells of the option x argument grid."""
    cfgs = [draw_cfg(rng, has_eval, False, [None, False]), draw_cfg(rng, has_eval, rng.choice([None, True]))]
    if tier != "quick":
        cfgs += [draw_cfg(rng, has_eval, rng.choice(OPTS)) for _ in range(4)]
    out = []
    for c in cfgs:
        if c != DEFAULT_CFG and c not in out:
            out.append(c)
    return out


def plan(seed, tier="quick"):
    rng = random.Random(seed)
    prog = P.gen_program(rng, allow_classes=(seed % 3 == 0))      # every third pipeline may contain plain classes
    call = P.root_call(prog, rng)
    reach = P.reachable(prog, *prog["root"])
    victim = rng.choice(reach)
    kind = KINDS[(seed % 1000) % len(KINDS)] if (seed % 1000) < len(KINDS) else rng.choice(KINDS)      # every class once, then at random
    bad = copy.deepcopy(prog)
    P.find_func(bad, *victim)["raises"] = kind
    # the failing evaluation, the same evaluation again (must fail again, nothing cached), the repaired pipeline,
    # and in between another pipeline (a sub-node evaluated on its own) in the same process
    others = [(m, n) for (m, n) in reach if (m, n) != victim and not P.find_func(prog, m, n)["params"] and victim not in P.reachable(prog, m, n)]
    ev = [("prog", bad), ("act", call), ("act", call)]
    if others:
        m, n = rng.choice(others)
        f = P.find_func(prog, m, n)
        if not f.get("is_class"):       # (a plain class on its own is not a pipeline: dds.eval hands back the instance, the model its content)
            ev.append(("act", {"a": "call", "mod": m, "fn": n, "style": "direct" if f.get("annot") else "eval", "pos": [], "kw": []}))
    ev += [("prog", prog), ("act", call), ("act", call)]
    store = rng.choice(["local", "local", "memory-then-none"])
    has_eval = any(e[0] == "act" and e[1].get("style") == "eval" for e in ev)
    return {"seed": seed, "events": ev, "victim": victim, "kind": kind, "call": call, "prog": bad, "store": store,
            "configs": draw_configs(rng, has_eval, tier)}


def with_cfg(act, cfg):
    a = dict(act)
    if a["a"] == "call" and a.get("style", "eval") == "eval":
        if cfg["arg"] is not None:
            a["extra_debug"] = cfg["arg"]
        if cfg["export"]:
            a["export"] = True
        if cfg["n_stages"] is not None:
            a["n_stages"] = cfg["n_stages"]
    return a


def variant_events(events, cfg):
    """The history under a configuration: every dds.eval call but the last one carries the arguments (the last one is the plain
    call: it must find what it finds after default evaluations); the repaired code arrives as the configuration says."""
    ev, n_prog = [], 0
    for i, e in enumerate(events):
        if e[0] == "prog":
            n_prog += 1
            ev.append(("act", {"a": "reprog", "prog": copy.deepcopy(e[1])}) if n_prog > 1 and cfg["repair"] == "same-process" else e)
        else:
            ev.append(("act", with_cfg(e[1], cfg) if i != len(events) - 1 else e[1]))
    return ev


def is_staged(events):
    return any(e[0] == "act" and e[1].get("n_stages") is not None for e in events)


def run_job(job):
    pl, cfg = job
    try:
        if cfg is None:
            return hist.run_history(pl["events"], store_kind="local")
        ev = variant_events(pl["events"], cfg)
        # the dds-free reference and (unless the stages are restricted) the model do not depend on the configuration:
        # they are taken from the run of the history under the default configuration
        return hist.run_history(ev, store_kind="local", options=cfg_options(cfg), run_ref=False, run_model=is_staged(ev))
    except Exception as e:  # noqa
        return {"error": str(e)[-1000:]}


def ancestors_and_self(prog, victim):
    """Names of functions whose evaluation waits for the victim (the victim is reachable from them)."""
    return {n for (m, n) in P.reachable(prog, *prog["root"]) if victim in P.reachable(prog, m, n)}


def observed(r):
    io = r["impl"]
    return {"outcome": io["out"], "executions": io["log"], "blobs stored": [x[1:] for x in io["rec"] if x[0] == "put"],
            "paths committed": [x[1] for x in io["rec"] if x[0] == "sync"]}


def check_history(rep, pl, recs, replay, cfg=None):
    """The checks of the property on one run of the history (recs: one record per call), under the configuration cfg."""
    sfx, where = ("", "") if cfg is None else (":config", " [" + cfg_name(cfg) + "]")
    vm, vn = pl["victim"]
    fail1, fail2 = recs[0], recs[1]
    for i, r in enumerate(recs):
        d = hist.compare(r)
        if d:
            rep.violation("model-mismatch:" + d[0][0] + sfx, f"implementation and model disagree at action {i}: {json.dumps(d[:2])[:300]}{where}", dict(replay, action=i))
        if r["impl"].get("in_eval"):
            rep.violation("left-in-eval" + sfx, "dds still believes an evaluation is running after the call returned" + where, dict(replay, action=i))
    reached = vn in fail1["impl"]["log"]
    if reached:
        want = f"exc:{pl['kind']}:same-object:{vn}"
        for r in (fail1, fail2):
            if r["impl"]["out"] != want:
                rep.violation("exception-not-propagated" + sfx, f"expected {want}, got {r['impl']['out']}{where}", replay)
        for r in (fail1, fail2):
            if any(x[0] == "sync" for x in r["impl"]["rec"]):
                rep.violation("commit-after-failure" + sfx, "paths were committed although the evaluation failed" + where, replay)
        # blobs: nothing stored with a value whose tag is the victim or an ancestor
        waiting = ancestors_and_self(pl["prog"], tuple(pl["victim"]))
        for r in (fail1, fail2):
            for x in r["impl"]["rec"]:
                if x[0] == "put":
                    tag = bytes.fromhex(x[2].split("(s", 1)[1].split(",")[0].split(")")[0]).decode() if "(s" in x[2] else ""
                    if tag in waiting:
                        rep.violation("blob-of-failed-node" + sfx, f"a blob was stored for {tag}, which failed or was waiting for the failing {vn}{where}", replay)
        if vn not in fail2["impl"]["log"]:
            rep.violation("failure-cached" + sfx, "the second evaluation did not run the failing function again" + where, replay)
        # completed kept nodes are reused, not re-executed, by the second failing run
        stored1 = {x[1] for x in fail1["impl"]["rec"] if x[0] == "put"}
        stored2 = {x[1] for x in fail2["impl"]["rec"] if x[0] == "put"}
        if stored1 & stored2:
            rep.violation("completed-not-reused" + sfx, "a kept node completed by the failed evaluation was executed and stored again" + where, replay)
    repaired = recs[-2]
    if repaired["impl"]["out"] != repaired["ref"]["out"]:
        rep.violation("wrong-after-failure" + sfx, f"after the failure the repaired pipeline returns {repaired['impl']['out'][:80]} instead of "
                      f"{repaired['ref']['out'][:80]}{where}", replay)
    return reached


def judge(rep, pl, base, variants):
    """base: records of the history under the default configuration; variants: [(cfg, records)] of the same history."""
    replay = {"events": pl["events"], "victim": pl["victim"], "kind": pl["kind"]}
    check_history(rep, pl, base, replay)
    for cfg, recs in variants:
        vreplay = dict(replay, events=variant_events(pl["events"], cfg), options=cfg_options(cfg), config=cfg, baseline_events=pl["events"])
        if isinstance(recs, dict):
            rep.violation("harness-error:c10", "history could not be run: " + recs["error"][-300:], vreplay, no_input=True)
            continue
        calls = [r for r in recs if r["act"]["a"] != "reprog"]
        staged = any(r["act"].get("n_stages") is not None for r in calls)
        for r, b in zip(calls, base):
            r["ref"] = b["ref"]
            if not staged and "model" in b:
                r["model"] = b["model"]
        check_history(rep, pl, calls, vreplay, cfg)
        # none of the configuration is more than diagnostics: each call does, stores and commits what it does by default
        # (with restricted stages the path commit is skipped: that case is judged by its own run of the model)
        for i, (r, b) in enumerate(zip(calls, base)):
            diff = [] if staged else [k for k, v in observed(r).items() if v != observed(b)[k]]
            if diff:
                k = diff[0]
                rep.violation("config-perturbs:" + k.split()[0], f"action {i}, {k}: {json.dumps(observed(r)[k])[:120]} under [{cfg_name(cfg)}], but "
                              f"{json.dumps(observed(b)[k])[:120]} under the default configuration", dict(vreplay, action=i))
                break


def run(rep, tier, seed, proof_ok):
    n = 24 if tier == "quick" and proof_ok else 120
    rep.rule = (f"{n} random pipelines x a reachable function chosen to raise x exception classes {KINDS}; history: failing evaluation, the "
                "same again, another pipeline in the same process, then the repaired pipeline twice; checks: the very exception object "
                "propagates, no blob is stored under any signature of the failing function or of a function waiting for it, no path is "
                "committed by the failed evaluation, dds is not left inside an evaluation, the repaired run returns the plain result and "
                "re-executes no kept node that had completed; all observations also compared with the Coq model; every history is run "
                "again under other configurations of dds: dds.set_option('extra_debug', False / True) x the dds.eval arguments "
                "dds_extra_debug None/False/True, dds_export_graph, dds_stages cut after eval / store_commit x the repaired code in a new "
                "process / reloaded into the same process (quick: 2 configurations per history, one with the debugging level really "
                "off; thorough: four more drawn from the option x argument grid); the same checks hold under each, and every call yields, "
                "executes, stores and commits what it does under the default configuration; distinct = distinct (program, victim, "
                "class, configuration); non-trivial = the victim is not the root or something completed before the failure"
                "; thread dimension (c10_threads.py): generated pipelines whose kept steps (dds.keep / @data_function, some loading a path "
                "kept earlier in the same evaluation, some waiting for a kept sub-step handed to yet another thread, root kept or not) are "
                "reached from other threads than the caller of dds.eval (ThreadPoolExecutor.submit / map one by one or in parallel, "
                "threading.Thread, a pool that outlives the evaluation, thread-in-thread, Timer; dds.eval called from the main or from "
                "another thread) x the failing function (a step on a worker thread, a step on the calling thread after worker threads "
                "completed others, a sub-step, the root) x the exception classes x store kinds (local, local+lru, memory) x empty / "
                "populated store (after a variable was reassigned) x the cause removed outside the code (same signatures, same process) / by "
                "an edit (new process); history: loads, failing evaluation, loads in the process + raw data directory + loads from a fresh "
                "process, the same again, another step evaluated on its own, cause removed, pipeline twice, loads; checked against plain "
                "execution, against the control history that never fails and against the store below dds (sync_paths / store_blob calls of "
                "every thread, committed paths, raw data directory): same exception object, no commit from any thread, paths and loads as "
                "before, no blob for the failing or a waiting function, not left inside an evaluation on the calling thread nor on the "
                "threads of the surviving pool, failure not cached, completed steps reused, the later evaluations return, commit and execute "
                "what the control history does minus the completed steps; non-trivial = a keep is reached on another thread before the "
                "failure or for the failing function itself"
                "; handled-failure dimension (c10_handled.py): the failure is dealt with by the USER code inside the evaluation - generated "
                "pipelines whose kept function fails its first 1 / 2 calls (transient, cause outside the code dds sees) or every call x the "
                "handler around the request (retry loop of 2 / 3 attempts giving up with a default or re-raising the last exception, retry "
                "helper of a non-accepted module, try / except default, contextlib.suppress, fallback to another kept function, asking again "
                "inside the except block, guarded first call site + unguarded second call site of the same path, try / finally control, two "
                "worker threads asking at the same time: the second arrives while the first is inside the failing function) x the handler "
                "in the evaluated function / a plain function / a kept function x every request from the caller / threading.Thread / a "
                "pool x dds.keep at the call site / keeper function / @data_function x the exception classes caught exactly or through a "
                "base class x the failing function waiting for a kept sub-step that completed x kept siblings before / after x kept root x "
                "stores (local, local+lru, memory) x calling thread; history: loads, evaluation, loads, (cause armed again,) the same "
                "evaluation again, another kept function on its own, cause removed, evaluation twice, loads; checked against the execution "
                "of the same files without the library (keep = call, a result that completed is reused, a failure never is - not even within "
                "the evaluation -, paths loadable once their evaluation returned): same value (never None) / same exception object out of "
                "dds.eval, same execution log including what every handler caught (class and identity of the object the function raised) - "
                "i.e. every later request really calls the function again -, same values stored as blobs in the same order, nothing stored for a "
                "function that did not complete, no commit and no change of the data directory when the handler gives up, dds.load of every "
                "path as the reference, dds not left inside an evaluation; non-trivial = a handler caught the failure or the function was "
                "requested again in the same evaluation")
    plans = [plan(seed * 1000 + i, tier) for i in range(n)]
    jobs = [(pl, cfg) for pl in plans for cfg in [None] + pl["configs"]]
    with cf.ThreadPoolExecutor(max_workers=C.NPROC) as ex:
        results = list(ex.map(run_job, jobs))
    by_plan = {}
    for (pl, cfg), recs in zip(jobs, results):
        by_plan.setdefault(pl["seed"], []).append((cfg, recs))
    kinds = {}
    dims = {"histories": 0, "set_option(extra_debug)": {}, "dds_extra_debug": {}, "dds_export_graph": 0, "dds_stages": {}, "repaired_in": {},
            "debugging_level_really_off": 0, "failing_function_reached": 0}
    for pl in plans:
        recs = by_plan[pl["seed"]][0][1]
        if isinstance(recs, dict):
            rep.violation("harness-error:c10", "history could not be run: " + recs["error"][-300:], {"events": pl["events"]}, no_input=True)
            continue
        kinds[pl["kind"]] = kinds.get(pl["kind"], 0) + 1
        fail1 = recs[0]
        nontrivial = (tuple(pl["victim"]) != tuple(pl["prog"]["root"])) or len(fail1["impl"]["log"]) > 1
        rep.case(f"{pl['seed']}", nontrivial=nontrivial)
        variants = by_plan[pl["seed"]][1:]
        for cfg, vrecs in variants:
            rep.case(f"{pl['seed']}:{cfg_name(cfg)}", nontrivial=nontrivial)
            dims["histories"] += 1
            for k, v in (("set_option(extra_debug)", cfg["opt"]), ("dds_extra_debug", cfg["arg"]), ("dds_stages", cfg["n_stages"]), ("repaired_in", cfg["repair"])):
                dims[k][str(v)] = dims[k].get(str(v), 0) + 1
            dims["dds_export_graph"] += bool(cfg["export"])
            dims["debugging_level_really_off"] += debug_off(cfg)
            dims["failing_function_reached"] += pl["victim"][1] in fail1["impl"]["log"]
        judge(rep, pl, recs, variants)
        rep.sample({"victim": pl["victim"], "class": pl["kind"], "entry": pl["call"], "first": fail1["impl"]["out"], "log": fail1["impl"]["log"],
                    "configurations": [cfg_name(c) for c in pl["configs"]]}, cap=3)
    rep.extra["input_distribution"] = {"histories": len(plans), "exception_classes": kinds, "configurations": dims}
    import c10_threads
    rep.extra["input_distribution"]["threads"] = c10_threads.run(rep, tier, seed, proof_ok)
    import c10_handled
    rep.extra["input_distribution"]["handled_failures"] = c10_handled.run(rep, tier, seed, proof_ok)


class _Echo:
    """Stand-in for the report when a replay file is re-run: prints what the checks find."""

    def __init__(self):
        self.n = 0

    def violation(self, key, what, replay, no_input=False):
        self.n += 1
        print(f"  {key}: {what}")


def _events(evs):
    def norm(p):
        p["root"] = tuple(p["root"])
        for m in p["modules"].values():
            for f in m["funcs"]:
                for st in f["stmts"]:
                    if "callee" in st:
                        st["callee"] = tuple(st["callee"])
        return p
    out = []
    for e in evs:
        if e[0] == "prog":
            out.append(("prog", norm(e[1])))
        else:
            out.append(("act", dict(e[1], prog=norm(e[1]["prog"])) if e[1]["a"] == "reprog" else e[1]))
    return out


def replay(path):
    r = json.load(open(path))["replay"]
    if "tplan" in r:
        import c10_threads
        return c10_threads.replay(r)
    if "hplan" in r:
        import c10_handled
        return c10_handled.replay(r)
    if "victim" not in r:
        import c01
        return c01.replay(path)
    cfg = r.get("config")
    events = _events(r["baseline_events"] if cfg else r["events"])
    pl = {"seed": "replay", "events": events, "victim": tuple(r["victim"]), "kind": r["kind"], "prog": events[0][1]}
    jobs = [(pl, None)] + ([(pl, cfg)] if cfg else [])
    results = [run_job(j) for j in jobs]
    for (_, c), recs in zip(jobs, results):
        print("history under", cfg_name(c) if c else "the default configuration")
        if isinstance(recs, dict):
            print("  could not be run:", recs["error"][-300:])
            return 2
        for i, rec in enumerate(recs):
            if rec["act"]["a"] == "call":
                print(" ", i, rec["act"].get("fn"), "impl:", rec["impl"]["out"][:100], "| log:", rec["impl"]["log"])
    echo = _Echo()
    judge(echo, pl, results[0], [(cfg, results[1])] if cfg else [])
    print("REPRODUCED" if echo.n else "not reproduced")
    return 1 if echo.n else 0
