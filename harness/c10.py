"""C10 - a failing user function is never cached and leaves dds and the store clean."""
import concurrent.futures as cf
import copy
import json
import random

import common as C
import hist
import progs as P

COQ_FILES = ("L4_Eval/DdsEval.v", "L4_Eval/RunEval.v", "L4_Eval/EvalProofs.v", "Properties/C10.v")
EXTRACTED = ("ConstHash", "ConstSig")
ALLOWED_AXIOMS = ()
KINDS = ["Exception", "ValueError", "KeyboardInterrupt", "SystemExit", "BaseException"]


def plan(seed):
    rng = random.Random(seed)
    prog = P.gen_program(rng, allow_classes=(seed % 3 == 0))      # every third pipeline may contain plain classes
    call = P.root_call(prog, rng)
    reach = P.reachable(prog, *prog["root"])
    victim = rng.choice(reach)
    kind = rng.choice(KINDS)
    bad = copy.deepcopy(prog)
    P.find_func(bad, *victim)["raises"] = kind
    # the failing evaluation, the same evaluation again (must fail again, nothing cached), the repaired pipeline,
    # and in between another pipeline (a sub-node evaluated on its own) in the same process
    others = [(m, n) for (m, n) in reach if (m, n) != victim and not P.find_func(prog, m, n)["params"] and victim not in P.reachable(prog, m, n)]
    ev = [("prog", bad), ("act", call), ("act", call)]
    if others:
        m, n = rng.choice(others)
        f = P.find_func(prog, m, n)
        ev.append(("act", {"a": "call", "mod": m, "fn": n, "style": "direct" if f.get("annot") else "eval", "pos": [], "kw": []}))
    ev += [("prog", prog), ("act", call), ("act", call)]
    return {"seed": seed, "events": ev, "victim": victim, "kind": kind, "call": call, "prog": bad,
            "store": rng.choice(["local", "local", "memory-then-none"])}


def run_one(pl):
    try:
        return hist.run_history(pl["events"], store_kind="local")
    except Exception as e:  # noqa
        return {"error": str(e)[-1000:]}


def ancestors_and_self(prog, victim):
    """Names of functions whose evaluation waits for the victim (the victim is reachable from them)."""
    return {n for (m, n) in P.reachable(prog, *prog["root"]) if victim in P.reachable(prog, m, n)}


def run(rep, tier, seed, proof_ok):
    n = 14 if tier == "quick" and proof_ok else 120
    rep.rule = (f"{n} random pipelines x a reachable function chosen to raise x exception classes {KINDS}; history: failing evaluation, the "
                "same again, another pipeline in the same process, then the repaired pipeline twice; checks: the very exception object "
                "propagates, no blob is stored under any signature of the failing function or of a function waiting for it, no path is "
                "committed by the failed evaluation, dds is not left inside an evaluation, the repaired run returns the plain result and "
                "re-executes no kept node that had completed; all observations also compared with the Coq model; distinct = distinct "
                "(program, victim, class); non-trivial = the victim is not the root or something completed before the failure")
    plans = [plan(seed * 1000 + i) for i in range(n)]
    with cf.ThreadPoolExecutor(max_workers=C.NPROC) as ex:
        results = list(ex.map(run_one, plans))
    kinds = {}
    for pl, recs in zip(plans, results):
        if isinstance(recs, dict):
            rep.violation("harness-error:c10", "history could not be run: " + recs["error"][-300:], {"events": pl["events"]}, no_input=True)
            continue
        kinds[pl["kind"]] = kinds.get(pl["kind"], 0) + 1
        vm, vn = pl["victim"]
        fail1, fail2 = recs[0], recs[1]
        rep.case(f"{pl['seed']}", nontrivial=(tuple(pl["victim"]) != tuple(pl["prog"]["root"])) or len(fail1["impl"]["log"]) > 1)
        replay = {"events": pl["events"], "victim": pl["victim"], "kind": pl["kind"]}
        for i, r in enumerate(recs):
            d = hist.compare(r)
            if d:
                rep.violation("model-mismatch:" + d[0][0], f"implementation and model disagree at action {i}: {json.dumps(d[:2])[:300]}", dict(replay, action=i))
            if r["impl"].get("in_eval"):
                rep.violation("left-in-eval", "dds still believes an evaluation is running after the call returned", dict(replay, action=i))
        reached = vn in fail1["impl"]["log"]
        if reached:
            want = f"exc:{pl['kind']}:same-object:{vn}"
            for r in (fail1, fail2):
                if r["impl"]["out"] != want:
                    rep.violation("exception-not-propagated", f"expected {want}, got {r['impl']['out']}", replay)
            for r in (fail1, fail2):
                if any(x[0] == "sync" for x in r["impl"]["rec"]):
                    rep.violation("commit-after-failure", "paths were committed although the evaluation failed", replay)
            # blobs: nothing stored with a value whose tag is the victim or an ancestor
            waiting = ancestors_and_self(pl["prog"], tuple(pl["victim"]))
            for r in (fail1, fail2):
                for x in r["impl"]["rec"]:
                    if x[0] == "put":
                        tag = bytes.fromhex(x[2].split("(s", 1)[1].split(",")[0].split(")")[0]).decode() if "(s" in x[2] else ""
                        if tag in waiting:
                            rep.violation("blob-of-failed-node", f"a blob was stored for {tag}, which failed or was waiting for the failing {vn}", replay)
            if vn not in fail2["impl"]["log"]:
                rep.violation("failure-cached", "the second evaluation did not run the failing function again", replay)
            # completed kept nodes are reused, not re-executed, by the second failing run
            stored1 = {x[1] for x in fail1["impl"]["rec"] if x[0] == "put"}
            stored2 = {x[1] for x in fail2["impl"]["rec"] if x[0] == "put"}
            if stored1 & stored2:
                rep.violation("completed-not-reused", "a kept node completed by the failed evaluation was executed and stored again", replay)
        repaired = recs[-2]
        if repaired["impl"]["out"] != repaired["ref"]["out"]:
            rep.violation("wrong-after-failure", f"after the failure the repaired pipeline returns {repaired['impl']['out'][:80]} instead of "
                          f"{repaired['ref']['out'][:80]}", replay)
        rep.sample({"victim": pl["victim"], "class": pl["kind"], "entry": pl["call"], "first": fail1["impl"]["out"], "log": fail1["impl"]["log"]}, cap=3)
    rep.extra["input_distribution"] = {"histories": len(plans), "exception_classes": kinds}


def replay(path):
    import c01
    return c01.replay(path)
