"""C13 - a kept call's signature depends on the argument binding, not on its spelling."""
import itertools
import json
import random

import common as C
import progs as P
import values as V

COQ_FILES = ("Base/Bytes.v", "Extracted/ConstHash.v", "L0_Hash/DdsHash.v", "L1_Args/ArgCtx.v", "L1_Args/RunArgs.v",
             "L1_Args/ArgProofs.v", "Properties/C13.v")
PROPERTY_FILES = ("C13", "C13g")
EXTRACTED = ("ConstHash", "GenArgCtx")
ALLOWED_AXIOMS = ()

PRELUDE = """From Coq Require Import List String ZArith NArith.
From DDS Require Import Base.Bytes L0_Hash.PyVal L1_Args.ArgCtx L1_Args.RunArgs.
Import ListNotations.
"""
i_, s_ = V.i_, V.s_
# clean values (no C05 confusion among them); the marker string is tested separately
VALUES = [i_(0), i_(1), i_(-1), s_(""), s_("a"), ["none"], ["bool", False], V.f_(0.0), V.f_(2.5), ["list", [i_(1)]]]
DEFAULTS = [None, i_(0), i_(1), s_(""), s_("d"), ["none"], ["bool", False], ["bool", True], V.f_(0.0), ["list", [i_(1)]]]
NAMES = ["a", "b", "c", "d"]


def param_coq(p):
    d = "None" if p["default"] is None else f"(Some {V.to_coq(p['default'])})"
    return f"(Param {C.hexs(p['name'])} POK {d})"


def def_src(params):
    ps = ", ".join(p["name"] if p["default"] is None else f"{p['name']}={P.py_repr(p['default'])}" for p in params)
    return f"def f({ps}):\n    pass\n"


def canon_val(e):
    """value identity of a binding entry modulo the documented identifications (bool = int)"""
    return json.dumps(V.canon(e))


def spellings(params, binding, rng, cap):
    """All ways (capped) to spell a full binding {name: value}: k positional + keywords in any order,
    omitting parameters whose bound value IS the default."""
    out = []
    n = len(params)
    for k in range(n + 1):
        rest = params[k:]
        optional = [p for p in rest if p["default"] is not None and canon_val(p["default"]) == canon_val(binding[p["name"]])
                    and p["default"][0] == binding[p["name"]][0]]
        for r in range(len(optional) + 1):
            for omit in itertools.combinations(optional, r):
                kws = [p for p in rest if p not in omit]
                perms = list(itertools.permutations(kws))
                rng.shuffle(perms)
                for perm in perms[:2]:
                    out.append({"pos": [binding[p["name"]] for p in params[:k]], "kw": [[p["name"], binding[p["name"]]] for p in perm]})
    rng.shuffle(out)
    return out[:cap]


def call_src(call):
    args = [P.py_repr(x) for x in call["pos"]] + [f"{n}={P.py_repr(x)}" for n, x in call["kw"]]
    return "f(" + ", ".join(args) + ")"


def _shadow_prog(var_value, as_kw):
    """A kept callee whose in-source argument is a bare name: the caller's parameter `a`, while the module also has a variable `a`."""
    keep = {"k": "keep", "path": "/model", "callee": ("m0", "leaf"), "layout": "single",
            "pos": [] if as_kw else [["param", 0]], "kw": [["a", ["param", 0]]] if as_kw else []}
    funcs = [{"name": "leaf", "params": [{"name": "a", "default": None}], "annot": None, "salt": "l0", "stmts": [], "reads": []},
             {"name": "root", "params": [{"name": "a", "default": None}], "annot": None, "salt": "t0", "stmts": [keep], "reads": []}]
    return {"pkg": "vpl", "ext_helpers": {}, "root": ("m0", "root"), "modules": {"m0": {"vars": {"a": var_value}, "funcs": funcs}}}


def run_programs(rep):
    """Through a whole evaluation: the argument of an in-source dds.keep is a name (a parameter of the caller) that a module-level
    variable of the same name shadows nothing of; two evaluations binding it differently must keep different signatures and both
    return what plain execution returns; the same binding again must reuse the first signature."""
    import hist
    n = 0
    for var_value, as_kw in itertools.product((i_(5), s_("x"), ["bool", True], ["none"], V.f_(0.5)), (False, True)):
        prog = _shadow_prog(var_value, as_kw)
        vals = [i_(1), i_(9), i_(1), s_("q")]
        ev = [("prog", prog)] + [("act", {"a": "call", "mod": "m0", "fn": "root", "style": "eval", "pos": [v], "kw": []}) for v in vals]
        name = f"program:param-shadows-module-var:{P.py_repr(var_value)}:{'kw' if as_kw else 'pos'}"
        rep.case(name)
        n += 1
        try:
            recs = hist.run_history(ev, store_kind="local")
        except Exception as e:  # noqa
            rep.violation("harness-error:c13prog", f"{name}: {str(e)[-300:]}", {"events": ev}, no_input=True)
            continue
        sigs = [hist.impl_obs(r)["sigs"] for r in recs]
        for i, r in enumerate(recs):
            d = hist.compare(r)
            if d:
                rep.violation("model-mismatch:program", f"{name}: implementation and model disagree at call {i}: {json.dumps(d[:2])[:300]}", {"events": ev, "action": i})
            if r["impl"]["out"] != r["ref"]["out"]:
                rep.violation("binding-collision:program-stale", f"{name}: root({P.py_repr(vals[i])}) returned {r['impl']['out'][:80]} but plain execution gives "
                              f"{r['ref']['out'][:80]}", {"events": ev, "action": i})
        if sigs[0] is not None and sigs[0] == sigs[1]:
            rep.violation("binding-collision:program", f"{name}: root(1) and root(9) keep /model under one signature {sigs[0]}", {"events": ev, "sigs": sigs})
        if sigs[0] != sigs[2]:
            rep.violation("spelling:program-unstable", f"{name}: the same call root(1) twice gives two signatures", {"events": ev, "sigs": sigs})
    return n


def run(rep, tier, seed, proof_ok):
    rng = random.Random(seed)
    rep.rule = ("functions with 1..4 positional-or-keyword parameters (no default / truthy / falsy / None defaults) x full bindings over "
                "a clean value set x spellings (k positional + reordered keywords, defaults explicit or omitted) x {values passed "
                "directly, literals seen in source}; real get_arg_ctx / get_arg_ctx_ast vs the Coq model; all spellings of one "
                "binding must agree, distinct bindings must differ; distinct = distinct (function, call); non-trivial = call with a "
                "keyword or an omitted default; + whole evaluations where a parameter named like a module variable is the kept "
                "argument; + whole evaluations of real module files whose in-source dds.keep arguments (and the callee's defaults) are "
                "spelled in every way python allows for a literal or near-literal (unary + - ~ not, parentheses, binary constant "
                "expressions, implicit concatenation, _ / hex / octal / binary / exponent / complex spellings, 32-bit boundaries, "
                "-0.0, bytes / None / True / False / ..., displays, starred) x {positional, keyword, reordered, default omitted} x "
                "{own path, shared path}: every evaluation and the direct call with the same values must return what plain execution "
                "of the call returns, calls binding different values (python's own binding) never share a signature, all-constant "
                "spellings of one binding share the signature of the direct call")
    n_funcs = 60 if tier == "quick" and proof_ok else 500
    cases = []
    for _ in range(n_funcs):
        n = rng.randint(1, 4)
        params, seen_default = [], False
        for j in range(n):
            d = rng.choice(DEFAULTS) if (seen_default or rng.random() < 0.5) else None
            if seen_default and d is None:
                d = rng.choice(DEFAULTS[1:])
            seen_default = seen_default or d is not None
            params.append({"name": NAMES[j], "default": d})
        bindings = []
        for _ in range(3):
            b = {}
            for p in params:
                b[p["name"]] = p["default"] if (p["default"] is not None and rng.random() < 0.5) else rng.choice(VALUES)
            bindings.append(b)
        calls = []
        for bi, b in enumerate(bindings):
            for sp in spellings(params, b, rng, 6):
                calls.append(dict(sp, binding=bi, ast=False))
                if all(P.is_ast_constant(x) for x in sp["pos"]) and all(P.is_ast_constant(x) for _, x in sp["kw"]):
                    calls.append(dict(sp, binding=bi, ast=True, src=call_src(sp)))
        cases.append({"def": def_src(params), "params": params, "bindings": bindings, "calls": calls})
    impl = C.run_driver("drive_small.py", {"kind": "argctx", "cases": [{"def": c["def"], "calls": c["calls"]} for c in cases]})
    exprs = []
    for c in cases:
        ps = "[" + "; ".join(param_coq(p) for p in c["params"]) + "]"
        for call in c["calls"]:
            if call["ast"]:
                pos = "[" + "; ".join(f"(ALit {V.to_coq(x)})" for x in call["pos"]) + "]"
                kw = "[" + "; ".join(f"({C.hexs(n)}, ALit {V.to_coq(x)})" for n, x in call["kw"]) + "]"
                exprs.append(f"run_ast {ps} {pos} {kw}")
            else:
                pos = "[" + "; ".join(V.to_coq(x) for x in call["pos"]) + "]"
                kw = "[" + "; ".join(f"({C.hexs(n)}, {V.to_coq(x)})" for n, x in call["kw"]) + "]"
                exprs.append(f"run_rt {ps} {pos} {kw}")
    model = C.coq_eval_strings(PRELUDE, exprs, label="c13")
    mi = 0
    n_ast = 0
    for c, ires in zip(cases, impl):
        by_binding = {}
        for call, i in zip(c["calls"], ires):
            m = model[mi]
            mi += 1
            istr = i if isinstance(i, str) else "ok:" + ",".join(f"{n}={h}" for n, h in i)
            rep.case(json.dumps([c["def"], call["pos"], call["kw"], call["ast"]]), nontrivial=bool(call["kw"]) or len(call["pos"]) + len(call["kw"]) < len(c["params"]))
            n_ast += call["ast"]
            if istr != m:
                rep.violation("model-mismatch:argctx", f"argument context: impl {istr[:150]} vs model {m[:150]}",
                              {"def": c["def"], "call": call, "impl": istr, "model": m})
            by_binding.setdefault(call["binding"], []).append((call, istr))
        # spelling invariance
        for bi, lst in by_binding.items():
            ref = lst[0]
            for call, istr in lst[1:]:
                if istr != ref[1]:
                    b = c["bindings"][bi]
                    falsy = [p["name"] for p in c["params"] if p["default"] is not None and P.py_repr(p["default"]) in ("0", "''", "None", "False", "0.0", "[]")]
                    kind = "ast-vs-direct" if call["ast"] != ref[0]["ast"] else ("omitted-falsy-default" if falsy else "other")
                    rep.violation("spelling:" + kind, f"two spellings of one binding get different argument signatures: {c['def'].splitlines()[0]} "
                                  f"{call_src(ref[0])} [{'source' if ref[0]['ast'] else 'direct'}] vs {call_src(call)} [{'source' if call['ast'] else 'direct'}]",
                                  {"def": c["def"], "binding": b, "call1": ref[0], "call2": call, "sig1": ref[1], "sig2": istr})
                    break
        # distinct bindings differ
        sigs = {}
        for bi, lst in by_binding.items():
            key = json.dumps({n: V.canon(v) for n, v in c["bindings"][bi].items()}, sort_keys=True)
            sigs.setdefault(lst[0][1], set()).add(key)
        for s, keys in sigs.items():
            if len(keys) > 1 and s.startswith("ok:"):
                rep.violation("binding-collision", f"two different bindings share one argument signature for {c['def'].splitlines()[0]}",
                              {"def": c["def"], "bindings": sorted(keys), "sig": s})
    # the marker string: explicit "__none__" vs None (known confusion)
    mk = {"def": "def f(a, b=None):\n    pass\n", "calls": [{"pos": [i_(1)], "kw": [], "ast": False}, {"pos": [i_(1), s_("__none__")], "kw": [], "ast": False}]}
    r = C.run_driver("drive_small.py", {"kind": "argctx", "cases": [mk]})[0]
    rep.case("marker")
    if r[0] == r[1]:
        rep.violation("binding-collision:marker-string", "f(1) with default None and f(1, '__none__') share one argument signature",
                      {"def": mk["def"], "calls": mk["calls"], "sig": r[0]})
    n_prog = run_programs(rep)
    import c13_literals
    lit = c13_literals.run(rep, tier, seed, rng)
    rep.extra["input_distribution"] = dict({"functions": len(cases), "calls": mi, "seen_in_source": n_ast, "whole_evaluation_programs": n_prog}, **lit)
    rep.sample({"def": cases[0]["def"], "call": call_src(cases[0]["calls"][0])})
    rep.sample({"def": cases[-1]["def"], "call": call_src(cases[-1]["calls"][-1])})


def replay(path):
    r = json.load(open(path))["replay"]
    if "literal_case" in r:
        import c13_literals
        return c13_literals.replay(r)
    calls = [r["call1"], r["call2"]] if "call1" in r else r.get("calls", [r.get("call")])
    out = C.run_driver("drive_small.py", {"kind": "argctx", "cases": [{"def": r["def"], "calls": calls}]})[0]
    print(json.dumps({"def": r["def"], "calls": calls, "impl": out}, indent=1))
    bad = (out[0] != out[1]) if "call1" in r else (len(out) > 1 and out[0] == out[1])
    print("REPRODUCED" if bad else "not reproduced")
    return 1 if bad else 0
