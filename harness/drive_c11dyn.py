"""Reference driver of the C11 dynamic part (harness/c11_dynamic.py): the generated package executed by plain Python under a
stand-in for dds that has the semantics the property demands of an evaluation, nothing else:
  keep(path, f)   = call f; the result is remembered under path; committed only if the top-level call completes;
  eval(f)         = call f;
  eval inside an evaluation (top-level dds.eval / dds.keep running)  -> DDSException EVAL_IN_EVAL;
  keep of a path that is a strict segment-prefix / extension of a path kept (or being kept) by the running evaluation
                  -> DDSException OVERLAPPING_PATH;
  DDSException derives from BaseException: handlers of Exception (try / except Exception, contextlib.suppress(Exception),
  best-effort runners) do not see it, finally blocks run.
stdin: {"root": dir, "pkg": name, "actions": [{"a":"call","mod":m,"fn":f,"style":"eval"|"keep","path":p} | {"a":"load","path":p}]}
Output per action: {"out", "log", "puts": [canonical values of the keeps completed, in order], "sync": sorted paths committed or None}."""
import importlib
import json
import os
import sys
import types


def install_fake():
    fake = types.ModuleType("dds")
    st = {"depth": 0, "paths": [], "puts": [], "pending": {}, "committed": {}}

    class DDSException(BaseException):
        def __init__(self, msg, code=None):
            BaseException.__init__(self, msg)
            self.error_code = code

    def segs(p):
        return [x for x in str(p).split("/") if x]

    def overlap(a, b):
        a, b = segs(a), segs(b)
        return a != b and (a == b[:len(a)] or b == a[:len(b)])

    def keep(path, fun, *a, **k):
        path = str(path)
        for q in st["paths"]:
            if overlap(path, q):
                raise DDSException("overlapping paths %s %s" % (path, q), "OVERLAPPING_PATH")
        st["paths"].append(path)
        st["depth"] += 1
        try:
            r = fun(*a, **k)
        finally:
            st["depth"] -= 1
        st["puts"].append(canon(r))
        st["pending"][path] = r
        return r

    def eval_(fun, *a, **k):
        if st["depth"]:
            raise DDSException("nested eval", "EVAL_IN_EVAL")
        st["depth"] += 1
        try:
            return fun(*a, **k)
        finally:
            st["depth"] -= 1

    def load(path):
        if str(path) not in st["committed"]:
            raise DDSException("no such path")
        return st["committed"][str(path)]
    fake.keep, fake.eval, fake.load, fake.DDSException = keep, eval_, load, DDSException
    fake.accept_module = lambda m: None
    sys.modules["dds"] = fake
    return fake, st


def canon(v):
    from drive_prog import canon as c
    return c(v)


def main():
    payload = json.load(sys.stdin)
    sys.path.insert(0, payload["root"])
    sys.path.insert(0, os.path.dirname(os.path.abspath(__file__)))
    fake, st = install_fake()
    logmod = importlib.import_module("vlogmod")
    out = []
    for act in payload["actions"]:
        del logmod.LOG[:]
        st.update(depth=0, paths=[], puts=[], pending={})
        res = {"sync": None}
        try:
            if act["a"] == "call":
                fn = getattr(importlib.import_module(payload["pkg"] + "." + act["mod"]), act["fn"])
                r = fake.keep(act["path"], fn) if act.get("style") == "keep" else fake.eval(fn)
                st["committed"].update(st["pending"])
                res["sync"] = sorted(st["pending"])
                res["out"] = "ok:" + canon(r)
            elif act["a"] == "load":
                res["out"] = "ok:" + canon(fake.load(act["path"]))
            else:
                raise ValueError(act["a"])
        except BaseException as e:  # noqa
            if isinstance(e, fake.DDSException):
                res["out"] = "dds:" + (e.error_code or "NONE")
            else:
                res["out"] = "exc:" + type(e).__name__
        res["log"] = list(logmod.LOG)
        res["puts"] = list(st["puts"])
        out.append(res)
    print("@@RESULT@@" + json.dumps(out))


if __name__ == "__main__":
    main()
