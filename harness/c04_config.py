"""C04, configuration dimension: the configuration of the local store changes between the evaluations of one history,
on the SAME data directory (internal directory replaced by a fresh one / by a copy / renamed / renamed with a symbolic
link left at the old location, two internal directories alternating, the old location re-created empty, only part of
the paths kept again under the new one; retired internal directories deleted afterwards) or on the same internal
directory (data directory switched and switched back).

What is demanded comes from the property only: after an evaluation returns, every path it kept is served - by dds.load
in a fresh process configured like the evaluation, and by the file under the data directory - with the value the keep
returned (= the value most recently kept in the dds-free run of the same files), through a link that lives in the
internal directory of that configuration; this stays true when an internal directory that is NOT the one of the latest
evaluation that kept the path is deleted.  Paths that an evaluation did not keep retain what they served.  A path whose
blobs were deleted by the user has no value any more: the only demand left is that no OTHER value is served."""
import copy
import os
import random
import shutil
import tempfile

import common as C
import progs as P

SHAPES = ("fresh", "copy", "move", "alternate", "recreate", "partial", "data")     # ("relocate" - renamed with a symbolic link left behind that is removed later - is not generated: its expectation went beyond the property)
GONE = "<deleted>"


def kept_paths(prog, call):
    """The paths kept by one evaluation of this call (generated pipelines are straight-line code: every function
    reachable from the entry point runs in the plain execution, every keep it contains is performed)."""
    ps = [call["path"]] if call.get("path") else []
    for (m, n) in P.reachable(prog, call["mod"], call["fn"]):
        f = P.find_func(prog, m, n)
        if f.get("annot"):
            ps.append(f["annot"])
        ps += [st["path"] for st in f["stmts"] if st["k"] == "keep"]
    return sorted(set(ps))


def sub_call(prog, call, rng):
    """A call of a function below the entry point that keeps some, but not all, of the paths of the entry point."""
    full = set(kept_paths(prog, call))
    cands = []
    for (m, n) in P.reachable(prog, call["mod"], call["fn"])[1:]:
        f = P.find_func(prog, m, n)
        if f.get("is_class"):
            continue
        c = {"a": "call", "mod": m, "fn": n, "style": rng.choice(["direct", "eval"]) if f.get("annot") else "eval",
             "pos": [rng.choice(P.LIT_VALUES) for p in f["params"] if p.get("default") is None], "kw": []}
        if 0 < len(kept_paths(prog, c)) < len(full):
            cands.append(c)
    return rng.choice(cands) if cands else None


def plan_config(seed, shape, store_kind, in_process):
    """in_process: the configuration is changed by a process that has already evaluated under the previous one (it calls
    dds.set_store again, the code cannot change); otherwise by starting a new process, in 2 cases out of 3 with edited code."""
    rng = random.Random(f"c04-config-{seed}")
    while True:
        prog = P.gen_program(rng)
        call = P.root_call(prog, rng)
        paths = kept_paths(prog, call)
        sub = sub_call(prog, call, rng) if shape == "partial" else None
        if paths and (shape != "partial" or sub):
            break
    state = {"prog": prog}

    def probes(restart=True):
        out = [("restart",)] if restart else []
        for p in paths:
            out += [("act", {"a": "load", "path": p}), ("act", {"a": "rawfile", "path": p}), ("act", {"a": "linkinfo", "path": p})]
        return out

    def switch(how, internal, data, edit=True):
        cfg = ("act", {"a": "config", "how": how, "internal": internal, "data": data})
        if in_process:
            return [("restart",), ("act", call), cfg]
        if edit and rng.random() < 2 / 3:
            edits = [e for e in P.edit_catalogue(state["prog"], rng) if e[0] in ("body", "var", "literal")]
            if edits:
                state["prog"] = copy.deepcopy(rng.choice(edits)[2])
        return [("prog", copy.deepcopy(state["prog"])), cfg]

    def retire(name):
        return [("restart",), ("act", {"a": "retire", "internal": name})] + probes(restart=False)
    ev = [("prog", prog), ("act", call)] + probes()
    if shape in ("fresh", "copy"):
        ev += switch(shape, "B", "D0") + [("act", call)] + probes() + retire("A")
    elif shape == "move":
        ev += switch("move", "B", "D0") + [("act", call)] + probes()
    elif shape == "relocate":
        ev += switch("relocate", "B", "D0") + [("act", call)] + probes() + retire("A")
    elif shape == "alternate":
        ev += switch("fresh", "B", "D0") + [("act", call)] + probes()
        ev += switch("same", "A", "D0") + [("act", call)] + probes() + retire("B")
    elif shape == "recreate":
        ev += switch("fresh", "B", "D0") + [("act", call)] + probes() + retire("A")
        ev += switch("fresh", "A", "D0") + [("act", call)] + probes() + retire("B")
    elif shape == "partial":
        ev += switch("fresh", "B", "D0") + [("act", sub)] + probes()
        ev += [("restart",), ("act", call)] + probes() + retire("A")
    elif shape == "data":
        ev += switch("same", "A", "D1") + [("act", call)] + probes()
        ev += [("restart",), ("act", {"a": "config", "how": "same", "internal": "A", "data": "D0"})] + probes(restart=False)
        ev += [("restart",), ("act", call)] + probes()
    else:
        raise ValueError(shape)
    return {"seed": f"config:{seed}", "store": store_kind, "events": ev, "paths": paths, "call": call, "config": True, "shape": shape,
            "in_process": in_process}


def run_config_history(events, store_kind, keep_dir=False):
    """Runs the real dds (drive_c04cfg.py) and the dds-free reference (drive_prog.py, the same files, the actions that
    mean something without a store).  Returns per-action records {"act", "cfg": (internal, data) in force when the action
    ends, "cfg_before", "kept": paths kept (calls), "impl", "ref"}."""
    root = tempfile.mkdtemp(prefix="cfgh_", dir=C.scratch_dir())
    pkgroot = os.path.join(root, "src")
    dirs = {"internal": {n: os.path.join(root, "internal_" + n) for n in ("A", "B")},
            "data": {n: os.path.join(root, "data_" + n) for n in ("D0", "D1")}}
    kept_file = os.path.join(root, "kept.pickle")
    cfg = ("A", "D0")
    segments, records, cur_prog, cur = [], [], None, None
    for ev in events:
        if ev[0] in ("prog", "restart"):
            if ev[0] == "prog":
                cur_prog = copy.deepcopy(ev[1])
            cur = {"prog": copy.deepcopy(cur_prog), "actions": [], "store": {"kind": store_kind, "internal": cfg[0], "data": cfg[1]}}
            segments.append(cur)
            continue
        act = ev[1]
        rec = {"act": act, "cfg_before": cfg}
        if act["a"] == "config":
            cfg = (act["internal"], act["data"])
        elif act["a"] == "call":
            rec["kept"] = kept_paths(cur_prog, act)
        rec["cfg"] = cfg
        cur["actions"].append(act)
        records.append(rec)
    impl_out, ref_out = [], []
    try:
        for seg in segments:
            if not seg["actions"]:
                continue
            shutil.rmtree(pkgroot, ignore_errors=True)
            os.makedirs(pkgroot)
            P.write_package(seg["prog"], pkgroot)
            base = {"root": pkgroot, "pkg": seg["prog"]["pkg"]}
            impl_out += C.run_driver("drive_c04cfg.py", dict(base, dirs=dirs, store=seg["store"], actions=seg["actions"]))
            plain = [a for a in seg["actions"] if a["a"] in ("call", "load", "rawfile")]
            outs = iter(C.run_driver("drive_prog.py", dict(base, store={"kind": "memory"}, actions=plain, nodds=True, kept_file=kept_file))
                        if plain else [])
            ref_out += [next(outs) if a["a"] in ("call", "load", "rawfile") else {"out": None, "log": []} for a in seg["actions"]]
    finally:
        if not keep_dir:
            shutil.rmtree(root, ignore_errors=True)
    for rec, io, ro in zip(records, impl_out, ref_out):
        rec["impl"], rec["ref"] = io, ro
    return records


def judge(recs, store_kind, shape=None):
    """Returns (problems, stats): problems = [(violation key, description, index of the action)].  Per data directory and
    path: `owner` = internal directory of the latest evaluation that kept the path there (GONE once the user has deleted
    or renamed that directory), `expected` = what the dds-free run serves for the path right after that evaluation."""
    owner, expected, problems, told = {}, {}, [], []
    stats = {"load": 0, "rawfile": 0, "linkinfo": 0, "after_retire": 0, "committed": 0, "cases": []}
    retired = False

    def bad(key, what, i, per_store=True):
        if shape == "relocate":     # (own keys: the old location of the internal directory stays in use as a symbolic link)
            key, per_store = "cfg-relocated:" + key, False
        problems.append((key + (":" + store_kind if per_store else ""), f"local store, data directory {D} [{'; '.join(told[-8:]) or 'initial configuration'}]: {what}", i))
    for i, r in enumerate(recs):
        a, (Ic, D), io, ro = r["act"], r["cfg"], r["impl"]["out"], r["ref"]["out"]
        k = a["a"]
        if k in ("config", "retire"):
            if io != "ok:N":
                problems.append(("harness-error:c04-config", f"configuration step {a} failed: {io} {r['impl'].get('tb', '')[-300:]}", i))
                break
            # (relocate: what was kept under the old name is still reachable through the link left there, but it is the
            # user who moved it: as for a renamed directory, no demand except that no other value is served)
            dead = r["cfg_before"][0] if (k == "config" and a["how"] in ("move", "relocate")) else a["internal"] if k == "retire" else None
            for key in [key for key, v in owner.items() if v == dead]:
                owner[key] = GONE
            retired = retired or k == "retire"
            if k == "retire":
                told.append(f"symbolic link at the old location {dead} removed" if shape == "relocate" else f"internal directory {dead} deleted")
            else:
                how = {"fresh": "a fresh internal directory", "same": "the existing internal directory", "copy": "a copy of the internal directory, named",
                       "move": "the internal directory renamed to", "relocate": "the internal directory renamed (symbolic link left at the old location) to"}[a["how"]]
                told.append(f"{'same process' if i and recs[i - 1]['act']['a'] == 'call' else 'new process'} configured with {how} {Ic}"
                            f" and data directory {D}")
        elif k == "call":
            told.append(f"{a['fn']} evaluated under {Ic}")
            if io != ro:
                bad("cfg-eval-differs", f"the evaluation of {a['fn']} returns {io[:80]}, the plain execution {ro[:80]}", i)
            if ro.startswith("ok:"):
                for p in r["kept"]:
                    owner[(D, p)], expected[(D, p)] = Ic, None
        else:
            p = a["path"]
            o = owner.get((D, p))
            if o is not None and expected[(D, p)] is None and k != "linkinfo":
                if not (ro or "").startswith("ok:"):
                    problems.append(("harness-error:c04-config", f"the plain execution did not keep {p}: {ro}", i))
                    break
                expected[(D, p)] = ro
            exp = expected.get((D, p))
            stats[k] += 1
            stats["after_retire"] += retired
            stats["committed"] += o not in (None, GONE)
            stats["cases"].append((i, o not in (None, GONE)))
            if o is None:
                if k != "linkinfo" and io.startswith("ok:"):
                    bad("cfg-never-kept-served", f"{k} of {p}, never kept in this data directory, gives {io[:80]}", i)
            elif o == GONE:
                if k != "linkinfo" and io.startswith("ok:") and io != exp:
                    bad("cfg-other-value-served", f"{k} of {p} (the internal directory of the latest evaluation that kept it was deleted) gives {io[:80]}, "
                        f"a value that this evaluation did not return ({exp[:80]})", i)
            elif k == "linkinfo":
                if o == Ic and io != f"link:{o}:{o}:live":
                    bad("cfg-link-outside-internal-dir", f"after the evaluation under internal directory {o} kept {p}, its entry in the data directory is "
                        f"{io} (link:<directory of the link target>:<directory it resolves to>:<state>): it does not live in {o}", i)
            elif io != exp:
                via = "dds.load from a fresh process" if k == "load" else "the file under the data directory"
                if o == Ic:
                    bad("cfg-load-wrong" if k == "load" else "cfg-file-wrong", f"{via} gives {io[:80]} for {p}, but the latest evaluation that kept it "
                        f"(under internal directory {o}, the current one) returned {exp[:80]}", i)
                elif k == "load" and io.startswith("dds:"):
                    # the blob of the path is in the other internal directory: the current store cannot serve it and says so
                    # (a DDS error; before fix 379416a dds.load returned None here); the file in the data directory is judged below
                    pass
                else:
                    # (the key names the class of the outcome, not the store kind: one finding per class)
                    cls = "none-served" if io == "ok:N" else "other-value-served" if io.startswith("ok:") else "not-served"
                    bad(("cfg-unkept-load:" if k == "load" else "cfg-unkept-file:") + cls, f"{via} gives {io[:80]} for {p}, which no evaluation kept "
                        f"since the internal directory changed from {o} (still there) to {Ic}: it served {exp[:80]} and must retain that", i, per_store=False)
    return problems, stats


def fix_events(events):
    """Events read back from JSON (replay files): tuples restored."""
    out = []
    for e in events:
        if e[0] == "prog":
            pr = e[1]
            pr["root"] = tuple(pr["root"])
            for m in pr["modules"].values():
                for f in m["funcs"]:
                    for st in f["stmts"]:
                        if "callee" in st:
                            st["callee"] = tuple(st["callee"])
        out.append(tuple(e))
    return out


def replay(r):
    recs = run_config_history(fix_events(r["events"]), r["store"])
    problems, _ = judge(recs, r["store"], r.get("shape"))
    for i, rec in enumerate(recs):
        a = rec["act"]
        print(i, a["a"], a.get("fn") or a.get("path") or a.get("internal"), "cfg:", rec["cfg"], "| impl:", (rec["impl"]["out"] or "")[:90],
              "| reference:", (rec["ref"]["out"] or "-")[:90])
    for key, what, i in problems:
        print("PROBLEM", key, "at action", i, ":", what)
    print("REPRODUCED" if problems else "not reproduced")
    return 1 if problems else 0
