"""C09, access dimension: the WAY the code reaches dds.load / dds.keep is a dimension of the placement x producer matrix.
Python offers many ways to name the same function: `import dds` at module level (the form of every other scenario of C09),
`import dds` inside the body of the function, `from dds import load` (module level / body), `import dds as d`, `from dds
import load as ld`, an alias variable `ld = dds.load` (module level / body), and a helper module whose function performs the
load, itself imported at module level or inside the body (`import lib`, `from lib import read_p`, `import lib as hl`,
`import pkg.lib`, `from pkg import lib`).  Whatever the form,
  * dds.load(p) returns the value most recently kept at p in program order: every evaluation returns what the dds-free
    execution of the same files returns, and the paths read outside afterwards hold the same values;
  * a kept reader is served from the store while p is unchanged (it does not run again) and runs again after the producer's
    tracked variable changed (its value is the one of plain execution), also after the variable is set back;
  * an evaluation that reads p before producing it (producer later in the same evaluation / never) is rejected with a DDS
    error and commits nothing;
  * or the construct is refused loudly: EVERY evaluation of the history is rejected with a DDS error (never for the
    canonical form `import dds` at module level).
Expected values come from the dds-free reference (drive_c09_access.py, nodds) and from the property text."""
import concurrent.futures as cf
import json
import os
import random
import shutil
import tempfile

import common as C

LOGMOD = "vaccesslog"
LOGMOD_SRC = '''"""Not accepted by dds: execution log."""
LOG = []


def log(tag):
    LOG.append(tag)
'''
LIB_SRC = f'''import dds
import {LOGMOD}


def read_p():
    {LOGMOD}.log('read_p')
    return dds.load('/p')
'''
CANON = "module:import dds"
# name: (module-level lines, lines at the top of the body that uses the form, the load of "/p", the spelling of keep, the spelling of data_function)
# {L}: the top-level helper module of the scenario, {P}: its package (which has the submodule lib); both contain read_p()
DDS_FORMS = {
    CANON: (["import dds"], [], "dds.load('/p')", "dds.keep", "dds.data_function"),
    "body:import dds": ([], ["import dds"], "dds.load('/p')", "dds.keep", None),
    "module:from dds import load": (["from dds import load, keep, data_function"], [], "load('/p')", "keep", "data_function"),
    "body:from dds import load": ([], ["from dds import load, keep"], "load('/p')", "keep", None),
    "module:import dds as d": (["import dds as d"], [], "d.load('/p')", "d.keep", "d.data_function"),
    "body:import dds as d": ([], ["import dds as d"], "d.load('/p')", "d.keep", None),
    "module:from dds import load as ld": (["from dds import load as ld, keep as kp"], [], "ld('/p')", "kp", None),
    "body:from dds import load as ld": ([], ["from dds import load as ld, keep as kp"], "ld('/p')", "kp", None),
    "module:ld = dds.load": (["import dds", "ld = dds.load", "kp = dds.keep"], [], "ld('/p')", "kp", None),
    "body:ld = dds.load": (["import dds"], ["ld = dds.load", "kp = dds.keep"], "ld('/p')", "kp", None),
}
HELPER_FORMS = {
    "helper-module:module:import lib": (["import {L}"], [], "{L}.read_p()", None, None),
    "helper-module:body:import lib": ([], ["import {L}"], "{L}.read_p()", None, None),
    "helper-module:module:from lib import read_p": (["from {L} import read_p"], [], "read_p()", None, None),
    "helper-module:body:from lib import read_p": ([], ["from {L} import read_p"], "read_p()", None, None),
    "helper-module:module:import lib as hl": (["import {L} as hl"], [], "hl.read_p()", None, None),
    "helper-module:body:import lib as hl": ([], ["import {L} as hl"], "hl.read_p()", None, None),
    "helper-module:module:import pkg.lib": (["import {P}.lib"], [], "{P}.lib.read_p()", None, None),
    "helper-module:body:import pkg.lib": ([], ["import {P}.lib"], "{P}.lib.read_p()", None, None),
    "helper-module:module:from pkg import lib": (["from {P} import lib"], [], "lib.read_p()", None, None),
    "helper-module:body:from pkg import lib": ([], ["from {P} import lib"], "lib.read_p()", None, None),
}
FORMS = dict(DDS_FORMS, **HELPER_FORMS)
LOAD_FORMS = list(FORMS)
KEEP_FORMS = list(DDS_FORMS)
PLACEMENTS = ["kept-function", "kept-helper", "root", "helper", "data-function"]
PRODUCERS = ["keep-before", "earlier-evaluation", "after", "never"]
STORES = ["local", "memory"]
BATCH = 12


# ----------------------------------------------------------------------------- generated packages


def scen(idx, placement, producer, load_form=CANON, keep_form=CANON, populated=False, store="local"):
    if producer in ("earlier-evaluation", "never"):
        populated = False
    if placement == "data-function" and FORMS[keep_form][4] is None:
        placement = "kept-function"                 # the decorator needs a module-level name
    return {"idx": idx, "pkg": f"ac9_{idx}", "lib": f"ac9lib_{idx}", "placement": placement, "producer": producer, "load_form": load_form,
            "keep_form": keep_form, "populated": populated, "store": store}


def name(sc):
    return (f"access/{sc['placement']}/{sc['producer']}/{'populated' if sc['populated'] else 'fresh'}/load-via=[{sc['load_form']}]/"
            f"keep-via=[{sc['keep_form']}]/{sc['store']}")


def form(sc, which):
    m, b, ld, kp, deco = FORMS[sc[which]]
    sub = lambda s: s.replace("{L}", sc["lib"]).replace("{P}", sc["pkg"])  # noqa
    return [sub(x) for x in m], [sub(x) for x in b], sub(ld), kp, deco


def source(sc):
    lm, lb, load, _, _ = form(sc, "load_form")
    km, kb, _, keep, deco = form(sc, "keep_form")
    head = []
    for ln in km + lm:
        if ln not in head:
            head.append(ln)
    head += [f"import {LOGMOD}", "", "VAR_P = 1", "", "", "def idle():", "    return None"]
    ind = lambda ls: ["    " + x for x in ls]  # noqa
    defs = ["", "", "def f_p():", f"    {LOGMOD}.log('prod')", "    return 'p%d' % VAR_P"]
    defs += ["", "", "def inputs():"] + ind(kb) + [f"    return {keep}('/p', f_p)"]
    pl = sc["placement"]
    if pl in ("helper", "kept-helper"):
        defs += ["", "", "def ld_p():"] + ind(lb) + [f"    return {load}"]
    if pl in ("kept-function", "data-function", "kept-helper"):
        defs += ["", ""] + ([f"@{deco}('/reader')"] if pl == "data-function" else []) + ["def reader():", f"    {LOGMOD}.log('reader')"]
        defs += (ind(lb) + [f"    return ['reader', {load}]"]) if pl != "kept-helper" else ["    return ['reader', ld_p()]"]
    root = ["", "", "def root():"] + ind(kb + [x for x in (lb if pl == "root" else []) if x not in kb])
    res = []
    if sc["producer"] == "keep-before":
        root.append(f"    r_k = {keep}('/p', f_p)")
        res.append("r_k")
    if pl == "root":
        root.append(f"    r_l = {load}")
        res.append("r_l")
    elif pl == "helper":
        root.append("    r_l = ld_p()")
        res.append("r_l")
    elif pl == "data-function":
        root.append("    r_rd = reader()")
        res.append("r_rd")
    else:
        root.append(f"    r_rd = {keep}('/reader', reader)")
        res.append("r_rd")
    if sc["producer"] == "after":
        root.append(f"    r_k = {keep}('/p', f_p)")
        res.append("r_k")
    root.append("    return [" + ", ".join(res) + "]")
    return "\n".join(head + defs + root) + "\n"


def actions(sc):
    call, produce = {"a": "call", "fn": "root"}, {"a": "call", "fn": "inputs"}
    early = [produce] if sc["producer"] == "earlier-evaluation" else []
    acts = [produce] if sc["populated"] or early else []
    acts += [call, call, {"a": "setvar", "name": "VAR_P", "value": 2}] + early + [call, call, {"a": "setvar", "name": "VAR_P", "value": 1}] + early
    acts += [call, {"a": "loads"}]
    return acts


def all_paths(sc):
    return ["/p"] + (["/reader"] if kept_reader(sc) else [])


def kept_reader(sc):
    return sc["placement"] in ("kept-function", "data-function", "kept-helper")


# ----------------------------------------------------------------------------- scenarios


def scenarios(tier, seed):
    rng = random.Random(seed * 104729 + 9)
    S = []

    def add(*a, **k):
        S.append(scen(len(S), *a, **k))
    kept = ["kept-function", "kept-helper", "data-function"]
    good, bad = ["keep-before", "earlier-evaluation"], ["after", "never"]
    if tier == "quick":
        # every way of reaching the load: once under a kept reader whose path changes, once read before produced
        for i, lf in enumerate(LOAD_FORMS):
            add(kept[i % 3] if lf in DDS_FORMS else kept[i % 2], good[(i // 2) % 2], load_form=lf, populated=i % 4 == 1, store=STORES[i % 3 == 2])
            add(PLACEMENTS[(i + i // 5) % 4], bad[(i // 2 + 1) % 2], load_form=lf, populated=i % 4 == 2)
        # every way of reaching the keep (of the producer and of the reader), the load in the canonical form
        for i, kf in enumerate(KEEP_FORMS[1:]):
            add(PLACEMENTS[i % 5], good[i % 2], keep_form=kf, populated=i % 4 == 2, store=STORES[i % 3 == 1])
            add(PLACEMENTS[(i + 2) % 4], "after", keep_form=kf, populated=i % 2 == 0)
        # one form throughout the module
        for i, f in enumerate(KEEP_FORMS[1:]):
            add(kept[(i // 2) % 2], good[(i + 1) % 2], load_form=f, keep_form=f)
    else:
        for lf in LOAD_FORMS:
            for pl in PLACEMENTS:
                for pr in PRODUCERS:
                    add(pl, pr, load_form=lf, populated=rng.random() < 0.5, store=rng.choice(STORES))
        for kf in KEEP_FORMS[1:]:
            for pl in PLACEMENTS:
                for pr in PRODUCERS:
                    add(pl, pr, keep_form=kf, populated=rng.random() < 0.5, store=rng.choice(STORES))
                    if pr != "never":
                        add(pl, pr, load_form=kf, keep_form=kf, populated=rng.random() < 0.5, store=rng.choice(STORES))
    # random points: one non-canonical form per scenario (for the load, for the keep or for both), so that the key names it
    for _ in range(8 if tier == "quick" else 200):
        r = rng.random()
        f = rng.choice(KEEP_FORMS[1:])
        lf, kf = (rng.choice(LOAD_FORMS[1:]), CANON) if r < 0.5 else (CANON, f) if r < 0.75 else (f, f)
        add(rng.choice(PLACEMENTS), rng.choice(PRODUCERS + good), load_form=lf, keep_form=kf, populated=rng.random() < 0.5, store=rng.choice(STORES))
    return S


def write_packages(batch, root):
    with open(os.path.join(root, LOGMOD + ".py"), "w") as f:
        f.write(LOGMOD_SRC)
    for sc in batch:
        os.makedirs(os.path.join(root, sc["pkg"]))
        open(os.path.join(root, sc["pkg"], "__init__.py"), "w").close()
        for p in (os.path.join(root, sc["pkg"], "lib.py"), os.path.join(root, sc["lib"] + ".py")):
            with open(p, "w") as f:
                f.write(LIB_SRC)
        with open(os.path.join(root, sc["pkg"], "pipe.py"), "w") as f:
            f.write(source(sc))


def run_batch(batch):
    """(implementation results, reference results) of the scenarios of one batch: two processes."""
    root = tempfile.mkdtemp(prefix="c09a_", dir=C.scratch_dir())
    try:
        src = os.path.join(root, "src")
        os.makedirs(src)
        write_packages(batch, src)
        scs = []
        for sc in batch:
            d = os.path.join(root, "st_" + sc["pkg"])
            scs.append({"pkg": sc["pkg"], "accept": [sc["pkg"], sc["lib"]], "paths": all_paths(sc), "actions": actions(sc),
                        "store": {"kind": sc["store"], "internal_dir": os.path.join(d, "internal"), "data_dir": os.path.join(d, "data"), "cap": 16}})
        out = []
        for nodds in (False, True):
            try:
                out.append(C.run_driver("drive_c09_access.py", {"root": src, "nodds": nodds, "scenarios": scs}, timeout=300))
            except Exception as e:  # noqa
                out.append([{"error": str(e)[-1200:]}] * len(batch))
        return list(zip(*out))
    finally:
        shutil.rmtree(root, ignore_errors=True)


def run_all(S):
    batches = [S[i:i + BATCH] for i in range(0, len(S), BATCH)]
    with cf.ThreadPoolExecutor(max_workers=C.NPROC) as ex:
        outs = list(ex.map(run_batch, batches))
    return [r for b in outs for r in b]


# ----------------------------------------------------------------------------- the property


def rejected(sc):
    return sc["producer"] in ("after", "never")


def culprit(sc):
    """The non-canonical form of the scenario and what it is used for (at most one non-canonical form per scenario)."""
    roles = [r for r, f in (("load", "load_form"), ("keep", "keep_form")) if sc[f] != CANON]
    f = sc["load_form"] if sc["load_form"] != CANON else sc["keep_form"]
    return f.replace(" ", "-"), "+".join(roles) or "both"


def refused(sc, impl):
    """The construct is refused loudly: every evaluation of the history is rejected with a DDS error (not for the canonical form)."""
    outs = [r["out"] for a, r in zip(actions(sc), impl) if a["a"] == "call" and a["fn"] == "root"]
    return (sc["load_form"], sc["keep_form"]) != (CANON, CANON) and all(o.startswith("dds:") for o in outs)


def check(sc, impl, ref):
    """The violations of one scenario: list of (key, what, index of the action)."""
    v = []
    nm, acts = name(sc), actions(sc)
    f, roles = culprit(sc)
    pre = f"access:{f}:used-for-{roles}"
    calls = [i for i, a in enumerate(acts) if a["a"] == "call" and a["fn"] == "root"]
    ran = lambda i: impl[i]["log"]  # noqa
    if not refused(sc, impl):
        for i, a in enumerate(acts):
            if a["a"] == "call" and a["fn"] == "inputs" and impl[i]["out"] != ref[i]["out"]:
                v.append((f"{pre}:producer-evaluation-failed", f"{nm}: action {i} (evaluation of the producer alone) gave {impl[i]['out'][:80]}, plain execution "
                          f"{ref[i]['out'][:80]}" + (f" [{impl[i].get('tb', '').strip().splitlines()[-1][:160]}]" if impl[i].get("tb") else ""), i))
    state = ["VAR_P = 1", "VAR_P = 1, nothing changed", "VAR_P := 2", "VAR_P = 2, nothing changed", "VAR_P := 1 again"]
    for n, i in enumerate(calls):
        out, want = impl[i]["out"], ref[i]["out"]
        if rejected(sc):
            if not out.startswith("dds:"):
                kind = "low-level-exception" if not out.startswith("ok:") else "silently-used-previous-content" if sc["populated"] or n else "silently-accepted"
                v.append((f"{pre}:read-before-produce:{kind}", f"{nm}: action {i}: an evaluation that reads /p without having produced it must be rejected "
                          f"with a DDS error, got {out[:80]} (executed {ran(i)})", i))
            before = impl[i - 1].get("paths_after") if i > 0 else {}
            if before is not None and impl[i]["paths_after"] != before:
                v.append((f"{pre}:rejected-but-committed", f"{nm}: action {i}: the rejected evaluation changed the committed paths {before} -> "
                          f"{impl[i]['paths_after']}", i))
            continue
        if refused(sc, impl):
            continue
        if out != want:
            kind = "exception" if not out.startswith("ok:") else "stale-or-wrong-value"
            v.append((f"{pre}:load-{kind}", f"{nm}: action {i} (evaluation {n + 1} of root, {state[n]}): returned {out[:90]} "
                      f"but plain execution gives {want[:90]} (executed {ran(i)})" + (f" [{impl[i].get('tb', '').strip().splitlines()[-1][:160]}]" if impl[i].get("tb") else ""), i))
        elif n in (1, 3) and impl[calls[n - 1]]["out"].startswith("ok:"):
            # nothing changed since the previous evaluation: everything kept is served from the store
            if "reader" in ran(i) and kept_reader(sc):
                v.append((f"{pre}:reader-recomputed-unchanged", f"{nm}: action {i}: the kept reader ran again although /p serves the same result", i))
            if "prod" in ran(i):
                v.append((f"{pre}:producer-recomputed-unchanged", f"{nm}: action {i}: {ran(i)} ran again although nothing changed", i))
        elif n == 2 and kept_reader(sc) and "reader" not in ran(i):
            v.append((f"{pre}:reader-not-reevaluated", f"{nm}: action {i}: /p serves another result but the kept reader did not run", i))
    if not rejected(sc) and not refused(sc, impl) and impl[-1].get("loads") != ref[-1].get("loads"):
        v.append((f"{pre}:committed-values-differ", f"{nm}: after the history, dds.load of {all_paths(sc)} outside any evaluation gives {impl[-1].get('loads')}, "
                  f"plain execution {ref[-1].get('loads')}", len(acts) - 1))
    if impl[-1].get("in_eval_at_end"):
        v.append((f"{pre}:evaluation-left-open", f"{nm}: after the last action dds still refuses a new evaluation ({impl[-1]['in_eval_at_end']})", len(acts) - 1))
    return v


def run(rep, tier, seed, proof_ok):
    S = scenarios(tier, seed)
    results = run_all(S)
    dist = {"scenarios": len(S), "by_way_of_reaching_load": {}, "by_way_of_reaching_keep": {}, "by_placement": {}, "by_producer": {}, "by_store": {},
            "populated": 0, "expected_rejected": 0, "refused_loudly_on_every_evaluation": {}, "outcomes_of_root_calls": {}}
    for sc, (impl, ref) in zip(S, results):
        nm = name(sc)
        err = [r["error"] for r in (impl, ref) if isinstance(r, dict)]
        if err:
            rep.case(nm, nontrivial=False)
            rep.violation("harness-error:c09-access", f"{nm}: scenario could not be run: " + err[0][-300:], {"ascen": sc}, no_input=True)
            continue
        rep.case(nm)
        for k, f in (("by_way_of_reaching_load", "load_form"), ("by_way_of_reaching_keep", "keep_form"), ("by_placement", "placement"), ("by_producer", "producer"),
                     ("by_store", "store")):
            dist[k][sc[f]] = dist[k].get(sc[f], 0) + 1
        dist["populated"] += sc["populated"]
        dist["expected_rejected"] += rejected(sc)
        if not rejected(sc) and refused(sc, impl):
            k = "/".join(culprit(sc))
            dist["refused_loudly_on_every_evaluation"][k] = dist["refused_loudly_on_every_evaluation"].get(k, 0) + 1
        for a, r in zip(actions(sc), impl):
            if a["a"] == "call" and a["fn"] == "root":
                o = r["out"] if not r["out"].startswith("ok:") else "ok"
                dist["outcomes_of_root_calls"][o] = dist["outcomes_of_root_calls"].get(o, 0) + 1
        for key, what, i in check(sc, impl, ref):
            rep.violation(key, what, {"ascen": sc, "name": nm, "action": i, "actions": actions(sc), "source": source(sc), "helper_module_source": LIB_SRC,
                                      "observed": impl[i], "reference": ref[i] if i < len(ref) else None})
    if S:
        rep.sample({"access": name(S[0]), "actions": [a["a"] + ":" + a.get("fn", a.get("name", "")) for a in actions(S[0])]})
    return dist


def replay(r):
    sc = r["ascen"]
    impl, ref = run_all([sc])[0]
    for x in (impl, ref):
        if isinstance(x, dict):
            print(x["error"])
            return 2
    print(source(sc))
    for i, (a, ri, rr) in enumerate(zip(actions(sc), impl, ref)):
        print(i, a["a"], a.get("fn", a.get("name", "")), "impl:", ri["out"][:100], ri.get("loads", ""), "| reference:", rr["out"][:100], rr.get("loads", ""), "| log:", ri["log"])
    v = check(sc, impl, ref)
    for key, what, where in v:
        print(json.dumps({"key": key, "what": what, "action": where}))
    print("REPRODUCED" if v else "not reproduced")
    return 1 if v else 0
