"""Classes under the tie: generated pipelines that contain plain classes (progs.gen_program(allow_classes=True)) are run
by the real dds, by the dds-free reference and by the Coq model (signatures derived by L2_Disc/Visitors.v:discover and
L3_Sig/Sig.v:ana's class branch); everything observable must agree byte for byte.

History per program: call the root twice (second call: served from the store), change the body of one reachable class,
call again (the nodes whose cone contains the class must be re-evaluated, with the new signatures).

usage: python check_classes.py [N=60] [seed=1]
"""
import concurrent.futures as cf
import copy
import json
import random
import sys

import common as C
import hist
import progs as P


def reachable_classes(prog):
    return [(m, n) for (m, n) in P.reachable(prog, *prog["root"]) if P.find_func(prog, m, n).get("is_class")]


def gen_case(seed):
    """The first program of the stream of `seed` with a class reachable from the root, its root call, the edited program."""
    rng = random.Random(seed)
    while True:
        prog = P.gen_program(rng, allow_classes=True)
        cls = reachable_classes(prog)
        if cls:
            break
    call = P.root_call(prog, rng)
    cm, cn = rng.choice(cls)
    edited = copy.deepcopy(prog)
    P.find_func(edited, cm, cn)["salt"] += "_e"
    return prog, call, edited, (cm, cn)


def one_case(seed):
    prog, call, edited, target = gen_case(seed)
    events = [("prog", prog), ("act", call), ("act", call), ("prog", edited), ("act", call)]
    res = {"seed": seed, "edited_class": list(target), "n_classes": len(reachable_classes(prog)), "problems": []}
    try:
        recs = hist.run_history(events)
    except Exception as e:  # noqa
        res["problems"].append({"harness-error": str(e)[-1500:]})
        res["events"] = events
        return res
    res["outs"] = [r["impl"]["out"][:60] for r in recs]
    res["logs"] = [r["impl"]["log"] for r in recs]
    sigs = [hist.impl_obs(r)["sigs"] for r in recs]
    # the class's signature is observable when a kept / stored node has the class in its cone: the edit changes a signature
    res["sig_changed"] = bool(sigs[0]) and sigs[0] == sigs[1] and sigs[2] != sigs[0]
    for i, r in enumerate(recs):
        if "model" not in r:
            res["problems"].append({"action": i, "no-model-output": True})
            continue
        d = hist.compare(r)
        if d:
            res["problems"].append({"action": i, "model-mismatch": d[:3]})
        if r["impl"]["out"] != r["ref"]["out"]:
            res["problems"].append({"action": i, "dds-differs-from-plain-execution":
                                    {"impl": r["impl"]["out"], "reference": r["ref"]["out"], "log": r["impl"]["log"]}})
    # the edit of the class must be observed: the class's __init__ runs again in the third call
    if not res["problems"] and recs[2]["impl"]["out"].startswith("ret") and target[1] not in recs[2]["impl"]["log"]:
        res["problems"].append({"action": 2, "edited-class-not-re-executed": recs[2]["impl"]["log"]})
    if res["problems"]:
        res["events"] = events
        res["source"] = {m: P.render_module(prog, m) for m in prog["modules"]}
    return res


def main():
    n = int(sys.argv[1]) if len(sys.argv) > 1 else 60
    seed = int(sys.argv[2]) if len(sys.argv) > 2 else 1
    seeds = [seed * 100000 + i for i in range(n)]
    with cf.ThreadPoolExecutor(max_workers=min(12, C.NPROC)) as ex:
        results = list(ex.map(one_case, seeds))
    bad = [r for r in results if r["problems"]]
    served = sum(1 for r in results if not r["problems"] and len(r["logs"][1]) < max(1, len(r["logs"][0])))
    for r in bad[:10]:
        print("FAIL seed", r["seed"], json.dumps(r["problems"])[:1500])
        for m, src in r.get("source", {}).items():
            print(f"--- {m}.py\n{src}")
    print(f"check_classes: programs={len(results)} passed={len(results) - len(bad)} failed={len(bad)} "
          f"classes reachable={sum(r['n_classes'] for r in results)} second call served from the store={served} "
          f"edit of the class changed a compared signature={sum(1 for r in results if r.get('sig_changed'))}")
    if bad:
        json.dump(bad, open("/tmp/check_classes_failures.json", "w"), indent=1, default=str)
        print("failures written to /tmp/check_classes_failures.json")
    return 1 if bad else 0


if __name__ == "__main__":
    sys.exit(main())
