"""C09, thread dimension: the thread that executes the dds.load, the kept reader and the producer's dds.keep is a dimension
of the placement x producer matrix.  The evaluated function hands the helper that loads "/p" (mentioned by name, so that
the analysis sees it), the reader that contains it and / or the keep that produces "/p" to another thread and waits for it
before going on (ThreadPoolExecutor.submit / map, threading.Thread + join, a pool that outlives the evaluation, a thread
started by a thread, a Timer; two loads of two paths in parallel on one pool), so that program order stays defined.
Whatever thread executes it,
  * dds.load(p) returns the value most recently kept at p in program order (also one kept earlier in the same evaluation,
    on a fresh and on a populated store): every evaluation returns what the dds-free execution of the same files returns,
    and the paths read outside afterwards hold the same values;
  * a kept reader is served from the store while p is unchanged (it does not run again) and runs again after the
    producer's tracked variable changed (its value is the one of plain execution);
  * an evaluation that reads p before producing it (producer later in the same evaluation / never) is rejected with a DDS
    error and commits nothing.
Expected values come from the dds-free reference (drive_c09_threads.py, nodds) and from the property text."""
import concurrent.futures as cf
import json
import os
import random
import shutil
import tempfile

import common as C
import c15_threads as T15

LOGMOD = T15.LOGMOD
PLACEMENTS = ["root", "helper", "kept-function", "data-function"]
PRODUCERS = ["keep-before", "data-function-before", "after", "earlier-evaluation", "never"]
WORKERS = ["submit", "map", "thread", "persistent", "nested", "timer"]        # ways of running a function on another thread
PARALLEL = ["par-submit", "par-map"]                                         # "/p" and "/q" loaded in parallel on one pool
THREADS = ["caller"] + WORKERS
STORES = ["local", "memory", "local+lru"]
BATCH = 12


# ----------------------------------------------------------------------------- generated packages


def scen(idx, placement, producer, load_thread, reader_thread="caller", prod_thread="caller", populated=False, caller="main", store="local"):
    if placement == "root":
        reader_thread = "caller"
    if producer in ("earlier-evaluation", "never"):
        prod_thread, populated = "caller", False
    return {"idx": idx, "pkg": f"tc9_{idx}", "placement": placement, "producer": producer, "load_thread": load_thread, "reader_thread": reader_thread,
            "prod_thread": prod_thread, "populated": populated, "caller": caller, "store": store}


def paths_of(sc):
    tags = ["p", "q"] if sc["load_thread"] in PARALLEL else ["p"]
    return tags


def name(sc):
    return (f"threads/{sc['placement']}/{sc['producer']}/{'populated' if sc['populated'] else 'fresh'}/load-on={sc['load_thread']}/reader-on={sc['reader_thread']}/"
            f"keep-on={sc['prod_thread']}/eval-from={sc['caller']}/{sc['store']}")


def run_on(kind, fn, tag, L, defs, ind="    "):
    """Lines that compute r_<tag> = fn() on a thread of the given kind and wait for it (defs: module-level helpers needed)."""
    if kind == "caller":
        L.append(f"{ind}r_{tag} = {fn}()")
    elif kind == "submit":
        L += [f"{ind}with ThreadPoolExecutor(max_workers=1) as pool_{tag}:", f"{ind}    r_{tag} = pool_{tag}.submit({fn}).result()"]
    elif kind == "map":
        L += [f"{ind}with ThreadPoolExecutor(max_workers=1) as pool_{tag}:", f"{ind}    r_{tag} = list(pool_{tag}.map({LOGMOD}.call0, [{fn}]))[0]"]
    elif kind == "thread":
        # the outcome (value or exception) of the thread is handed back through a list and raised again by the starter
        defs += ["", "", f"def t_{tag}(box):", "    try:", f"        box.append(['r', {fn}()])", "    except BaseException as e:", "        box.append(['e', e])"]
        L += [f"{ind}box_{tag} = []", f"{ind}th_{tag} = threading.Thread(target=t_{tag}, args=(box_{tag},), name='c15w-{tag}')",
              f"{ind}th_{tag}.start()", f"{ind}th_{tag}.join()", f"{ind}if box_{tag}[0][0] == 'e':", f"{ind}    raise box_{tag}[0][1]", f"{ind}r_{tag} = box_{tag}[0][1]"]
    elif kind == "persistent":
        L.append(f"{ind}r_{tag} = {LOGMOD}.pool().submit({fn}).result()")
    elif kind == "nested":
        L.append(f"{ind}r_{tag} = {LOGMOD}.in_nested({fn})")
    elif kind == "timer":
        L.append(f"{ind}r_{tag} = {LOGMOD}.in_timer({fn})")
    else:
        raise ValueError(kind)


def source(sc):
    tags = paths_of(sc)
    head = ["import dds", "import threading", "from concurrent.futures import ThreadPoolExecutor", f"import {LOGMOD}", "", "VAR_P = 1", "VAR_Q = 10",
            "", "", "def idle():", "    return None"]
    defs = []
    for t in tags:
        body = [f"    {LOGMOD}.log('prod_{t}')", f"    return '{t}%d' % VAR_{t.upper()}"]
        if sc["producer"] == "data-function-before":
            defs += ["", "", f"@dds.data_function('/{t}')", f"def k_{t}():"] + body
        else:
            defs += ["", "", f"def f_{t}():"] + body + ["", "", f"def k_{t}():", f"    return dds.keep('/{t}', f_{t})"]
        defs += ["", "", f"def ld_{t}():", f"    return dds.load('/{t}')"]

    def loads(L, ind):
        """the statements that load the path(s) on the thread(s) of the scenario; the expression of the loaded value(s)"""
        lt = sc["load_thread"]
        if lt == "par-submit":
            L += [f"{ind}with ThreadPoolExecutor(max_workers=2) as pool_l:", f"{ind}    futs = [pool_l.submit(ld_p), pool_l.submit(ld_q)]",
                  f"{ind}    r_l = [fu.result() for fu in futs]"]
        elif lt == "par-map":
            L += [f"{ind}with ThreadPoolExecutor(max_workers=2) as pool_l:", f"{ind}    r_l = list(pool_l.map({LOGMOD}.call0, [ld_p, ld_q]))"]
        else:
            run_on(lt, "ld_p", "l", L, defs, ind)
        return "r_l"
    root = ["", "", "def root():"]
    res = []

    def produce():
        for t in tags:
            run_on(sc["prod_thread"], f"k_{t}", f"k{t}", root, defs)
            res.append(f"r_k{t}")
    if sc["producer"] in ("keep-before", "data-function-before"):
        produce()
    if sc["placement"] == "root":
        res.append(loads(root, "    "))
    else:
        rd = [f"    {LOGMOD}.log('reader')"]
        e = loads(rd, "    ")
        rd.append(f"    return ['reader', {e}]")
        if sc["placement"] == "data-function":
            defs_r = ["", "", "@dds.data_function('/reader')", "def reader():"] + rd
            fn = "reader"
        elif sc["placement"] == "kept-function":
            defs_r = ["", "", "def reader():"] + rd + ["", "", "def k_reader():", "    return dds.keep('/reader', reader)"]
            fn = "k_reader"
        else:
            defs_r = ["", "", "def reader():"] + rd
            fn = "reader"
        defs += defs_r
        run_on(sc["reader_thread"], fn, "rd", root, defs)
        res.append("r_rd")
    if sc["producer"] == "after":
        produce()
    root.append("    return [" + ", ".join(res) + "]")
    inputs = ["", "", "def inputs():"] + [f"    k_{t}()" for t in tags] + ["    return None"]
    return "\n".join(head + defs + inputs + root) + "\n"


def actions(sc):
    c = sc["caller"]
    call = {"a": "call", "fn": "root", "caller": c}
    produce = {"a": "call", "fn": "inputs", "caller": c}
    acts = []
    if sc["populated"] or sc["producer"] == "earlier-evaluation":
        acts.append(produce)
    acts += [call, call, {"a": "setvar", "name": "VAR_P", "value": 2}]
    if sc["producer"] == "earlier-evaluation":
        acts.append(produce)
    acts += [call, call, {"a": "loads"}]
    return acts


def all_paths(sc):
    return ["/" + t for t in paths_of(sc)] + (["/reader"] if sc["placement"] in ("kept-function", "data-function") else [])


# ----------------------------------------------------------------------------- scenarios


def scenarios(tier, seed):
    rng = random.Random(seed * 7919 + 9)
    S = []

    def add(*a, **k):
        S.append(scen(len(S), *a, **k))
    before = ["keep-before", "data-function-before"]
    # the load alone on every kind of thread, at every placement; producer earlier in the same evaluation; fresh / populated store
    for i, pl in enumerate(PLACEMENTS):
        for j, w in enumerate(WORKERS + PARALLEL):
            add(pl, before[(i + j) % 2], w, populated=(i + j // 2) % 2 == 1, store=STORES[(i + j) % 3], caller="thread" if (i + 2 * j) % 5 == 0 else "main")
    # the reader as a whole on another thread, the load on that same thread / handed over to yet another one
    for i, pl in enumerate(PLACEMENTS[1:]):
        for j, w in enumerate(WORKERS):
            add(pl, before[(i + j + 1) % 2], "caller" if j % 2 == 0 else WORKERS[(j + 2) % 6], reader_thread=w, populated=(i + j) % 2 == 0, store=STORES[(i + 2 * j) % 3])
    # the producer's keep on another thread, the load on the caller's thread / on another thread
    for j, w in enumerate(WORKERS):
        pl = PLACEMENTS[j % 4]
        add(pl, before[j % 2], "caller", prod_thread=w, populated=j % 2 == 1)
        add(PLACEMENTS[(j + 2) % 4], before[(j + 1) % 2], WORKERS[(j + 3) % 6], prod_thread=w, populated=j % 2 == 0, caller="thread" if j == 4 else "main")
    # read before produce / never produced: rejected whatever thread would execute the load (fresh and populated store)
    for j, w in enumerate(WORKERS + PARALLEL):
        add(PLACEMENTS[j % 4], "after", w, populated=j % 2 == 0, prod_thread=THREADS[j % 7])
        add(PLACEMENTS[(j + 1) % 4], "never", w)
    # produced by an earlier evaluation: the load reads the store, from every kind of thread
    for j, w in enumerate(WORKERS + PARALLEL):
        add(PLACEMENTS[(j + 3) % 4], "earlier-evaluation", w, reader_thread=THREADS[(3 * j) % 7], caller="thread" if j == 1 else "main", store=STORES[j % 3])
    # random points of the whole product
    for _ in range(10 if tier == "quick" else 400):
        add(rng.choice(PLACEMENTS), rng.choice(PRODUCERS + before), rng.choice(THREADS + WORKERS + PARALLEL), reader_thread=rng.choice(THREADS),
            prod_thread=rng.choice(THREADS), populated=rng.random() < 0.5, caller=rng.choice(["main", "main", "thread"]), store=rng.choice(STORES))
    return S


def write_packages(batch, root):
    with open(os.path.join(root, LOGMOD + ".py"), "w") as f:
        f.write(T15.LOGMOD_SRC)
    for sc in batch:
        os.makedirs(os.path.join(root, sc["pkg"]))
        open(os.path.join(root, sc["pkg"], "__init__.py"), "w").close()
        with open(os.path.join(root, sc["pkg"], "pipe.py"), "w") as f:
            f.write(source(sc))


def run_batch(batch):
    """(implementation results, reference results) of the scenarios of one batch: two processes."""
    root = tempfile.mkdtemp(prefix="c09t_", dir=C.scratch_dir())
    try:
        src = os.path.join(root, "src")
        os.makedirs(src)
        write_packages(batch, src)
        scs = []
        for sc in batch:
            d = os.path.join(root, "st_" + sc["pkg"])
            scs.append({"pkg": sc["pkg"], "paths": all_paths(sc), "actions": actions(sc),
                        "store": {"kind": sc["store"], "internal_dir": os.path.join(d, "internal"), "data_dir": os.path.join(d, "data"), "cap": 16}})
        out = []
        for nodds in (False, True):
            try:
                out.append(C.run_driver("drive_c09_threads.py", {"root": src, "nodds": nodds, "scenarios": scs}, timeout=300))
            except Exception as e:  # noqa
                out.append([{"error": str(e)[-1200:]}] * len(batch))
        return list(zip(*out))
    finally:
        shutil.rmtree(root, ignore_errors=True)


def run_all(S):
    batches = [S[i:i + BATCH] for i in range(0, len(S), BATCH)]
    with cf.ThreadPoolExecutor(max_workers=C.NPROC) as ex:
        outs = list(ex.map(run_batch, batches))
    return [r for b in outs for r in b]


# ----------------------------------------------------------------------------- the property


def rejected(sc):
    return sc["producer"] in ("after", "never")


def check(sc, impl, ref):
    """The violations of one scenario: list of (key, what, index of the action)."""
    v = []
    nm, acts = name(sc), actions(sc)
    # the key names what runs on another thread than the caller of dds.eval; the scenario itself is spelled out in the text
    dims = "+".join(r for r, f in (("load", "load_thread"), ("reader", "reader_thread"), ("keep", "prod_thread")) if sc[f] != "caller") or "none"
    dims = f"{dims}-on-other-thread"
    calls = [i for i, a in enumerate(acts) if a["a"] == "call" and a["fn"] == "root"]
    for i, a in enumerate(acts):
        if a["a"] == "call" and a["fn"] == "inputs" and impl[i]["out"] != ref[i]["out"]:
            v.append((f"threads:producer-evaluation-failed:{dims}", f"{nm}: action {i} (evaluation of the producers alone) gave {impl[i]['out'][:80]}, plain execution "
                      f"{ref[i]['out'][:80]}", i))
    for n, i in enumerate(calls):
        out, want = impl[i]["out"], ref[i]["out"]
        if rejected(sc):
            if not out.startswith("dds:"):
                kind = "low-level-exception" if not out.startswith("ok:") else "silently-used-previous-content"
                v.append((f"threads:read-before-produce:{kind}:{dims}", f"{nm}: action {i}: an evaluation that reads /p without having produced it must be rejected "
                          f"with a DDS error, got {out[:80]} (executed {[t for t, _ in impl[i]['log']]})", i))
            before = impl[i - 1].get("paths_after") if i > 0 else {}
            if before is not None and impl[i]["paths_after"] != before:
                v.append((f"threads:rejected-but-committed:{dims}", f"{nm}: action {i}: the rejected evaluation changed the committed paths {before} -> "
                          f"{impl[i]['paths_after']}", i))
            continue
        if out != want:
            kind = "exception" if not out.startswith("ok:") else "stale-or-wrong-value"
            v.append((f"threads:load-{kind}:{dims}", f"{nm}: action {i} (evaluation {n + 1} of root, {'after' if n >= 2 else 'before'} VAR_P := 2): returned {out[:90]} "
                      f"but plain execution gives {want[:90]}" + (f" [{impl[i].get('tb', '').strip().splitlines()[-1][:160]}]" if impl[i].get("tb") else ""), i))
        elif n in (1, 3) and impl[calls[n - 1]]["out"].startswith("ok:"):
            # nothing changed since the previous evaluation: everything kept is served from the store
            ran = [t for t, _ in impl[i]["log"]]
            if "reader" in ran and sc["placement"] in ("kept-function", "data-function"):
                v.append((f"threads:reader-recomputed-unchanged:{dims}", f"{nm}: action {i}: the kept reader ran again although /p serves the same result", i))
            if [t for t in ran if t.startswith("prod_")]:
                v.append((f"threads:producer-recomputed-unchanged:{dims}", f"{nm}: action {i}: {ran} ran again although nothing changed", i))
        elif n == 2 and sc["placement"] in ("kept-function", "data-function") and "reader" not in [t for t, _ in impl[i]["log"]]:
            v.append((f"threads:reader-not-reevaluated:{dims}", f"{nm}: action {i}: /p serves another result but the kept reader did not run", i))
    if not rejected(sc) and impl[-1].get("loads") != ref[-1].get("loads"):
        v.append((f"threads:committed-values-differ:{dims}", f"{nm}: after the history, dds.load of {all_paths(sc)} outside any evaluation gives {impl[-1].get('loads')}, "
                  f"plain execution {ref[-1].get('loads')}", len(acts) - 1))
    if impl[-1].get("in_eval_at_end"):
        v.append((f"threads:evaluation-left-open:{dims}", f"{nm}: after the last action dds still refuses a new evaluation ({impl[-1]['in_eval_at_end']})", len(acts) - 1))
    return v


def ran_elsewhere(sc, impl):
    """Did the load / the reader / the producer really execute on another thread than the caller of dds.eval?"""
    return any(k == "other" for r in impl for _, k in r["log"]) or sc["load_thread"] != "caller"


def run(rep, tier, seed, proof_ok):
    S = scenarios(tier, seed)
    results = run_all(S)
    dist = {"scenarios": len(S), "by_thread_of_the_load": {}, "by_thread_of_the_reader": {}, "by_thread_of_the_producer_keep": {}, "by_placement": {},
            "by_producer": {}, "by_store": {}, "by_calling_thread": {}, "populated": 0, "expected_rejected": 0, "outcomes_of_root_calls": {}}
    for sc, (impl, ref) in zip(S, results):
        nm = name(sc)
        err = [r["error"] for r in (impl, ref) if isinstance(r, dict)]
        if err:
            rep.case(nm, nontrivial=False)
            rep.violation("harness-error:c09-threads", f"{nm}: threaded scenario could not be run: " + err[0][-300:], {"tscen": sc}, no_input=True)
            continue
        rep.case(nm, nontrivial=ran_elsewhere(sc, impl))
        for k, f in (("by_thread_of_the_load", "load_thread"), ("by_thread_of_the_reader", "reader_thread"), ("by_thread_of_the_producer_keep", "prod_thread"),
                     ("by_placement", "placement"), ("by_producer", "producer"), ("by_store", "store"), ("by_calling_thread", "caller")):
            dist[k][sc[f]] = dist[k].get(sc[f], 0) + 1
        dist["populated"] += sc["populated"]
        dist["expected_rejected"] += rejected(sc)
        for a, r in zip(actions(sc), impl):
            if a["a"] == "call" and a["fn"] == "root":
                o = r["out"] if not r["out"].startswith("ok:") else "ok"
                dist["outcomes_of_root_calls"][o] = dist["outcomes_of_root_calls"].get(o, 0) + 1
        for key, what, i in check(sc, impl, ref):
            rep.violation(key, what, {"tscen": sc, "name": nm, "action": i, "actions": actions(sc), "source": source(sc), "observed": impl[i],
                                      "reference": ref[i] if i < len(ref) else None})
    if S:
        rep.sample({"threads": name(S[0]), "actions": [a["a"] + ":" + a.get("fn", a.get("name", "")) for a in actions(S[0])]})
    return dist


def replay(r):
    sc = r["tscen"]
    impl, ref = run_all([sc])[0]
    for x in (impl, ref):
        if isinstance(x, dict):
            print(x["error"])
            return 2
    for i, (a, ri, rr) in enumerate(zip(actions(sc), impl, ref)):
        print(i, a["a"], a.get("fn", a.get("name", "")), "impl:", ri["out"][:100], ri.get("loads", ""), "| reference:", rr["out"][:100], rr.get("loads", ""), "| log:", ri["log"])
    v = check(sc, impl, ref)
    for key, what, where in v:
        print(json.dumps({"key": key, "what": what, "action": where}))
    print("REPRODUCED" if v else "not reproduced")
    return 1 if v else 0
