"""C10, thread dimension: the kept steps of the failing pipeline are reached from other threads than the one that called
dds.eval (ThreadPoolExecutor.submit / map, one by one or in parallel, threading.Thread, a pool that outlives the evaluation,
a thread started by a thread, a Timer; a kept step may itself hand a kept sub-step to another thread), the FAILING function
runs on the calling thread after worker threads completed other steps, or on a worker thread itself (its exception comes
back through future.result() / the join of the thread), and dds.eval may be called from a thread that is not the main one.
Whatever thread reached the keeps, the property demands of the failed evaluation:
  * the very exception object comes out of dds.eval;
  * no sync_paths call from any thread, every path as it was before (empty store: no path at all; populated store, after a
    variable was reassigned: dds.load still returns the old values), seen in the process, in the raw data directory of a
    local store and by dds.load from a fresh process;
  * no blob stored for the failing function or for a function that was waiting for it (its keep, the root);
  * dds is not left inside an evaluation, neither on the calling thread nor on the threads of a pool that lives on;
  * the same evaluation again fails again (the failing function runs again) and re-executes no step that had completed;
  * another pipeline (one step evaluated on its own) in the same process returns the plain value and commits its own
    paths only;
  * once the cause is removed (outside the code dds sees: same signatures, same process; or by editing the code: new
    process) the pipeline returns the value of plain execution, leaves the committed path -> signature map of the control
    history that never failed, and executes exactly what the control history executes minus the steps that the failed
    evaluations had completed.
Expected values come from the dds-free execution of the same files, from the control history and from the property."""
import concurrent.futures as cf
import json
import os
import random
import shutil
import tempfile

import common as C

LOGMOD = "vfaillog"
KINDS = ["Exception", "ValueError", "KeyboardInterrupt", "SystemExit", "BaseException"]
PLACES = ["caller", "submit", "map", "thread", "persistent", "nested", "timer"]
INNER_PLACES = ["caller", "submit", "thread"]
STORES = ["local", "local", "local+lru", "memory"]
MODES = ["flag", "code"]        # the cause of the failure is outside the code dds sees (same process) / in the code (new process)

LOGMOD_SRC = '''"""Not accepted by dds: execution log, the cause of the failure, ways of running a function on another thread."""
import threading
from concurrent.futures import ThreadPoolExecutor

LOG = []
STORE_THREADS = []
_POOL = None
_EXC = {}
FAIL = set()
KIND = "ValueError"


def log(tag):
    LOG.append([tag, threading.get_ident()])


def boom(tag):
    cls = {"Exception": Exception, "ValueError": ValueError, "KeyboardInterrupt": KeyboardInterrupt,
           "SystemExit": SystemExit, "BaseException": BaseException}[KIND]
    e = cls("boom-" + tag)
    _EXC[tag] = e
    raise e


def check(tag):
    if tag in FAIL:
        boom(tag)


def passes(tag):
    return None


def call0(g):
    return g()


def pool():
    """a pool that outlives the evaluations: its worker threads are reused by later evaluations"""
    global _POOL
    if _POOL is None:
        _POOL = ThreadPoolExecutor(max_workers=2, thread_name_prefix="c10p")
    return _POOL


def in_thread(g):
    box = {}

    def w():
        try:
            box["r"] = g()
        except BaseException as e:  # noqa
            box["e"] = e
    t = threading.Thread(target=w, name="c10w-thread")
    t.start()
    t.join()
    if "e" in box:
        raise box["e"]
    return box["r"]


def in_nested(g):
    return in_thread(lambda: in_thread(g))


def in_timer(g):
    box = {}
    done = threading.Event()

    def w():
        try:
            box["r"] = g()
        except BaseException as e:  # noqa
            box["e"] = e
        done.set()
    t = threading.Timer(0.0, w)
    t.name = "c10w-timer"
    t.start()
    done.wait(60)
    t.join(60)
    if "e" in box:
        raise box["e"]
    return box["r"]


def quiesce():
    for t in threading.enumerate():
        if t.name.startswith("c10w-") and t is not threading.current_thread():
            t.join(10)
'''


# ----------------------------------------------------------------------------- generated pipelines


def gen_program(rng, idx):
    nsteps = rng.randint(2, 4)
    npar = min(rng.choice([0, 0, 2, 2, 3]), nsteps)
    prog = {"pkg": f"fpk{idx}", "par_kind": rng.choice(["submit", "map"]), "npar": npar, "root_kept": rng.random() < 0.5,
            "root_path": f"/fh{idx}/root", "root_val": rng.randint(1, 9), "steps": []}
    for i in range(nsteps):
        tag = "abcd"[i]
        st = {"tag": tag, "path": rng.choice([f"/fh{idx}/{tag}", f"/fh{idx}/d_{tag}/out", f"/{tag}{idx}"]), "var": "V_" + tag,
              "val": rng.randint(1, 9), "base": 10 * (i + 1), "style": rng.choice(["keep", "keep", "data_function"]),
              "place": "par" if i < npar else rng.choice(PLACES + PLACES[1:]), "loads": None, "inner": None}
        if i >= npar and i > 0 and rng.random() < 0.35:
            st["loads"] = rng.choice("abcd"[:i])
        if rng.random() < 0.35:
            # the kept step hands a kept sub-step to yet another thread (or calls it itself) and waits for it
            st["inner"] = {"place": rng.choice(INNER_PLACES + INNER_PLACES[1:]), "path": f"/fh{idx}/{tag}_in", "var": "W_" + tag,
                           "val": rng.randint(1, 9), "style": rng.choice(["keep", "data_function"])}
        prog["steps"].append(st)
    if all(st["place"] == "caller" for st in prog["steps"]):
        prog["steps"][-1]["place"] = rng.choice(PLACES[1:])
    return prog


def leaf(st):
    """Name of the function whose result is kept under the path of the step."""
    return ("f_" if st["style"] == "keep" else "k_") + st["tag"]


def inner_leaf(st):
    return ("g_" if st["inner"]["style"] == "keep" else "k_") + st["tag"] + ("" if st["inner"]["style"] == "keep" else "_in")


def functions(prog):
    """name -> (tag of its value, tags of the values that wait for it, variable it reads, paths below it)."""
    res = {}
    for st in prog["steps"]:
        t = st["tag"]
        sub = [st["inner"]["path"]] if st["inner"] else []
        res[leaf(st)] = {"tag": t, "waiting": ["root"], "var": st["var"], "val": st["val"]}
        if st["inner"]:
            res[inner_leaf(st)] = {"tag": t + "_in", "waiting": [t, "root"], "var": st["inner"]["var"], "val": st["inner"]["val"]}
        res[leaf(st)]["paths"] = [st["path"]] + sub
    res["root"] = {"tag": "root", "waiting": [], "var": "V_root", "val": prog["root_val"]}
    return res


def all_paths(prog):
    ps = []
    for st in prog["steps"]:
        ps.append(st["path"])
        if st["inner"]:
            ps.append(st["inner"]["path"])
    return ps + ([prog["root_path"]] if prog["root_kept"] else [])


def place_lines(ind, target, keeper, place, uid):
    """Statements (indented by ind) that run the zero-argument keeper at the given place and bind its result to target."""
    if place == "caller":
        return [f"{ind}{target} = {keeper}()"]
    if place == "submit":
        return [f"{ind}with ThreadPoolExecutor(max_workers=1) as pool_{uid}:", f"{ind}    {target} = pool_{uid}.submit({keeper}).result()"]
    if place == "map":
        return [f"{ind}with ThreadPoolExecutor(max_workers=1) as pool_{uid}:", f"{ind}    {target} = list(pool_{uid}.map({LOGMOD}.call0, [{keeper}]))[0]"]
    if place == "thread":
        return [f"{ind}{target} = {LOGMOD}.in_thread({keeper})"]
    if place == "persistent":
        return [f"{ind}{target} = {LOGMOD}.pool().submit({keeper}).result()"]
    if place == "nested":
        return [f"{ind}{target} = {LOGMOD}.in_nested({keeper})"]
    if place == "timer":
        return [f"{ind}{target} = {LOGMOD}.in_timer({keeper})"]
    raise ValueError(place)


def source(prog, mode, bad=None, vals=None):
    """The module of the pipeline.  mode "flag": every function asks the (not accepted) log module whether it has to fail - the
    text is the same whichever function fails, or none; mode "code": the function named bad contains a statement that raises, every
    other one (and bad itself once repaired: bad=None) a statement that does nothing, on the same line.  vals: variable values
    that differ from those of the program (the code state after an edit of a variable)."""
    vals = vals or {}
    steps = prog["steps"]
    by_tag = {st["tag"]: st for st in steps}

    def fail_line(name):
        what = "check" if mode == "flag" else ("boom" if name == bad else "passes")
        return f"    {LOGMOD}.{what}({name!r})"

    def kept(name_leaf, name_keeper, path, style, body):
        if style == "data_function":
            return ["", "", f"@dds.data_function({path!r})", f"def {name_keeper}():"] + body
        return ["", "", f"def {name_leaf}():"] + body + ["", "", f"def {name_keeper}():", f"    return dds.keep({path!r}, {name_leaf})"]

    L = ["import dds", "import threading", "from concurrent.futures import ThreadPoolExecutor", f"import {LOGMOD}", ""]
    for st in steps:
        L.append(f"{st['var']} = {vals.get(st['var'], st['val'])}")
        if st["inner"]:
            L.append(f"{st['inner']['var']} = {vals.get(st['inner']['var'], st['inner']['val'])}")
    L.append(f"V_root = {vals.get('V_root', prog['root_val'])}")
    L += ["", "", "def idle():", "    return None"]
    for st in steps:
        t = st["tag"]
        if st["inner"]:
            tin = t + "_in"
            body = [f"    {LOGMOD}.log({tin!r})", fail_line(inner_leaf(st)), f"    r = [{tin!r}, 5 + {st['inner']['var']}]",
                    f"    {LOGMOD}.log({tin + ':done'!r})", "    return r"]
            L += kept(inner_leaf(st), f"k_{t}_in", st["inner"]["path"], st["inner"]["style"], body)
        expr = f"{st['base']} + {st['var']}"
        body = [f"    {LOGMOD}.log({t!r})"]
        if st["inner"]:
            body += place_lines("    ", "x", f"k_{t}_in", st["inner"]["place"], "in")
            expr += " + x[1]"
        if st["loads"]:
            body.append(f"    y = dds.load({by_tag[st['loads']]['path']!r})")
            expr += " + 100 * y[1]"
        # (the function fails after what it waits for has completed)
        body += [fail_line(leaf(st)), f"    r = [{t!r}, {expr}]", f"    {LOGMOD}.log({t + ':done'!r})", "    return r"]
        L += kept(leaf(st), f"k_{t}", st["path"], st["style"], body)
    L += ["", "", "def root():", f"    {LOGMOD}.log('root')"]
    par = steps[:prog["npar"]]
    if par:
        L.append(f"    with ThreadPoolExecutor(max_workers={len(par)}) as pool:")
        if prog["par_kind"] == "submit":
            for st in par:
                L.append(f"        fu_{st['tag']} = pool.submit(k_{st['tag']})")
            for st in par:
                L.append(f"        r_{st['tag']} = fu_{st['tag']}.result()")
        else:
            L.append(f"        rs = list(pool.map({LOGMOD}.call0, [" + ", ".join(f"k_{st['tag']}" for st in par) + "]))")
            for i, st in enumerate(par):
                L.append(f"        r_{st['tag']} = rs[{i}]")
    for st in steps[prog["npar"]:]:
        L += place_lines("    ", f"r_{st['tag']}", f"k_{st['tag']}", st["place"], st["tag"])
    L += [fail_line("root"), "    r = ['root', V_root, " + ", ".join(f"r_{st['tag']}" for st in steps) + "]", f"    {LOGMOD}.log('root:done')",
          "    return r"]
    if prog["root_kept"]:
        L += ["", "", "def main():", f"    return dds.keep({prog['root_path']!r}, root)"]
    return "\n".join(L) + "\n"


def describe(prog):
    res = []
    for st in prog["steps"]:
        pl = ("parallel-" + prog["par_kind"]) if st["place"] == "par" else st["place"]
        res.append(f"{leaf(st)}:{pl}" + (f"(loads {st['loads']})" if st["loads"] else "") +
                   (f"(waits for {inner_leaf(st)}:{st['inner']['place']})" if st["inner"] else ""))
    return "[" + ", ".join(res) + "]" + (" under a kept root" if prog["root_kept"] else "")


def write_package(prog, root, src):
    shutil.rmtree(root, ignore_errors=True)
    os.makedirs(os.path.join(root, prog["pkg"]))
    open(os.path.join(root, prog["pkg"], "__init__.py"), "w").close()
    with open(os.path.join(root, prog["pkg"], "pipe.py"), "w") as f:
        f.write(src)
    with open(os.path.join(root, LOGMOD + ".py"), "w") as f:
        f.write(LOGMOD_SRC)


# ----------------------------------------------------------------------------- histories


def plan(seed, idx):
    """One pipeline x one failing function x one exception class x the way the cause is removed x store x calling thread x
    empty / populated store."""
    rng = random.Random(seed)
    prog = gen_program(rng, idx)
    fns = functions(prog)
    # the failing function: a step on a worker thread, a step on the calling thread after worker threads completed others,
    # a sub-step another kept step waits for, or the root after everything else completed
    # (later steps more often: more has completed, on more threads, when the failure comes)
    names = ["root", "root"]
    for i, st in enumerate(prog["steps"]):
        names += [leaf(st)] * (1 + i) + ([inner_leaf(st)] * (1 + i) if st["inner"] else [])
    victim = rng.choice(names)
    for st in prog["steps"]:
        if victim == leaf(st) and st["place"] != "par" and any(o is not st and o["place"] != "caller" for o in prog["steps"]) and rng.random() < 0.4:
            st["place"] = "caller"
    store = rng.choice(STORES)
    mode = "flag" if store == "memory" else rng.choice(MODES)
    vstep = [st for st in prog["steps"] if victim in (leaf(st), st["inner"] and inner_leaf(st))]
    others = [st for st in prog["steps"] if st not in vstep and not st["loads"]]
    return {"seed": seed, "prog": prog, "victim": victim, "kind": rng.choice(KINDS), "mode": mode, "store": store,
            "caller": rng.choice(["main", "main", "thread"]), "populated": rng.random() < 0.4,
            "newval": fns[victim]["val"] + rng.randint(1, 5), "other": rng.choice(others)["tag"] if others else None}


def histories(pl):
    """The history with the failing evaluations (M) and the control history that never fails (C): lists of process segments
    {"bad": failing function written into the code or None, "vals": variable values in the code, "fail": functions asked to
    fail from outside the code, "actions": [...]}; every action has a label."""
    prog, victim, mode = pl["prog"], pl["victim"], pl["mode"]
    var = functions(prog)[victim]["var"]
    entry = "main" if prog["root_kept"] else "root"

    def full(label):
        return {"a": "call", "fn": entry, "style": "eval", "caller": pl["caller"], "label": label}

    def loads(label):
        return {"a": "loads", "label": label}
    other = []
    if pl["other"]:
        st = [s for s in prog["steps"] if s["tag"] == pl["other"]][0]
        other = [{"a": "call", "fn": "k_" + st["tag"], "style": "eval" if st["style"] == "keep" else "direct", "caller": "main", "label": "other"}]
    failing = [loads("loads0"), full("fail1"), loads("loads1"), {"a": "observe", "label": "observe"}, full("fail2")] + other
    after = [full("full1"), full("full2"), loads("loads_end")]
    if mode == "flag":
        pre = [full("populate"), loads("loads_pop"), {"a": "setvar", "name": var, "value": pl["newval"], "label": "setvar"}] if pl["populated"] else []
        M = [{"bad": None, "vals": {}, "fail": [] if pl["populated"] else [victim],
              "actions": pre + ([{"a": "setfail", "fail": [victim], "label": "break"}] if pl["populated"] else []) + failing +
              [{"a": "setfail", "fail": [], "label": "repair"}] + after}]
        Cn = [{"bad": None, "vals": {}, "fail": [], "actions": pre + other + after}]
    else:
        new = {var: pl["newval"]} if pl["populated"] else {}
        pre = [{"bad": None, "vals": {}, "fail": [], "actions": [full("populate"), loads("loads_pop")]}] if pl["populated"] else []
        M = pre + [{"bad": victim, "vals": new, "fail": [], "actions": failing},
                   {"bad": None, "vals": new, "fail": [], "actions": [loads("loads2")] + after}]
        Cn = pre + [{"bad": None, "vals": new, "fail": [], "actions": other + after}]
    return {"M": M, "C": Cn}


def run_history(pl, segments, nodds=False):
    """Runs the segments (one process each) against one store; returns label -> record of the action."""
    root = tempfile.mkdtemp(prefix="c10t_", dir=C.scratch_dir())
    try:
        store = {"kind": pl["store"], "internal_dir": os.path.join(root, "internal"), "data_dir": os.path.join(root, "data"), "cap": 16}
        res = {}
        for seg in segments:
            write_package(pl["prog"], os.path.join(root, "src"), source(pl["prog"], pl["mode"], seg["bad"], seg["vals"]))
            payload = {"root": os.path.join(root, "src"), "pkg": pl["prog"]["pkg"], "store": store, "actions": seg["actions"], "nodds": nodds,
                       "paths": all_paths(pl["prog"]), "kind": pl["kind"], "fail": seg["fail"]}
            out = C.run_driver("drive_c10_threads.py", payload, timeout=300)
            for a, o in zip(seg["actions"], out):
                res[a["label"]] = o
        return res
    finally:
        shutil.rmtree(root, ignore_errors=True)


def run_all(plans):
    """M, C and the dds-free reference run R of M for every plan, in parallel."""
    tasks = [(pl, k) for pl in plans for k in ("M", "C", "R")]

    def one(t):
        pl, k = t
        try:
            return run_history(pl, histories(pl)["M" if k == "R" else k], nodds=(k == "R"))
        except Exception as e:  # noqa
            return {"error": str(e)[-1500:]}
    with cf.ThreadPoolExecutor(max_workers=C.NPROC) as ex:
        outs = list(ex.map(one, tasks))
    results = []
    for i, pl in enumerate(plans):
        res = dict(zip(("M", "C", "R"), outs[3 * i: 3 * i + 3]))
        errs = [f"{k}: {r['error']}" for k, r in res.items() if "error" in r]
        results.append({"error": "\n".join(errs)[-1500:]} if errs else res)
    return results


def has(rec, kind):
    return [x for x in rec["rec"] if x[0] == kind]


def started(rec):
    return sorted(t for t, _ in rec["log"] if not t.endswith(":done"))


def done(rec):
    return sorted(t[:-5] for t, _ in rec["log"] if t.endswith(":done"))


def put_tags(rec):
    """Tags of the values stored as blobs (every value of a generated function is a list that starts with its tag)."""
    return [bytes.fromhex(x[2].split("(s", 1)[1].split(",")[0].split(")")[0]).decode() if "(s" in x[2] else "?" for x in has(rec, "put")]


def check(pl, res):
    """The violations of one plan: list of (key, what, label of the action)."""
    v = []
    M, Cn, R = res["M"], res["C"], res["R"]
    prog, victim = pl["prog"], pl["victim"]
    fn = functions(prog)[victim]
    scen = (f"pipeline {describe(prog)}, {victim} raises {pl['kind']} (cause {'outside the code' if pl['mode'] == 'flag' else 'in the code'}), "
            f"dds.eval called from {'the main thread' if pl['caller'] == 'main' else 'a thread that is not the main thread'}, store {pl['store']}, {'populated' if pl['populated'] else 'empty'} at the start")
    want = f"exc:{pl['kind']}:same-object:{victim}"
    for lab in ("fail1", "fail2"):
        if R[lab]["out"] != want:
            raise RuntimeError(f"plain execution of the failing pipeline gives {R[lab]['out']}, not {want}")
    for lab in ("fail1", "fail2"):
        r = M[lab]
        where = f"{scen}; {'first' if lab == 'fail1' else 'second'} failing evaluation"
        if r["out"] != want:
            v.append(("exception-not-propagated:threads", f"{where}: expected {want}, got {r['out'][:80]}", lab))
        moved = sorted(p for p in set(r["paths_after"]) | set(r["paths_before"]) if r["paths_after"].get(p) != r["paths_before"].get(p))
        raw_moved = sorted(x for x in (r["raw_after"] or []) + (r["raw_before"] or []) if x not in (r["raw_before"] or []) or x not in (r["raw_after"] or []))
        if has(r, "sync") or moved or raw_moved:
            others = sorted(set(w for w, k in r["store_threads"] if k == "other" and w == "sync"))
            v.append(("commit-after-failure:threads", f"{where}: {len(has(r, 'sync'))} sync_paths call(s)"
                      f"{' from other threads than the caller of dds.eval' if others else ''} although the evaluation failed with {r['out'][:60]}; "
                      f"committed paths that changed: {moved}; links of the data directory that changed: {raw_moved}", lab))
        bad_tags = [t for t in put_tags(r) if t in [fn["tag"]] + fn["waiting"]]
        if bad_tags:
            v.append(("blob-of-failed-node:threads", f"{where}: blobs were stored for {bad_tags}: the failing function or functions waiting for it", lab))
        twice = sorted(set(t for t in started(r) if started(r).count(t) > 1))
        if twice:
            v.append(("executed-twice:threads", f"{where}: {twice} ran more than once in one evaluation", lab))
    if M["loads1"]["loads"] != M["loads0"]["loads"]:
        v.append(("commit-after-failure:load:threads", f"{scen}: dds.load of {all_paths(prog)} gave {M['loads0']['loads']} before the failing "
                  f"evaluation and {M['loads1']['loads']} after it (same process)", "loads1"))
    fresh = M["observe"].get("fresh_loads")
    if fresh is not None and fresh != M["loads0"]["loads"]:
        v.append(("commit-after-failure:fresh-process:threads", f"{scen}: dds.load of {all_paths(prog)} gave {M['loads0']['loads']} before the failing "
                  f"evaluation; after it a fresh process gets {fresh}", "observe"))
    if fn["tag"] not in started(M["fail2"]):
        v.append(("failure-cached:threads", f"{scen}: the second evaluation did not run the failing function again (ran {started(M['fail2'])})", "fail2"))
    again = sorted(set(started(M["fail2"])) & set(done(M["fail1"])))
    if again:
        v.append(("completed-not-reused:threads", f"{scen}: {again} completed in the failed evaluation and ran again in the next one", "fail2"))
    for lab, r in M.items():
        if r.get("in_eval"):
            v.append(("left-in-eval:threads", f"{scen}; after action {lab} ({r['out'][:40]}) dds still refuses a new evaluation: {r['in_eval']}", lab))
    if pl["other"]:
        r, c = M["other"], Cn["other"]
        st = [s for s in prog["steps"] if s["tag"] == pl["other"]][0]
        own = functions(prog)[leaf(st)]["paths"]
        moved = sorted(p for p in set(r["paths_after"]) | set(r["paths_before"]) if r["paths_after"].get(p) != r["paths_before"].get(p))
        if r["out"] != R["other"]["out"]:
            v.append(("wrong-after-failure:other:threads", f"{scen}; then k_{st['tag']} evaluated on its own returns {r['out'][:80]} instead of "
                      f"{R['other']['out'][:80]}", "other"))
        if [p for p in moved if p not in own]:
            v.append(("later-evaluation-commits-failed-paths:threads", f"{scen}; then k_{st['tag']} evaluated on its own (paths {own}) changed the "
                      f"paths {moved}", "other"))
        if r["out"] != c["out"] or r["paths_after"] != c["paths_after"]:
            v.append(("failed-evaluation-perturbs:threads", f"{scen}; then k_{st['tag']} evaluated on its own returns {r['out'][:80]} and leaves the "
                      f"paths {r['paths_after']}; in the history without the failing evaluations: {c['out'][:80]}, {c['paths_after']}", "other"))
    completed = set(done(M["fail1"])) | set(done(M["fail2"]))
    for lab in ("full1", "full2"):
        r, c = M[lab], Cn[lab]
        where = f"{scen}; cause removed, evaluation {lab[-1]}"
        if c["out"] != R[lab]["out"]:
            v.append(("full-run-wrong:threads", f"{scen}; control history without failure, evaluation {lab[-1]}: returns {c['out'][:80]}, plain execution "
                      f"{R[lab]['out'][:80]}", lab))
        if r["out"] != R[lab]["out"]:
            v.append(("wrong-after-failure:threads", f"{where}: returns {r['out'][:80]} instead of {R[lab]['out'][:80]}", lab))
        if r["paths_after"] != c["paths_after"]:
            v.append(("failed-evaluation-perturbs:threads", f"{where}: leaves the paths {r['paths_after']}; the history without the failing evaluations "
                      f"leaves {c['paths_after']}", lab))
        expect = sorted(t for t in started(c) if lab == "full2" or t not in completed)
        if started(r) != expect:
            v.append(("repaired-run-executes-differently:threads", f"{where}: executed {started(r)}; the history without the failing evaluations executes "
                      f"{started(c)} and the failed evaluations had completed {sorted(completed)}", lab))
    if M["loads_end"]["loads"] != R["loads_end"]["loads"] or M["loads_end"]["loads"] != Cn["loads_end"]["loads"]:
        v.append(("wrong-after-failure:load:threads", f"{scen}; at the end dds.load of {all_paths(prog)} gives {M['loads_end']['loads']}; plain execution "
                  f"{R['loads_end']['loads']}, history without the failing evaluations {Cn['loads_end']['loads']}", "loads_end"))
    return v


def shape(pl, res):
    """Where the failing function ran and what had completed where (classes of the input distribution)."""
    fn = functions(pl["prog"])[pl["victim"]]
    log = res["M"]["fail1"]["log"]
    vthread = [k for t, k in log if t == fn["tag"]]
    return {"failing_function_on_worker_thread": vthread == ["other"],
            "failing_function_on_calling_thread_after_steps_on_worker_threads": vthread == ["caller"] and any(t.endswith(":done") and k == "other" for t, k in log),
            "steps_completed_on_worker_threads_before_the_failure": any(t.endswith(":done") and k == "other" for t, k in log),
            "steps_completed_before_the_failure": bool(done(res["M"]["fail1"]))}


def keeps_on_worker_threads(pl):
    """Is a keep reached on another thread than the caller of dds.eval before the failure or for the failing function itself?
    (By construction of the pipeline; a step whose blob is already there is still reached, though its function does not run.)"""
    steps, npar = pl["prog"]["steps"], pl["prog"]["npar"]
    idx = [i for i, st in enumerate(steps) if pl["victim"] in (leaf(st), st["inner"] and inner_leaf(st))]
    last = len(steps) - 1 if not idx else max(idx[0], npar - 1)
    return any(st["place"] != "caller" or (st["inner"] and st["inner"]["place"] != "caller") for st in steps[:last + 1])


def plans_for(tier, seed, proof_ok):
    n = 12 if tier == "quick" and proof_ok else 90
    return [plan(seed * 1000 + 700 + i, i) for i in range(n)]


def run(rep, tier, seed, proof_ok):
    plans = plans_for(tier, seed, proof_ok)
    results = run_all(plans)
    dist = {"histories": len(plans), "by_placement": {}, "by_store": {}, "by_calling_thread": {}, "by_exception_class": {}, "by_repair": {},
            "by_failing_function": {"step": 0, "sub-step another step waits for": 0, "root": 0}, "populated_store": 0, "kept_root": 0,
            "with_another_pipeline_after_the_failure": 0, "keeps_reached_on_worker_threads_up_to_the_failure": 0, "failing_function_on_worker_thread": 0,
            "failing_function_on_calling_thread_after_steps_on_worker_threads": 0,
            "steps_completed_on_worker_threads_before_the_failure": 0, "steps_completed_before_the_failure": 0}
    for pl, res in zip(plans, results):
        places = sorted(set((("parallel-" + pl["prog"]["par_kind"]) if st["place"] == "par" else st["place"]) for st in pl["prog"]["steps"]) |
                        set("sub-step:" + st["inner"]["place"] for st in pl["prog"]["steps"] if st["inner"]))
        key = f"threads:{pl['seed']}:{pl['victim']}:{pl['kind']}:{pl['mode']}:{pl['store']}:{pl['caller']}:{'+'.join(places)}"
        if "error" in res:
            rep.case(key, nontrivial=False)
            rep.violation("harness-error:c10-threads", "threaded history could not be run: " + res["error"][-300:], {"tplan": pl}, no_input=True)
            continue
        sh = shape(pl, res)
        rep.case(key, nontrivial=keeps_on_worker_threads(pl))
        dist["keeps_reached_on_worker_threads_up_to_the_failure"] += keeps_on_worker_threads(pl)
        for k, val in (("by_store", pl["store"]), ("by_calling_thread", pl["caller"]), ("by_exception_class", pl["kind"]), ("by_repair", pl["mode"])):
            dist[k][val] = dist[k].get(val, 0) + 1
        for p in places:
            dist["by_placement"][p] = dist["by_placement"].get(p, 0) + 1
        tag = functions(pl["prog"])[pl["victim"]]["tag"]
        dist["by_failing_function"]["root" if tag == "root" else "sub-step another step waits for" if tag.endswith("_in") else "step"] += 1
        dist["populated_store"] += pl["populated"]
        dist["kept_root"] += pl["prog"]["root_kept"]
        dist["with_another_pipeline_after_the_failure"] += bool(pl["other"])
        for k, val in sh.items():
            dist[k] += val
        hs = histories(pl)
        for key, what, lab in check(pl, res):
            rep.violation(key, what, {"tplan": pl, "action": lab, "history": hs["M"], "control_history": hs["C"],
                                      "source": source(pl["prog"], pl["mode"], pl["victim"] if pl["mode"] == "code" else None),
                                      "observed": res["M"].get(lab)})
    if plans:
        rep.sample({"threads": describe(plans[0]["prog"]), "failing": plans[0]["victim"], "class": plans[0]["kind"], "store": plans[0]["store"],
                    "cause": plans[0]["mode"]})
    return dist


def replay(r):
    pl = r["tplan"]
    res = run_all([pl])[0]
    if "error" in res:
        print(res["error"])
        return 2
    for lab in ("fail1", "fail2", "other", "full1", "full2"):
        if lab in res["M"]:
            print(" ", lab, res["M"][lab]["out"][:100], "| log:", res["M"][lab]["log"], "| paths:", res["M"][lab]["paths_after"])
    v = check(pl, res)
    for key, what, where in v:
        print(json.dumps({"key": key, "what": what, "where": where}))
    print("REPRODUCED" if v else "not reproduced")
    return 1 if v else 0
