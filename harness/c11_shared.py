"""C11, repeated sub-structure part: the offending calls of an ill-formed evaluation sit in structurally IDENTICAL or
SHARED sub-trees of the call graph.  The analysis of the library identifies sub-trees by signature (an argument-free
function has one signature wherever it is kept, the methods of one class are all analysed against the text of the whole
class, a function reached twice is analysed once): whatever is de-duplicated on the way to the overlap / cycle / nested
eval checks, an offence must not disappear with the duplicate.  Two keeps of the SAME callee with the SAME arguments
under overlapping paths are placed in one function, in twin functions that differ only in the path literal (side by
side, one under the other, reached by name through a higher-order helper, in two modules), in sibling methods of one
accepted class (one instance / one instance per call / a harmless third keep of the same callee between them), in twin
classes, in a helper reached twice through twin callers, and in the decorators of twin data functions; cycles and nested
dds.eval are closed through the same shared places.  The expected verdict comes from the property (the error code of the offence, nothing executed, no store
write).  The well-formed twin of every placement (sibling paths instead of nested ones) must give the result of plain
Python execution (dds replaced by keep = call), execute nothing that plain execution does not execute, and leave every
kept path loadable with the value plain execution keeps there."""
import concurrent.futures as cf
import json
import os
import shutil
import tempfile

import common as C
import progs as P
import c11_positions as CP

# ---------------------------------------------------------------------------------------------------- building blocks

# the callee of the two keeps and the arguments they give it: (name, parameters of the callee, arguments of keep 1, of keep 2)
CALLEES = [
    ("noarg", "", "", ""),                   # argument-free: one signature wherever it is kept
    ("default-arg", "n=3", "", ""),          # the same, a parameter left to its default value
    ("const-arg", "n", ", 3", ", 3"),        # the same constant argument in both keeps: one signature
    ("kw-arg", "n=0", ", n=3", ", n=3"),     # the same, given by keyword
    ("diff-arg", "n", ", 3", ", 4"),         # same callee, different arguments: two signatures, one function
]
CALLEE = {c[0]: c for c in CALLEES}

# (name, path of keep 1, path of keep 2, ill-formed?)  {s} = scenario number: the scenarios of a process share a store
PATHS = [
    ("under", "/p{s}", "/p{s}/q", True),
    ("above", "/p{s}/q", "/p{s}", True),
    ("far-under", "/p{s}/a", "/p{s}/a/b/c", True),
    ("far-above", "/p{s}/a/b/c", "/p{s}/a", True),
    ("siblings", "/p{s}/a", "/p{s}/b", False),
    ("string-prefix", "/p{s}/ab", "/p{s}/a", False),
]
PATH = {p[0]: p for p in PATHS}


# the run-time guard of c11_positions (functions that are never meant to run recurse) must not cut plain execution short:
# plain execution repeats what the memoisation skips
LOGMOD_SRC = CP.LOGMOD_SRC + """

def deep():
    return len(LOG) > 60
"""


def fn(name, stmts, params=""):
    """A logged function (see c11_positions.fn), with parameters."""
    return [l.replace(f"def {name}():", f"def {name}({params}):") for l in CP.fn(name, stmts)]


def klass(name, methods):
    """A class of the accepted module; methods: [(name, statements)], all logged."""
    out = [f"class {name}(object):"]
    for m, stmts in methods:
        out += [f"    def {m}(self):", f"        vlogmod.log('{name}.{m}')", "        if vlogmod.deep():", "            return 'stop'", "        x = None"]
        out += ["        " + s for s in stmts] + ["        return x", ""]
    return out + [""]


def leaf(name, params):
    return fn(name, ["x = 'v_%s_%%s' %% (%s,)" % (name, params.split("=")[0] or "None")], params)


# The shapes: where the two places E1, E2 (statements "x = <call>") sit.  Every shape returns (lines of m0, lines of lib,
# statements of the body that the root executes); names are suffixed by the scenario number s.
def shape_same_function(s, E1, E2, E3, ctx):
    return [], [], [E1, "y = x", E2, "x = (y, x)"]


def shape_twin_functions(s, E1, E2, E3, ctx):
    a, b = f"a{s}", f"b{s}"
    return fn(a, [E1]) + fn(b, [E2]), [], [f"y = {a}()", f"x = (y, {b}())"]


def shape_twin_nested(s, E1, E2, E3, ctx):
    a, b = f"a{s}", f"b{s}"
    return fn(a, [E1, f"x = (x, {b}())"]) + fn(b, [E2]), [], [f"x = {a}()"]


def shape_twin_by_name(s, E1, E2, E3, ctx):
    a, b = f"a{s}", f"b{s}"
    return fn(a, [E1]) + fn(b, [E2]), [], [f"y = vlogmod.apply({a})", f"x = (y, vlogmod.apply({b}))"]


def shape_twin_modules(s, E1, E2, E3, ctx):
    a, b = f"a{s}", f"b{s}"
    return fn(a, [E1]), fn(b, [E2]), [f"y = {a}()", f"x = (y, lib.{b}())"]


def shape_twin_methods(s, E1, E2, E3, ctx):
    K = f"K{s}"
    return klass(K, [("first", [E1]), ("second", [E2])]), [], [f"k = {K}()", "y = k.first()", "x = (y, k.second())"]


def shape_twin_methods_two_instances(s, E1, E2, E3, ctx):
    K = f"K{s}"
    return klass(K, [("first", [E1]), ("second", [E2])]), [], [f"y = {K}().first()", f"x = (y, {K}().second())"]


def shape_twin_methods_decoy(s, E1, E2, E3, ctx):
    K = f"K{s}"
    return (klass(K, [("first", [E1]), ("middle", [E3]), ("second", [E2])]), [],
            [f"k = {K}()", "y = k.first()", "z = k.middle()", "x = (y, z, k.second())"])


def shape_twin_classes(s, E1, E2, E3, ctx):
    Ka, Kb = f"Ka{s}", f"Kb{s}"
    return klass(Ka, [("run", [E1])]) + klass(Kb, [("run", [E2])]), [], [f"y = {Ka}().run()", f"x = (y, {Kb}().run())"]


def shape_shared_helper(s, E1, E2, E3, ctx):
    a, b, h = f"a{s}", f"b{s}", f"h{s}"
    return fn(h, [E2]) + fn(a, [f"x = {h}()"]) + fn(b, [f"x = {h}()"]), [], [E1, f"y = (x, {a}())", f"x = (y, {b}())"]


def shape_shared_helper_late(s, E1, E2, E3, ctx):
    a, b, h = f"a{s}", f"b{s}", f"h{s}"
    return fn(h, [E2]) + fn(a, [f"x = {h}()"]) + fn(b, [f"x = {h}()"]), [], [f"y = {a}()", f"z = {b}()", E1, "x = (y, z, x)"]


def shape_twin_data_functions(s, E1, E2, E3, ctx):
    # the two kept paths are declared by decorators: twin data functions differing only in the path literal
    a, b = f"a{s}", f"b{s}"
    return ([f'@dds.data_function("{ctx["p1"]}")'] + fn(a, [f"x = {ctx['call1']}"]) + [f'@dds.data_function("{ctx["p2"]}")'] + fn(b, [f"x = {ctx['call2']}"]), [],
            [f"y = {a}()", f"x = (y, {b}())"])


def shape_twin_data_function_and_keep(s, E1, E2, E3, ctx):
    # one path declared by the decorator of a function, the other given to a keep of the same function
    a = f"a{s}"
    return [f'@dds.data_function("{ctx["p1"]}")'] + fn(a, [f"x = {ctx['call1']}"]), [], [f"y = {a}()", f'x = (y, dds.keep("{ctx["p2"]}", {a}))']


SHAPES = [
    ("same-function", shape_same_function),
    ("twin-functions", shape_twin_functions),
    ("twin-functions-nested", shape_twin_nested),
    ("twin-functions-by-name", shape_twin_by_name),
    ("twin-functions-two-modules", shape_twin_modules),
    ("twin-methods", shape_twin_methods),
    ("twin-methods-two-instances", shape_twin_methods_two_instances),
    ("twin-methods-decoy-between", shape_twin_methods_decoy),
    ("twin-classes", shape_twin_classes),
    ("shared-helper-reached-twice", shape_shared_helper),
    ("shared-helper-reached-twice-then-keep", shape_shared_helper_late),
    ("twin-data-functions", shape_twin_data_functions),
    ("data-function-kept-again", shape_twin_data_function_and_keep),
]
SHAPE = dict(SHAPES)

# Cycles and nested dds.eval closed through the same shared places: (name, expected code, builder(s) -> (m0, lib, body))
def _graph_kinds():
    def cyc_shared_helper(s):
        a, b, h = f"a{s}", f"b{s}", f"h{s}"
        return fn(h, [f"x = {b}()"]) + fn(a, [f"x = {h}()"]) + fn(b, [f"x = {h}()"]), [], [f"y = {a}()", f"x = (y, {b}())"]

    def cyc_after_shared_helper(s):
        a, b, h, r = f"a{s}", f"b{s}", f"h{s}", f"r{s}"
        return fn(h, [f"x = g{s}()"]) + leaf(f"g{s}", "") + fn(a, [f"x = {h}()"]) + fn(b, [f"x = {h}()", f"x = (x, {r}())"]), [], [f"y = {a}()", f"x = (y, {b}())"]

    def cyc_second_method(s):
        K, r, g = f"K{s}", f"r{s}", f"g{s}"
        return leaf(g, "") + klass(K, [("first", [f"x = {g}()"]), ("second", [f"x = {g}()", f"x = (x, {r}())"])]), [], [f"k = {K}()", "y = k.first()", "x = (y, k.second())"]

    def cyc_second_keep_of_same_callee(s):
        a, b, g, r = f"a{s}", f"b{s}", f"g{s}", f"r{s}"
        return (leaf(g, "") + fn(a, [f'x = dds.keep("/p{s}/a", {g})']) + fn(b, [f'x = dds.keep("/p{s}/b", {g})', f"x = (x, {r}())"]), [],
                [f"y = {a}()", f"x = (y, {b}())"])

    def cyc_twin_keeps_of_the_root(s):
        a, b, r = f"a{s}", f"b{s}", f"r{s}"
        return fn(a, [f"x = 'v_{a}'"]) + fn(b, [f'x = dds.keep("/p{s}/b", {r})']), [], [f'y = dds.keep("/p{s}/a", {a})', f'x = (y, dds.keep("/p{s}/c", {b}))']

    def eval_second_method(s):
        K, g = f"K{s}", f"g{s}"
        return leaf(g, "") + klass(K, [("first", [f"x = {g}()"]), ("second", [f"x = dds.eval({g})"])]), [], [f"k = {K}()", "y = k.first()", "x = (y, k.second())"]

    def eval_shared_helper(s):
        a, b, h, g = f"a{s}", f"b{s}", f"h{s}", f"g{s}"
        return leaf(g, "") + fn(h, [f"x = dds.eval({g})"]) + fn(a, [f"x = {h}()"]) + fn(b, [f"x = {h}()"]), [], [f"y = {a}()", f"x = (y, {b}())"]

    def eval_of_kept_callee(s):
        a, g = f"a{s}", f"g{s}"
        return leaf(g, "") + fn(a, [f"x = dds.eval({g})"]), [], [f'y = dds.keep("/p{s}/a", {g})', f"x = (y, {a}())"]

    def eval_second_twin(s):
        a, b, g = f"a{s}", f"b{s}", f"g{s}"
        return leaf(g, "") + fn(a, [f'x = dds.keep("/p{s}/a", {g})']) + fn(b, [f"x = dds.eval({g})"]), [], [f"y = {a}()", f"x = (y, {b}())"]

    def eval_second_twin_other_module(s):
        a, b, g = f"a{s}", f"b{s}", f"g{s}"
        return fn(a, [f'x = dds.keep("/p{s}/a", {g})']), leaf(g, "") + fn(b, [f"x = dds.eval({g})"]), [f"y = {a}()", f"x = (y, lib.{b}())"]
    return [("cycle-through-helper-reached-twice", "dds:CIRCULAR_CALL", cyc_shared_helper),
            ("cycle-closed-after-helper-reached-twice", "dds:CIRCULAR_CALL", cyc_after_shared_helper),
            ("cycle-closed-in-second-twin-method", "dds:CIRCULAR_CALL", cyc_second_method),
            ("cycle-closed-after-second-keep-of-same-callee", "dds:CIRCULAR_CALL", cyc_second_keep_of_same_callee),
            ("cycle-through-second-of-twin-keeps", "dds:CIRCULAR_CALL", cyc_twin_keeps_of_the_root),
            ("eval-in-second-twin-method", "dds:EVAL_IN_EVAL", eval_second_method),
            ("eval-in-helper-reached-twice", "dds:EVAL_IN_EVAL", eval_shared_helper),
            ("eval-of-callee-kept-before", "dds:EVAL_IN_EVAL", eval_of_kept_callee),
            ("eval-in-second-twin-function", "dds:EVAL_IN_EVAL", eval_second_twin),
            ("eval-in-second-twin-other-module", "dds:EVAL_IN_EVAL", eval_second_twin_other_module)]


GRAPH_KINDS = _graph_kinds()
GRAPH_KIND = {k[0]: k for k in GRAPH_KINDS}


def scenario(sc, s):
    """sc: {"shape", "callee", "path_pair", "depth", "entry"} or {"graph_kind", "depth", "entry"}.
    Returns (lines of m0, lines of lib, names imported from lib, expected, kept paths to load afterwards)."""
    r, c, g = f"r{s}", f"c{s}", f"g{s}"
    imports, loads = [], []
    if "graph_kind" in sc:
        _, exp, build = GRAPH_KIND[sc["graph_kind"]]
        m0, lib, body = build(s)
        if sc["graph_kind"] == "eval-in-second-twin-other-module":
            imports = [g]
    else:
        _, params, args1, args2 = CALLEE[sc["callee"]]
        _, p1, p2, ill = PATH[sc["path_pair"]]
        p1, p2 = p1.format(s=s), p2.format(s=s)
        E1, E2 = f'x = dds.keep("{p1}", {g}{args1})', f'x = dds.keep("{p2}", {g}{args2})'
        E3 = f'x = dds.keep("/o{s}", {g}{args1})'
        ctx = {"p1": p1, "p2": p2, "call1": f"{g}({args1.lstrip(', ')})", "call2": f"{g}({args2.lstrip(', ')})"}
        m0, lib, body = SHAPE[sc["shape"]](s, E1, E2, E3, ctx)
        # the callee lives where the module of the second twin can name it
        if lib:
            lib, imports = leaf(g, params) + lib, [g]
        else:
            m0 = leaf(g, params) + m0
        exp = "dds:OVERLAPPING_PATH" if ill else "plain"
        loads = [] if ill else [p1, p2] + (["/o%d" % s] if "decoy" in sc["shape"] else [])
    if sc["depth"]:
        m0 = m0 + fn(c, body) + fn(r, [f"x = {c}()"])
    else:
        m0 = m0 + fn(r, body)
    return m0, lib, imports, exp, loads


def describe(sc):
    if "graph_kind" in sc:
        what = sc["graph_kind"]
    else:
        _, p1, p2, ill = PATH[sc["path_pair"]]
        _, params, a1, a2 = CALLEE[sc["callee"]]
        what = (f"shape '{sc['shape']}': dds.keep({p1.format(s='')!r}, g{a1}) and dds.keep({p2.format(s='')!r}, g{a2}) of the same callee g({params})")
    entry = "dds.eval(r)" if sc["entry"] == "eval" else "dds.keep('/z', r)"
    return what + (", one call below the root" if sc["depth"] else "") + f", entered by {entry}"


def write_pkg(root, pkg, scen):
    """scen: list of (s, sc).  One package: module lib (no import of m0) and module m0 (imports lib and names from it)."""
    src0, srcl, names, exps, loads = [], [], [], {}, {}
    for s, sc in scen:
        m0, lib, imports, exp, ld = scenario(sc, s)
        src0 += m0
        srcl += lib
        names += imports
        exps[s], loads[s] = exp, ld
    head0 = ["import dds", "import vlogmod", "from . import lib"] + [f"from .lib import {n}" for n in names] + ["", ""]
    headl = ["import dds", "import vlogmod", "", ""]
    pdir = os.path.join(root, pkg)
    os.makedirs(pdir, exist_ok=True)
    open(os.path.join(pdir, "__init__.py"), "w").write("")
    open(os.path.join(pdir, "m0.py"), "w").write("\n".join(head0 + src0) + "\n")
    open(os.path.join(pdir, "lib.py"), "w").write("\n".join(headl + srcl) + "\n")
    open(os.path.join(root, P.LOGMOD + ".py"), "w").write(LOGMOD_SRC)
    open(os.path.join(root, P.EXTMOD + ".py"), "w").write("")
    return exps, loads


def run_batch(scen):
    """All the scenarios of one batch in one process, on one (local) store: a rejected evaluation leaves it untouched
    and the paths / functions of the scenarios are disjoint; the well-formed ones are also run by plain Python (dds
    replaced by keep = call, load = the value kept last) in a second process."""
    root = tempfile.mkdtemp(prefix="c11s_", dir=C.scratch_dir())
    try:
        exps, loads = write_pkg(root, "vps", scen)
        store = {"kind": "local", "internal_dir": os.path.join(root, "i"), "data_dir": os.path.join(root, "d")}
        acts, idx = [], {}
        for s, sc in scen:
            idx[s] = len(acts)
            acts.append({"a": "call", "mod": "m0", "fn": f"r{s}", "style": sc["entry"], "path": f"/z{s}", "pos": [], "kw": []})
            acts += [{"a": "load", "path": p} for p in loads[s]]
        out = C.run_driver("drive_prog.py", {"root": root, "pkg": "vps", "store": store, "actions": acts})
        ok_idx = [i for s, sc in scen if exps[s] == "plain" for i in range(idx[s], idx[s] + 1 + len(loads[s]))]
        ref = {}
        if ok_idx:
            refs = C.run_driver("drive_prog.py", {"root": root, "pkg": "vps", "nodds": True, "kept_file": os.path.join(root, "kept.pkl"),
                                                 "actions": [acts[i] for i in ok_idx]})
            ref = dict(zip(ok_idx, refs))
        res = []
        for s, sc in scen:
            m0, lib, _, _, _ = scenario(sc, s)
            i, n = idx[s], 1 + len(loads[s])
            res.append({"sc": sc, "s": s, "expected": exps[s], "impl": out[i], "loads": [[a["path"], o["out"]] for a, o in zip(acts[i + 1:i + n], out[i + 1:i + n])],
                        "ref": ref.get(i), "ref_loads": [[acts[j]["path"], ref[j]["out"]] for j in range(i + 1, i + n) if j in ref],
                        "src": {"m0": "\n".join(m0), "lib": "\n".join(lib)}})
        return res
    except Exception as e:  # noqa
        return [{"error": str(e)[-800:], "batch": [sc for _, sc in scen][:3]}]
    finally:
        shutil.rmtree(root, ignore_errors=True)


def sc_key(sc):
    return sc.get("graph_kind") or f"{sc['shape']}:{sc['callee']}:{sc['path_pair']}"


def judge(r):
    """List of (violation key, what) for one scenario result.  Keys: shared:<shape or kind>:<what>."""
    sc, out = r["sc"], r["impl"]["out"]
    tag = sc.get("graph_kind") or sc["shape"]
    where = describe(sc) + f" [m0.r{r['s']}]"
    ran = r["impl"]["log"]
    wrote = [x[0] for x in r["impl"]["rec"] if x[0] in ("put", "sync")]
    bad = []
    if r["expected"] == "plain":
        where = "well-formed " + where
        ref = r["ref"]
        if out != ref["out"]:
            key = "well-formed-rejected" if not out.startswith("ok:") else "well-formed-differs-from-plain-execution"
            bad.append((f"shared:{tag}:{key}", f"{where}: {out[:60]} (executed {ran[:8]}) but plain execution gives {ref['out'][:60]}"))
        # memoisation may skip calls (one blob for one signature); it never adds or reorders the first executions
        extra = [t for t in set(ran) if ran.count(t) > ref["log"].count(t)]
        if extra or (out.startswith("ok:") and set(ran) != set(ref["log"])):
            bad.append((f"shared:{tag}:well-formed-differs-from-plain-execution",
                        f"{where}: executed {ran[:10]} but plain execution executes {ref['log'][:10]}"))
        if out.startswith("ok:") and r["loads"] != r["ref_loads"]:
            bad.append((f"shared:{tag}:kept-path-not-loadable", f"{where}: after the evaluation dds.load gives {r['loads']} but plain execution kept {r['ref_loads']}"))
        return bad
    fam = {"dds:CIRCULAR_CALL": "cycle-not-rejected", "dds:EVAL_IN_EVAL": "nested-eval-not-rejected", "dds:OVERLAPPING_PATH": "overlap-eval-missed"}[r["expected"]]
    if out != r["expected"]:
        bad.append((f"shared:{tag}:{fam}", f"{where}: expected {r['expected']} but the evaluation gave {out[:60]} (executed {ran[:6]})"))
    if ran or wrote:
        bad.append((f"shared:{tag}:rejected-but-ran", f"{where}: the ill-formed evaluation executed {ran[:8]} and made store calls {wrote[:6]}"))
    return bad


def sweep_cases(tier, rng):
    """quick: every shape with every callee, each with two of the four ill-formed path pairs (one with the shallow path
    first, one with the deep path first) and one of the two well-formed pairs, the nesting depth and the entry point drawn
    for each; every cycle / nested-eval kind at both depths.  thorough: the full product with depth and entry point."""
    cases = []
    for shape, _ in SHAPES:
        for callee in CALLEE:
            pairs = list(PATH)
            if tier == "quick":
                pairs = list(rng.choice([("under", "far-above"), ("above", "far-under")])) + [rng.choice(["siblings", "string-prefix"])]
            for paths in pairs:
                if tier == "quick":
                    combos = [(rng.randrange(2), "eval" if rng.random() < 0.75 else "keep")]
                else:
                    combos = [(d, e) for d in (0, 1) for e in ("eval", "keep")]
                for depth, entry in combos:
                    cases.append({"shape": shape, "callee": callee, "path_pair": paths, "depth": depth, "entry": entry})
    for kind, _, _ in GRAPH_KINDS:
        for depth in (0, 1):
            for entry in (("eval",) if tier == "quick" else ("eval", "keep")):
                cases.append({"graph_kind": kind, "depth": depth, "entry": entry})
    return cases


def run(rep, tier, seed, proof_ok, rng):
    cases = sweep_cases(tier, rng)
    # one process (two for the well-formed ones) per batch; a batch mixes shapes, the scenario numbers are global
    nb = 6 if tier == "quick" else 24
    batches = [[(i, sc) for i, sc in enumerate(cases) if i % nb == b] for b in range(nb)]
    with cf.ThreadPoolExecutor(max_workers=C.NPROC) as ex:
        res = list(ex.map(run_batch, batches))
    n, verdicts, by_shape = 0, {}, {}
    for rs in res:
        for r in rs:
            if "error" in r:
                rep.violation("harness-error:c11s", "repeated sub-structure sweep could not be run: " + r["error"][-300:], r, no_input=True)
                continue
            n += 1
            sc = r["sc"]
            rep.case(f"shared:{sc_key(sc)}:{sc['depth']}:{sc['entry']}")
            out = r["impl"]["out"]
            verdicts[out if not out.startswith("ok") else "ok"] = verdicts.get(out if not out.startswith("ok") else "ok", 0) + 1
            t = sc.get("shape") or sc["graph_kind"].split("-")[0]
            by_shape[t] = by_shape.get(t, 0) + 1
            for key, what in judge(r):
                rep.violation(key, what, dict(sc, shared_sweep=True, expected=r["expected"], impl={k: r["impl"].get(k) for k in ("out", "log", "tb")},
                                              loads=r["loads"], ref=r["ref"], ref_loads=r["ref_loads"], src=r["src"],
                                              cmd="harness/c11_shared.py: run_batch([(0, scenario)]) then dds.eval(vps.m0.r0) / dds.keep('/z0', vps.m0.r0)"))
    rep.extra["shared_sweep"] = {"shapes": len(SHAPES), "callees": len(CALLEES), "path_pairs": len(PATHS), "ill_formed_path_pairs": sum(1 for p in PATHS if p[3]),
                                 "cycle_and_eval_kinds": len(GRAPH_KINDS), "scenarios": n, "by_shape": by_shape, "verdicts": verdicts}
    return n


def replay(r):
    sc = {k: r[k] for k in ("shape", "callee", "path_pair", "graph_kind", "depth", "entry") if k in r}
    res = run_batch([(0, sc)])[0]
    if "error" in res:
        print(res["error"])
        return 2
    bad = judge(res)
    print(res["src"]["lib"])
    print(res["src"]["m0"])
    print(json.dumps({"scenario": sc, "expected": res["expected"], "impl": res["impl"]["out"], "executed": res["impl"]["log"],
                      "loads": res["loads"], "ref": res["ref"], "ref_loads": res["ref_loads"], "violations": bad}, indent=1))
    print("REPRODUCED" if bad else "not reproduced")
    return 1 if bad else 0
