"""C15, thread dimension: the kept steps of the pipeline are reached from other threads than the one that called dds.eval
(ThreadPoolExecutor.submit / map, threading.Thread, a pool that outlives the evaluation, a thread started by a thread, a
Timer), possibly in parallel, and dds.eval itself may be called from a thread that is not the main thread.  Under every
stage prefix the restricted run must be the dry run the property describes WHATEVER thread reaches the keep:
  * analysis only (fewer than 3 stages): no user code, no blob, no path, result None;
  * stops before path_commit (3 or 4 stages): no sync_paths call from any thread, every path as it was (also on a
    populated store after the code state changed: dds.load still returns the old values), the value of plain execution,
    the blobs (= signatures) of the full run;
  * later full evaluations: same committed path -> signature map, same values as the control history without the
    restricted runs, and the values of plain execution.
Expected values come from the dds-free execution of the same files, from the control history and from the property."""
import concurrent.futures as cf
import json
import os
import random
import shutil
import tempfile

import common as C

LOGMOD = "vthreadlog"
STAGES = ["ANALYSIS", "STORE_INSPECT", "EVAL", "STORE_COMMIT", "PATH_COMMIT"]
PLACES = ["caller", "submit", "map", "thread", "persistent", "nested", "timer"]

LOGMOD_SRC = '''"""Not accepted by dds: execution log and ways of running a function on another thread."""
import threading
from concurrent.futures import ThreadPoolExecutor

LOG = []
STORE_THREADS = []
_POOL = None


def log(tag):
    LOG.append([tag, threading.get_ident()])


def call0(g):
    return g()


def pool():
    """a pool that outlives the evaluations: its worker threads are reused by later evaluations"""
    global _POOL
    if _POOL is None:
        _POOL = ThreadPoolExecutor(max_workers=2, thread_name_prefix="c15p")
    return _POOL


def in_thread(g):
    box = {}

    def w():
        try:
            box["r"] = g()
        except BaseException as e:  # noqa
            box["e"] = e
    t = threading.Thread(target=w, name="c15w-thread")
    t.start()
    t.join()
    if "e" in box:
        raise box["e"]
    return box["r"]


def in_nested(g):
    return in_thread(lambda: in_thread(g))


def in_timer(g):
    box = {}
    done = threading.Event()

    def w():
        try:
            box["r"] = g()
        except BaseException as e:  # noqa
            box["e"] = e
        done.set()
    t = threading.Timer(0.0, w)
    t.name = "c15w-timer"
    t.start()
    done.wait(60)
    t.join(60)
    if "e" in box:
        raise box["e"]
    return box["r"]


def quiesce():
    for t in threading.enumerate():
        if t.name.startswith("c15w-") and t is not threading.current_thread():
            t.join(10)
'''


# ----------------------------------------------------------------------------- generated pipelines


def gen_program(rng, idx):
    nsteps = rng.randint(2, 4)
    npar = rng.choice([0, 0, 2, 2, 3])
    npar = min(npar, nsteps)
    prog = {"pkg": f"tpk{idx}", "par_kind": rng.choice(["submit", "map"]), "npar": npar, "steps": []}
    for i in range(nsteps):
        tag = "abcd"[i]
        st = {"tag": tag, "path": rng.choice([f"/th{idx}/{tag}", f"/th{idx}/d_{tag}/out", f"/{tag}{idx}"]), "var": "V_" + tag,
              "val": rng.randint(1, 9), "base": 10 * (i + 1), "style": rng.choice(["keep", "keep", "data_function"]),
              "place": "par" if i < npar else rng.choice(PLACES + PLACES[1:]), "loads": None}
        if i >= npar and i > 0 and rng.random() < 0.4:
            st["loads"] = rng.choice("abcd"[:i])
        prog["steps"].append(st)
    if all(st["place"] == "caller" for st in prog["steps"]):
        prog["steps"][-1]["place"] = rng.choice(PLACES[1:])
    return prog


def source(prog):
    steps = prog["steps"]
    by_tag = {st["tag"]: st for st in steps}
    L = ["import dds", "import threading", "from concurrent.futures import ThreadPoolExecutor", f"import {LOGMOD}", ""]
    for st in steps:
        L.append(f"{st['var']} = {st['val']}")
    L += ["", "", "def idle():", "    return None"]
    for st in steps:
        t = st["tag"]
        expr = f"{st['base']} + {st['var']}"
        if st["loads"]:
            expr = f"dds.load({by_tag[st['loads']]['path']!r}) * 100 + " + expr
        body = [f"    {LOGMOD}.log({t!r})", f"    return {expr}"]
        if st["style"] == "data_function":
            L += ["", "", f"@dds.data_function({st['path']!r})", f"def k_{t}():"] + body
        else:
            L += ["", "", f"def f_{t}():"] + body
            L += ["", "", f"def k_{t}():", f"    return dds.keep({st['path']!r}, f_{t})"]
        if st["place"] == "thread":
            L += ["", "", f"def t_{t}(box):", f"    box.append(k_{t}())"]
    L += ["", "", "def root():"]
    par = steps[:prog["npar"]]
    if par:
        L.append(f"    with ThreadPoolExecutor(max_workers={len(par)}) as pool:")
        if prog["par_kind"] == "submit":
            for st in par:
                L.append(f"        fu_{st['tag']} = pool.submit(k_{st['tag']})")
            for st in par:
                L.append(f"        r_{st['tag']} = fu_{st['tag']}.result()")
        else:
            L.append(f"        rs = list(pool.map({LOGMOD}.call0, [" + ", ".join(f"k_{st['tag']}" for st in par) + "]))")
            for i, st in enumerate(par):
                L.append(f"        r_{st['tag']} = rs[{i}]")
    for st in steps[prog["npar"]:]:
        t, p = st["tag"], st["place"]
        if p == "caller":
            L.append(f"    r_{t} = k_{t}()")
        elif p == "submit":
            L += [f"    with ThreadPoolExecutor(max_workers=1) as pool_{t}:", f"        r_{t} = pool_{t}.submit(k_{t}).result()"]
        elif p == "map":
            L += [f"    with ThreadPoolExecutor(max_workers=1) as pool_{t}:",
                  f"        r_{t} = list(pool_{t}.map({LOGMOD}.call0, [k_{t}]))[0]"]
        elif p == "thread":
            L += [f"    box_{t} = []", f"    th_{t} = threading.Thread(target=t_{t}, args=(box_{t},), name='c15w-{t}')",
                  f"    th_{t}.start()", f"    th_{t}.join()", f"    r_{t} = box_{t}[0]"]
        elif p == "persistent":
            L.append(f"    r_{t} = {LOGMOD}.pool().submit(k_{t}).result()")
        elif p == "nested":
            L.append(f"    r_{t} = {LOGMOD}.in_nested(k_{t})")
        elif p == "timer":
            L.append(f"    r_{t} = {LOGMOD}.in_timer(k_{t})")
        else:
            raise ValueError(p)
    L.append("    return [" + ", ".join(f"r_{st['tag']}" for st in steps) + "]")
    return "\n".join(L) + "\n"


def describe(prog):
    res = []
    for st in prog["steps"]:
        pl = ("parallel-" + prog["par_kind"]) if st["place"] == "par" else st["place"]
        res.append(f"{st['tag']}:{pl}" + (f"(loads {st['loads']})" if st["loads"] else "") + ("@data_function" if st["style"] != "keep" else ""))
    return "[" + ", ".join(res) + "]"


def write_package(prog, root):
    os.makedirs(os.path.join(root, prog["pkg"]))
    open(os.path.join(root, prog["pkg"], "__init__.py"), "w").close()
    with open(os.path.join(root, prog["pkg"], "pipe.py"), "w") as f:
        f.write(source(prog))
    with open(os.path.join(root, LOGMOD + ".py"), "w") as f:
        f.write(LOGMOD_SRC)


# ----------------------------------------------------------------------------- histories


def spell(rng, name):
    r = rng.random()
    if r < 0.3:
        return ["name", name.lower()]
    if r < 0.5:
        return ["name", name]
    if r < 0.65:
        return ["name", "".join(c.upper() if rng.random() < 0.5 else c.lower() for c in name)]
    return ["enum", name]


def plan(seed, n, idx):
    """One pipeline x one stage prefix x one store kind x one kind of calling thread."""
    rng = random.Random(seed)
    prog = gen_program(rng, idx)
    rng2 = random.Random(seed * 7 + n)
    st = rng.choice(prog["steps"])
    return {"seed": seed, "n": n, "prog": prog, "store": rng.choice(["local", "memory", "local+lru"]),
            "caller": rng.choice(["main", "main", "thread"]), "stages": [spell(rng2, x) for x in STAGES[:n]],
            "setvar": {"a": "setvar", "name": st["var"], "value": st["val"] + rng.randint(1, 5)}}


def histories(pl):
    restricted = {"a": "call", "fn": "root", "stages": pl["stages"], "n": pl["n"], "caller": pl["caller"]}
    full = {"a": "call", "fn": "root", "stages": None, "caller": pl["caller"]}
    loads = {"a": "loads"}
    return {"H": [restricted, restricted, full, full], "Hc": [full, full],
            "H2": [full, loads, pl["setvar"], restricted, loads, full, loads], "C2": [full, pl["setvar"], full, loads]}


def run_history(pl, actions, nodds=False):
    root = tempfile.mkdtemp(prefix="c15t_", dir=C.scratch_dir())
    try:
        write_package(pl["prog"], os.path.join(root, "src"))
        store = {"kind": pl["store"], "internal_dir": os.path.join(root, "internal"), "data_dir": os.path.join(root, "data"), "cap": 16}
        payload = {"root": os.path.join(root, "src"), "pkg": pl["prog"]["pkg"], "store": store, "actions": actions, "nodds": nodds,
                   "paths": [st["path"] for st in pl["prog"]["steps"]]}
        return C.run_driver("drive_c15_threads.py", payload, timeout=180)
    finally:
        shutil.rmtree(root, ignore_errors=True)


SHARED = (("Hc", "Hc", False), ("C2", "C2", False), ("refHc", "Hc", True), ("refC2", "C2", True))


def run_all(plans):
    """Runs the histories of all plans (one process each, in parallel).  The control histories and the dds-free reference
    runs do not depend on the stage prefix: they are run once per pipeline and shared by its plans."""
    tasks, seen = [], set()
    for pl in plans:
        tasks += [(pl, "H", "H", False), (pl, "H2", "H2", False)]
        if pl["seed"] not in seen:
            seen.add(pl["seed"])
            tasks += [(pl, k, h, nodds) for k, h, nodds in SHARED]

    def one(t):
        pl, key, hname, nodds = t
        try:
            return run_history(pl, histories(pl)[hname], nodds=nodds)
        except Exception as e:  # noqa
            return {"error": str(e)[-1500:]}
    with cf.ThreadPoolExecutor(max_workers=C.NPROC) as ex:
        outs = list(ex.map(one, tasks))
    own, shared = {}, {}
    for (pl, key, hname, nodds), o in zip(tasks, outs):
        (own if key in ("H", "H2") else shared)[(pl["seed"], pl["n"] if key in ("H", "H2") else None, key)] = o
    results = []
    for pl in plans:
        res = {"H": own[(pl["seed"], pl["n"], "H")], "H2": own[(pl["seed"], pl["n"], "H2")]}
        for k, _, _ in SHARED:
            res[k] = shared[(pl["seed"], None, k)]
        errs = [f"{k}: {r['error']}" for k, r in res.items() if isinstance(r, dict)]
        results.append({"error": "\n".join(errs)[-1500:]} if errs else res)
    return results


def has(rec, kind):
    return [x for x in rec["rec"] if x[0] == kind]


def tags(rec):
    return sorted(t for t, _ in rec["log"])


def check(pl, res):
    """The violations of one plan: list of (key, what, extra replay fields)."""
    v = []
    n, hs = pl["n"], histories(pl)
    names = [s[1] if s[0] == "name" else "ProcessingStage." + s[1] for s in pl["stages"]]
    scen = (f"pipeline {describe(pl['prog'])}, dds.eval called from the {pl['caller']} thread, store {pl['store']}, "
            f"dds_stages={names}")

    def restricted(hname, i, r, ref_out, cold_control=None):
        where = f"{scen}; history {hname} action {i}"
        others = sorted(set(w for w, k in r["store_threads"] if k == "other"))
        by = f" (store calls made from other threads than the caller of dds.eval: {others})" if others else ""
        if n < 3:
            if r["log"] or has(r, "put") or has(r, "sync") or r["out"] != "ok:N" or r["blobs_after"] != r["blobs_before"] or r["paths_after"] != r["paths_before"]:
                v.append(("dry-run-impure:analysis-only:threads", f"{where}: ran {r['log']}, {len(has(r, 'put'))} blobs written, {len(has(r, 'sync'))} "
                          f"sync_paths calls, returned {r['out'][:40]}, committed paths {r['paths_before']} -> {r['paths_after']}{by}", (hname, i)))
            return
        if has(r, "sync") or r["paths_after"] != r["paths_before"]:
            moved = sorted(p for p in set(r["paths_after"]) | set(r["paths_before"]) if r["paths_after"].get(p) != r["paths_before"].get(p))
            v.append(("dry-run-impure:path-commit:threads", f"{where}: the run stops before path_commit but {len(has(r, 'sync'))} sync_paths call(s) were "
                      f"made and the committed paths {moved} changed{by}", (hname, i)))
        if r["out"] != ref_out:
            v.append(("restricted-run-wrong-value:threads", f"{where}: returned {r['out'][:80]}, plain execution returns {ref_out[:80]}", (hname, i)))
        if cold_control is not None:
            if tags(r) != tags(cold_control):
                v.append(("restricted-run-executes-differently:threads", f"{where}: on the empty store it executed {tags(r)}, the full run executes "
                          f"{tags(cold_control)}", (hname, i)))
            if r["blobs_after"] is not None and r["blobs_after"] != cold_control["blobs_after"]:
                v.append(("restricted-run-other-signatures:threads", f"{where}: on the empty store it stored the blobs {r['blobs_after']}, the full run "
                          f"stores {cold_control['blobs_after']}", (hname, i)))

    H, Hc, H2, C2, refHc, refC2 = (res[k] for k in ("H", "Hc", "H2", "C2", "refHc", "refC2"))
    # the control histories themselves: full evaluations of a pipeline with threads return what plain execution returns
    for hname, ctl, ref in (("Hc", Hc, refHc), ("C2", C2, refC2)):
        for i, (a, r, rr) in enumerate(zip(hs[hname], ctl, ref)):
            if r["out"] != rr["out"] or r.get("loads", []) != rr.get("loads", []):
                v.append(("full-run-wrong:threads", f"{scen}; control history {hname} action {i} (no restricted run): returned {r['out'][:80]} "
                          f"{r.get('loads', '')}, plain execution gives {rr['out'][:80]} {rr.get('loads', '')}", (hname, i)))
    # H: restricted, restricted, full, full on an empty store
    restricted("H", 0, H[0], refHc[0]["out"], cold_control=Hc[0])
    restricted("H", 1, H[1], refHc[0]["out"])
    for i, j in ((2, 0), (3, 1)):
        if H[i]["out"] != Hc[j]["out"] or H[i]["paths_after"] != Hc[j]["paths_after"]:
            v.append(("restricted-run-perturbs:threads", f"{scen}; history H action {i}: the full evaluation after the restricted runs returns "
                      f"{H[i]['out'][:80]} and leaves the paths {H[i]['paths_after']}; without the restricted runs: {Hc[j]['out'][:80]}, "
                      f"{Hc[j]['paths_after']}", ("H", i)))
        if H[i]["out"] != refHc[j]["out"]:
            v.append(("wrong-after-restricted:threads", f"{scen}; history H action {i}: the full evaluation after the restricted runs returns "
                      f"{H[i]['out'][:80]} instead of {refHc[j]['out'][:80]}", ("H", i)))
    # H2: full, loads, setvar, restricted, loads, full, loads   vs   C2: full, setvar, full, loads
    restricted("H2", 3, H2[3], refC2[2]["out"])
    if H2[4]["loads"] != H2[1]["loads"]:
        v.append(("dry-run-impure:paths-moved:threads", f"{scen}; history H2 (full run, {pl['setvar']['name']} := {pl['setvar']['value']}, restricted "
                  f"run): dds.load of {[st['path'] for st in pl['prog']['steps']]} gave {H2[1]['loads']} before the restricted run and "
                  f"{H2[4]['loads']} after it", ("H2", 4)))
    if H2[5]["out"] != C2[2]["out"] or H2[5]["paths_after"] != C2[2]["paths_after"] or H2[6]["loads"] != C2[3]["loads"]:
        v.append(("restricted-run-perturbs:threads", f"{scen}; history H2 action 5: the full evaluation after (full run, variable reassigned, "
                  f"restricted run) returns {H2[5]['out'][:80]}, paths {H2[5]['paths_after']}, loads {H2[6]['loads']}; without the restricted "
                  f"run: {C2[2]['out'][:80]}, {C2[2]['paths_after']}, {C2[3]['loads']}", ("H2", 5)))
    if H2[5]["out"] != refC2[2]["out"] or H2[6]["loads"] != refC2[3]["loads"]:
        v.append(("wrong-after-restricted:threads", f"{scen}; history H2 action 5: the full evaluation after the restricted run returns "
                  f"{H2[5]['out'][:80]}, loads {H2[6]['loads']} instead of {refC2[2]['out'][:80]}, {refC2[3]['loads']}", ("H2", 5)))
    for hname in ("H", "Hc", "H2", "C2"):
        if res[hname][-1].get("in_eval_at_end"):
            v.append(("evaluation-left-open:threads", f"{scen}; history {hname}: after the last action dds still refuses a new evaluation "
                      f"({res[hname][-1]['in_eval_at_end']})", (hname, len(res[hname]) - 1)))
    return v


def ran_elsewhere(res):
    """Did kept steps really execute on another thread than the caller of dds.eval (non-triviality of the plan)?"""
    return any(k == "other" for h in ("H", "Hc") for r in res[h] for _, k in r["log"])


def plans_for(tier, seed, proof_ok):
    quick = tier == "quick" and proof_ok
    plans = []
    for i in range(10 if quick else 60):
        s = seed * 1000 + 500 + i
        # every pipeline under an analysis-only prefix and under a prefix that stops before path_commit; all five in thorough
        ns = [i % 3, 3 + i % 2] if quick else [0, 1, 2, 3, 4]
        plans += [plan(s, n, i) for n in ns]
    return plans


def run(rep, tier, seed, proof_ok, rng):
    plans = plans_for(tier, seed, proof_ok)
    results = run_all(plans)
    dist = {"pipelines": len(set(pl["seed"] for pl in plans)), "plans": len(plans), "by_number_of_stages": {}, "by_placement": {}, "by_store": {},
            "by_calling_thread": {}, "with_load_of_a_path_of_the_same_evaluation": 0, "kept_steps_ran_on_another_thread": 0}
    for pl, res in zip(plans, results):
        places = sorted(set((("parallel-" + pl["prog"]["par_kind"]) if st["place"] == "par" else st["place"]) for st in pl["prog"]["steps"]))
        if "error" in res:
            rep.case(f"threads:{pl['seed']}:{pl['n']}", nontrivial=False)
            rep.violation("harness-error:c15-threads", "threaded history could not be run: " + res["error"][-300:], {"tplan": pl}, no_input=True)
            continue
        elsewhere = ran_elsewhere(res)
        rep.case(f"threads:{pl['seed']}:{pl['n']}:{pl['store']}:{pl['caller']}:{'+'.join(places)}", nontrivial=elsewhere)
        dist["by_number_of_stages"][pl["n"]] = dist["by_number_of_stages"].get(pl["n"], 0) + 1
        dist["by_store"][pl["store"]] = dist["by_store"].get(pl["store"], 0) + 1
        dist["by_calling_thread"][pl["caller"]] = dist["by_calling_thread"].get(pl["caller"], 0) + 1
        for p in places:
            dist["by_placement"][p] = dist["by_placement"].get(p, 0) + 1
        dist["with_load_of_a_path_of_the_same_evaluation"] += any(st["loads"] for st in pl["prog"]["steps"])
        dist["kept_steps_ran_on_another_thread"] += elsewhere
        for key, what, (hname, i) in check(pl, res):
            rep.violation(key, what, {"tplan": pl, "history": hname, "action": i, "actions": histories(pl)[hname],
                                      "source": source(pl["prog"]), "observed": res[hname][i]})
    rep.extra["thread_part"] = dist
    if plans:
        rep.sample({"threads": describe(plans[0]["prog"]), "stages": plans[0]["stages"], "store": plans[0]["store"]})
    return dist


def replay(r):
    pl = r["tplan"]
    res = run_all([pl])[0]
    if "error" in res:
        print(res["error"])
        return 2
    v = check(pl, res)
    for key, what, where in v:
        print(json.dumps({"key": key, "what": what, "where": where}))
    print("REPRODUCED" if v else "not reproduced")
    return 1 if v else 0
