"""C19 - the DBFS store honours its commit type and keeps legacy blobs readable."""
import concurrent.futures as cf
import itertools
import json
import os
import random
import shutil
import tempfile

import common as C

COQ_FILES = ("L5_Stores/Dbfs.v", "L5_Stores/DbfsProofs.v", "L5_Stores/DbfsHist.v", "L5_Stores/DbfsHistProofs.v", "Properties/C19.v", "Properties/C19b.v")
PROPERTY_FILES = ("C19", "C19b")
PRELUDE = """From Coq Require Import List String.
From DDS Require Import Base.Bytes L4_Eval.Store L5_Stores.Dbfs L5_Stores.DbfsHist.
Import ListNotations.
Definition S0 ct := DStore (bs "dbfs:/s/internal") (bs "dbfs:/s/data") ct.
"""
EXTRACTED = ("ConstDbfs",)
ALLOWED_AXIOMS = ()

MOD = '''KIND = "str"
SALT = "s0"

def f():
    if KIND == "str":
        return "text-é-" + SALT
    if KIND == "bytes":
        return b"\\x00bytes\\xff" + SALT.encode()
    if KIND == "none":
        return None
    return {"obj": [1, SALT]}
'''
DOCUMENTED = ["full", "links_only", "none", None, "FULL", "Links_Only"]
ENUM_NAMES = ["no_commit", "link_only"]      # the names of the enum members, accepted as well
LEGACY = [("dbfs.string", "string"), ("dbfs.bytes", "bytes"), ("dbfs.pickle", "pickle"),
          ("local.string", "string"), ("local.bytes", "bytes"), ("local.pickle", "pickle")]


def value_of(kind, salt):
    return {"str": repr("text-é-" + salt), "bytes": repr(b"\x00bytes\xff" + salt.encode()), "none": "None", "obj": repr({"obj": [1, salt]})}[kind]


def raw_of(kind, salt):
    if kind == "str":
        return ("text-é-" + salt).encode("utf-8").hex()
    if kind == "bytes":
        return (b"\x00bytes\xff" + salt.encode()).hex()
    return None


def run_case(case):
    base = tempfile.mkdtemp(prefix="c19_", dir=C.scratch_dir())
    try:
        open(os.path.join(base, "dbfsmod.py"), "w").write(MOD)
        return {"case": case, "out": C.run_driver("drive_dbfs.py", {"base": base, "commit_type": case["commit_type"], "steps": case["steps"]})}
    except Exception as e:  # noqa
        return {"case": case, "error": str(e)[-400:]}
    finally:
        shutil.rmtree(base, ignore_errors=True)


SEGS = ["x", "y", "d", "e", "p.q", "_dds_metax", "r s", "é"]
KEYS = ["%064x" % (0xabc0 + i) for i in range(6)]


def gen_history(rng, ct):
    """Blobs (write-once contents, now and then an overwrite), multi-path commits sharing keys between paths, commits of keys
    without a blob (the call raises under 'full'); first segments are never the reserved directory name (finding F35)."""
    paths = []
    for _ in range(rng.randint(2, 6)):
        paths.append("/" + "/".join(rng.choice(SEGS) for _ in range(rng.randint(1, 3))))
    paths = sorted(set(paths))
    content = {}
    ops = []
    have = []
    for _ in range(rng.randint(3, 10)):
        r = rng.random()
        if r < 0.35 or not have:
            k = rng.choice(KEYS)
            if k not in content or rng.random() < 0.1:
                content[k] = ("content-é-%d" % rng.randrange(1000)).encode("utf-8").hex()
            ops.append(["blob", k, content[k]])
            if k not in have:
                have.append(k)
        else:
            n = rng.randint(1, min(4, len(paths)))
            ps = rng.sample(paths, n)
            pool = have if rng.random() < 0.9 else KEYS
            ops.append(["sync", [[p, rng.choice(pool)] for p in ps]])
    return {"commit_type": ct, "hist": ops, "paths": paths}


def coq_history(h):
    ctc = {"FULL": "CFull", "LINK_ONLY": "CLink", "NO_COMMIT": "CNone"}[expected_mode(h["commit_type"])]
    ops = []
    for op in h["hist"]:
        if op[0] == "blob":
            ops.append(f'DBlob {C.hexs(op[1])} (hx "{op[2]}")')
        else:
            items = "; ".join("([" + "; ".join(C.hexs(seg) for seg in p.strip("/").split("/")) + f"], {C.hexs(k)})" for p, k in op[1])
            ops.append(f"DSync [{items}]")
    return f"run_show (S0 {ctc}) [" + "; ".join(ops) + "]"


def check_histories(rep, rng, n):
    hs = [gen_history(rng, rng.choice(["full", "links_only", "none"])) for _ in range(n)]
    # targeted: a path whose record is up to date followed, in one call, by a new path committed to the same key
    k0, k1 = KEYS[0], KEYS[1]
    c0, c1 = b"zero".hex(), b"one".hex()
    for ct in ("full", "links_only"):
        hs.append({"commit_type": ct, "paths": ["/out/report", "/latest/report", "/z"],
                   "hist": [["blob", k0, c0], ["sync", [["/out/report", k0]]], ["sync", [["/out/report", k0], ["/latest/report", k0]]],
                            ["blob", k1, c1], ["sync", [["/z", k1], ["/out/report", k1], ["/latest/report", k0]]]]})

    def one(h):
        base = tempfile.mkdtemp(prefix="c19h_", dir=C.scratch_dir())
        try:
            open(os.path.join(base, "dbfsmod.py"), "w").write(MOD)
            return C.run_driver("drive_dbfs.py", {"base": base, "commit_type": h["commit_type"], "steps": [{"hist": h["hist"], "fetch": h["paths"]}]})
        except Exception as e:  # noqa
            return {"error": str(e)[-400:]}
        finally:
            shutil.rmtree(base, ignore_errors=True)
    with cf.ThreadPoolExecutor(max_workers=C.NPROC) as ex:
        res = list(ex.map(one, hs))
    model = C.coq_eval_strings(PRELUDE, [coq_history(h) for h in hs], label="c19h")
    n_multi = n_raise = 0
    for h, r, m in zip(hs, res, model):
        rep.case("history:" + json.dumps(h)[:400], nontrivial=any(op[0] == "sync" and len(op[1]) > 1 for op in h["hist"]))
        if isinstance(r, dict):
            rep.violation("harness-error:c19h", r["error"][-300:], {"history": h}, no_input=True)
            continue
        o = r[1]
        n_multi += sum(1 for op in h["hist"] if op[0] == "sync" and len(op[1]) > 1)
        n_raise += o["oks"].count("0")
        moks, _, mfs = m.partition("|")
        mfiles = dict(e.split("=") for e in mfs.split(";") if e)
        ifiles = {k.encode("utf-8").hex(): v for k, v in o["files"].items()}
        if moks != o["oks"]:
            rep.violation("model-mismatch:dbfs-call-outcomes", f"history under {h['commit_type']}: calls completed {o['oks']} (1 = returned, 0 = raised), model {moks}",
                          {"history": h, "impl": o["oks"], "model": moks})
        if mfiles != ifiles:
            diff = sorted(set(mfiles.items()) ^ set(ifiles.items()))[:3]
            rep.violation("model-mismatch:dbfs-files", f"history under {h['commit_type']}: the file system differs from the model at "
                          f"{[bytes.fromhex(k).decode('utf-8', 'replace') for k, _ in diff]}", {"history": h, "impl": o["files"], "model": mfiles})
        # the property itself, on histories where every call completed: dictionary semantics, copies, nothing else
        seen_content = {}
        write_once = all(seen_content.setdefault(op[1], op[2]) == op[2] for op in h["hist"] if op[0] == "blob")
        if "0" in o["oks"] or not write_once:
            continue            # not an admissible history (hist_ok): only the comparison with the model applies
        mode = expected_mode(h["commit_type"])
        want, blobs = {}, {}
        for op in h["hist"]:
            if op[0] == "blob":
                blobs[op[1]] = op[2]
            else:
                for p, k in op[1]:
                    want[p] = (k, blobs.get(k))
        for p in h["paths"]:
            got = o["fetched"].get(p)
            rec, obj = "dbfs:/s/data/_dds_meta" + p, "dbfs:/s/data" + p
            if mode == "NO_COMMIT" or p not in want:
                if not str(got).startswith("!") or rec in o["files"] or obj in o["files"]:
                    rep.violation("history:uncommitted-path-visible", f"{p} was never committed under {mode} but is readable / has files", {"history": h, "path": p, "out": o})
                continue
            k, content = want[p]
            if got != k:
                rep.violation("history:record-missing-or-stale:" + mode, f"after the history {p} should be committed to {k[-4:]}, fetch_paths gives {str(got)[-12:]}",
                              {"history": h, "path": p, "out": o})
            if mode == "FULL" and o["files"].get(obj) != content:
                rep.violation("history:full-copy-missing-or-stale", f"no byte-identical copy of the result at {obj}", {"history": h, "path": p, "out": o})
            if mode == "LINK_ONLY" and obj in o["files"]:
                rep.violation("history:links-only-copies-data", f"links-only commit wrote {obj}", {"history": h, "path": p, "out": o})
    return {"histories": len(hs), "multi_path_commits": n_multi, "calls_that_raised": n_raise}


def check_findings(rep):
    """The two hypotheses the history proofs need and the code does not enforce (theorems C19b_*_refuted), on the real store."""
    k0, k1 = KEYS[0], KEYS[1]
    c0, c1 = b"zero".hex(), b"one".hex()
    base = tempfile.mkdtemp(prefix="c19f_", dir=C.scratch_dir())
    try:
        open(os.path.join(base, "dbfsmod.py"), "w").write(MOD)
        # F35: a path under the reserved directory name, commit type full
        h = [["blob", k0, c0], ["blob", k1, c1], ["sync", [["/x", k0]]], ["sync", [["/_dds_meta/x", k1]]]]
        o = C.run_driver("drive_dbfs.py", {"base": base, "commit_type": "full", "steps": [{"hist": h, "fetch": ["/x", "/_dds_meta/x"]}]})[1]
        rep.case("reserved-directory-as-first-segment")
        if o["fetched"].get("/x") != k0:
            rep.violation("reserved-directory:record-destroyed", f"full commit of /_dds_meta/x after /x: fetch_paths(/x) gives {o['fetched'].get('/x')}",
                          {"history": {"commit_type": "full", "hist": h, "paths": ["/x", "/_dds_meta/x"]}})
        # F36: links only, then the same directories with full
        h1 = [["blob", k0, c0], ["sync", [["/x", k0]]]]
        h2 = [["sync", [["/x", k0]]]]
        o = C.run_driver("drive_dbfs.py", {"base": base, "commit_type": "links_only", "steps": [{"hist": h1, "fetch": []}, {"set_commit_type": "full"}, {"hist": h2, "fetch": ["/x"]}]})[3]
        rep.case("links-only-then-full")
        if o["files"].get("dbfs:/s/data/x") != c0:
            rep.violation("links-then-full:no-copy", "a path committed under links-only and committed again, unchanged, under full has no copy in the data directory",
                          {"steps": [{"hist": h1}, {"set_commit_type": "full"}, {"hist": h2}], "files": o["files"]})
    finally:
        shutil.rmtree(base, ignore_errors=True)


def expected_mode(ct):
    n = (ct or "full").lower()
    return {"full": "FULL", "links_only": "LINK_ONLY", "link_only": "LINK_ONLY", "none": "NO_COMMIT", "no_commit": "NO_COMMIT"}[n]


def run(rep, tier, seed, proof_ok):
    rng = random.Random(seed)
    rep.rule = ("the real DBFSStore over an in-process fake of dbutils.fs: every documented commit type (and spelling) through dds.set_store x "
                "operation sequences (keep of str / bytes / None / object results at paths with 1..3 segments, re-keep with changed "
                "code, re-keep with the code reverted, load) - checks: keep returns the plain value; 'full' leaves a byte-identical copy of each result plus a redirect "
                "record, 'links only' only the record, 'none' nothing; load works iff the record exists; and blobs whose metadata names "
                "a legacy or current codec reference decode with the codec of that kind, also when a path is committed to them under each commit type; "
                "+ store-level histories (blobs, sync_paths calls with 1..4 paths sharing keys, keys without blob) compared file for file and call "
                "outcome for call outcome with the Coq model drun, and against the dictionary semantics; distinct = distinct case")
    cases = []
    kinds = ["str", "bytes", "none", "obj"]
    for ct in DOCUMENTED + ENUM_NAMES:
        for _ in range(2 if tier == "quick" else 8):
            steps = []
            paths = rng.sample(["/p", "/d/q", "/d/e/r", "/t"], 3)
            plan = []
            for p in paths:
                k = rng.choice(kinds)
                steps.append({"keep": [p, k, "s0"]})
                plan.append((p, k, "s0"))
            p0, k0, _ = plan[0]
            steps.append({"keep": [p0, k0, "s1"]})
            plan[0] = (p0, k0, "s1")
            if len(cases) % 2 == 0:
                # ... and back: the path returns to a signature it was committed with before (same store object)
                steps.append({"keep": [p0, k0, "s0"]})
                plan[0] = (p0, k0, "s0")
                p1, k1, _ = plan[1]
                steps.append({"keep": [p1, k1, "s2"]})
                steps.append({"keep": [p1, k1, "s0"]})
            for p, _, _ in plan:
                steps.append({"load": p})
            steps.append({"listing": True})
            cases.append({"commit_type": ct, "steps": steps, "plan": plan})
    cases.append({"commit_type": "full", "steps": [{"legacy": [f"abc{i}", ref, kind]} for i, (ref, kind) in enumerate(LEGACY)], "plan": [], "legacy": True})
    # paths committed to legacy blobs under every commit type
    for ct in ("full", "links_only", "none"):
        cases.append({"commit_type": ct, "plan": [], "legacy_sync": True,
                      "steps": [{"legacy_sync": [f"def{i}", ref, kind, f"/leg/p{i}"]} for i, (ref, kind) in enumerate(LEGACY)] + [{"listing": True}]})
    with cf.ThreadPoolExecutor(max_workers=C.NPROC) as ex:
        res = list(ex.map(run_case, cases))
    for r in res:
        c = r["case"]
        rep.case(json.dumps({"commit_type": c["commit_type"], "plan": c["plan"], "legacy": c.get("legacy", False)}))
        if "error" in r:
            rep.violation("harness-error:c19", r["error"][-300:], r, no_input=True)
            continue
        out = r["out"]
        replay = {"case": c, "out": out}
        if c.get("legacy_sync"):
            listing = out[-1]["data_files"] if isinstance(out[-1], dict) else {}
            mode = expected_mode(c["commit_type"])
            raw = {"string": "legacy-text".encode("utf-8").hex(), "bytes": b"\x00legacy\xff".hex()}
            for i, ((ref, kind), o) in enumerate(zip(LEGACY, out[1:-1])):
                obj, rec = f"dbfs:/s/data/leg/p{i}", f"dbfs:/s/data/_dds_meta/leg/p{i}"
                if mode == "NO_COMMIT":
                    if str(o).startswith("S:equal") or str(o).startswith("S:DIFFERENT") or obj in listing or rec in listing:
                        rep.violation("legacy-commit:none", f"commit type none with a legacy blob ({ref}): {str(o)[:60]}, files written: {obj in listing or rec in listing}", dict(replay, ref=ref))
                    continue
                if o != "S:equal":
                    rep.violation(f"legacy-commit:{mode}:{ref}", f"a path committed to a blob whose metadata names {ref} under {mode}: {str(o)[:80]}", dict(replay, ref=ref))
                if rec not in listing:
                    rep.violation("record-missing:" + mode, f"no redirect record for a path committed to a legacy blob ({ref})", dict(replay, ref=ref))
                if mode == "FULL" and kind in raw and listing.get(obj) != raw[kind]:
                    rep.violation("full-copy-not-identical", f"the copy of a legacy {kind} blob ({ref}) at {obj} is missing or not byte-identical", dict(replay, ref=ref))
                if mode == "LINK_ONLY" and obj in listing:
                    rep.violation("links-only-copies-data", f"links-only commit wrote the data file {obj}", dict(replay, ref=ref))
            continue
        if c.get("legacy"):
            for (ref, kind), o in zip(LEGACY, out[1:]):
                if o != "G:equal":
                    rep.violation(f"legacy-codec:{ref}", f"a blob whose metadata names {ref} is not decoded as {kind}: {o[:80]}", dict(replay, ref=ref))
            continue
        if not out[0].startswith("U:"):
            rep.violation(f"commit-type-rejected:{c['commit_type']}", f"documented commit type {c['commit_type']!r} is not accepted: {out[0][:80]}", replay)
            continue
        mode = out[0][2:]
        if mode != expected_mode(c["commit_type"]):
            rep.violation(f"commit-type-wrong:{c['commit_type']}", f"commit type {c['commit_type']!r} gives mode {mode}", replay)
        # keeps
        nk = sum(1 for s in c["steps"] if "keep" in s)
        for s, o in zip([s for s in c["steps"] if "keep" in s], out[1:1 + nk]):
            want = "V:" + value_of(s["keep"][1], s["keep"][2])
            if o != want:
                rep.violation("keep-wrong:" + mode, f"keep returned {o[:60]} instead of {want[:60]} under {mode}", replay)
        loads = out[1 + nk: 1 + nk + len(c["plan"])]
        listing = out[-1]["data_files"] if isinstance(out[-1], dict) else {}
        for (p, k, salt), o in zip(c["plan"], loads):
            rec = "dbfs:/s/data/_dds_meta" + p
            obj = "dbfs:/s/data" + p
            if mode == "NO_COMMIT":
                if rec in listing or obj in listing:
                    rep.violation("none-writes-files", f"commit type none wrote {rec if rec in listing else obj}", replay)
                if not o.startswith("X:") and not o.startswith("E:"):
                    rep.violation("none-load-works", f"load returned {o[:40]} although nothing was committed", replay)
                continue
            if rec not in listing:
                rep.violation("record-missing:" + mode, f"no redirect record for {p} under {mode}", replay)
            if o != "L:" + value_of(k, salt):
                rep.violation("load-wrong:" + mode, f"load({p}) returned {o[:60]} instead of {value_of(k, salt)[:60]} under {mode}", replay)
            if mode == "FULL":
                raw = raw_of(k, salt)
                if obj not in listing:
                    rep.violation("full-copy-missing", f"no copy of the result at {obj}", replay)
                elif raw is not None and listing[obj] != raw:
                    rep.violation("full-copy-not-identical", f"the copy at {obj} is not byte-identical to the result", replay)
            if mode == "LINK_ONLY" and obj in listing:
                rep.violation("links-only-copies-data", f"links-only commit wrote the data file {obj}", replay)
    check_findings(rep)
    hd = check_histories(rep, rng, 40 if tier == "quick" and proof_ok else 600)
    rep.extra["input_distribution"] = {"store_level_histories": hd, "cases": len(cases), "commit_types": [str(x) for x in DOCUMENTED + ENUM_NAMES], "legacy_references": [x[0] for x in LEGACY]}
    rep.sample({"commit_type": cases[0]["commit_type"], "plan": cases[0]["plan"]})


def replay(path):
    r = json.load(open(path))["replay"]
    if "history" in r:
        h = r["history"]
        base = tempfile.mkdtemp(prefix="c19h_", dir=C.scratch_dir())
        open(os.path.join(base, "dbfsmod.py"), "w").write(MOD)
        print(json.dumps(C.run_driver("drive_dbfs.py", {"base": base, "commit_type": h["commit_type"], "steps": [{"hist": h["hist"], "fetch": h["paths"]}]}), indent=1)[:3000])
        print("model:", C.coq_eval_strings(PRELUDE, [coq_history(h)], label="c19r")[0][:1500])
        shutil.rmtree(base, ignore_errors=True)
        return 1
    print(json.dumps(run_case(r["case"]).get("out"), indent=1)[:3000])
    return 1
