"""C19 - the DBFS store honours its commit type and keeps legacy blobs readable."""
import concurrent.futures as cf
import itertools
import json
import os
import random
import shutil
import tempfile
import time
import unicodedata

import common as C

COQ_FILES = ("L5_Stores/Dbfs.v", "L5_Stores/DbfsProofs.v", "L5_Stores/DbfsHist.v", "L5_Stores/DbfsHistProofs.v", "L5_Stores/DbfsSteps.v", "L5_Stores/DbfsStepsProofs.v", "Properties/C19.v", "Properties/C19b.v", "Properties/C19c.v")
PROPERTY_FILES = ("C19", "C19b", "C19c")
PRELUDE = """From Coq Require Import List String.
From DDS Require Import Base.Bytes L4_Eval.Store L5_Stores.Dbfs L5_Stores.DbfsHist.
Import ListNotations.
Definition S0 ct := DStore (bs "dbfs:/s/internal") (bs "dbfs:/s/data") ct.
"""
EXTRACTED = ("ConstDbfs",)
ALLOWED_AXIOMS = ()

MOD = '''KIND = "str"
SALT = "s0"

def f():
    if KIND == "str":
        return "text-é-" + SALT
    if KIND == "bytes":
        return b"\\x00bytes\\xff" + SALT.encode()
    if KIND == "none":
        return None
    return {"obj": [1, SALT]}
'''
DOCUMENTED = ["full", "links_only", "none", None, "FULL", "Links_Only"]
ENUM_NAMES = ["no_commit", "link_only"]      # the names of the enum members, accepted as well
LEGACY = [("dbfs.string", "string"), ("dbfs.bytes", "bytes"), ("dbfs.pickle", "pickle"),
          ("local.string", "string"), ("local.bytes", "bytes"), ("local.pickle", "pickle")]


def value_of(kind, salt):
    return {"str": repr("text-é-" + salt), "bytes": repr(b"\x00bytes\xff" + salt.encode()), "none": "None", "obj": repr({"obj": [1, salt]})}[kind]


def raw_of(kind, salt):
    if kind == "str":
        return ("text-é-" + salt).encode("utf-8").hex()
    if kind == "bytes":
        return (b"\x00bytes\xff" + salt.encode()).hex()
    return None


def run_case(case):
    base = tempfile.mkdtemp(prefix="c19_", dir=C.scratch_dir())
    try:
        open(os.path.join(base, "dbfsmod.py"), "w").write(MOD)
        return {"case": case, "out": C.run_driver("drive_dbfs.py", {"base": base, "commit_type": case["commit_type"], "steps": case["steps"]})}
    except Exception as e:  # noqa
        return {"case": case, "error": str(e)[-400:]}
    finally:
        shutil.rmtree(base, ignore_errors=True)


SEGS = ["x", "y", "d", "e", "p.q", "_dds_metax", "r s", "é"]
KEYS = ["%064x" % (0xabc0 + i) for i in range(6)]


# --------------------------------------------------------------------------- the alphabet of path segments
# A dds path is any sequence of non-empty '/'-free segments other than '.' and '..' (dds.store.path_segments).  The store has to keep apart
# paths that differ in any byte: record and copy of a path live at <data_dir>[/_dds_meta]/<segments joined by '/'>, byte for byte (Coq:
# redir_uri / obj_uri).  seg_variants(s) are the neighbours of a segment s that a URI parser, a URL quoting routine, posix path handling
# (pathlib normalisation, suffix / stem arithmetic, strip / rstrip, globbing, '~' expansion) or text handling (case folding, unicode
# normalisation, white space and line handling) may identify with s or with one another.
STEMS = ["x", "rep", "p.q", "é", "r s", "_dds_meta"]
RESERVED = "_dds_meta"
FKEYS = ["%08x" % (0xfab00 + i) for i in range(16)]        # short keys: the model evaluation is linear in the bytes


def seg_variants(s):
    """[(class, segment)]: every segment differs from s and from the other ones, none is '.', '..' or contains '/'."""
    out = [("uri-query", s + "?"), ("uri-query", s + "?q=1"), ("uri-query", "?" + s), ("uri-query", s + "?#"), ("uri-query", "?"),
           ("uri-fragment", s + "#"), ("uri-fragment", s + "#frag"), ("uri-fragment", "#" + s), ("uri-fragment", "#"),
           ("percent", s + "%"), ("percent", s + "%20"), ("percent", s + "%3F"), ("percent", s + "%2F"), ("percent", s + "%25"), ("percent", "%"),
           ("space", s + " "), ("space", " " + s), ("space", s + " " + s), ("space", " "),
           ("uri-delimiter", s + "+"), ("uri-delimiter", s + "+" + s), ("uri-delimiter", s + "&"), ("uri-delimiter", s + "="), ("uri-delimiter", s + ";"),
           ("uri-delimiter", s + ";v=1"), ("uri-delimiter", s + ":"), ("uri-delimiter", s + ":80"), ("uri-delimiter", s + "@"), ("uri-delimiter", s + "@h"),
           ("uri-delimiter", s + ","), ("uri-delimiter", s + "!"), ("uri-delimiter", s + "$"), ("uri-delimiter", s + "|"),
           ("dots", s + "."), ("dots", s + ".."), ("dots", "." + s), ("dots", ".." + s), ("dots", "..."),
           ("suffix", s + ".csv"), ("suffix", s + ".json"), ("suffix", s + ".tar"), ("suffix", s + ".tar.gz"), ("suffix", s + ".meta"), ("suffix", s + ".csv.json"),
           ("tilde", s + "~"), ("tilde", "~" + s), ("tilde", "~"),
           ("glob", s + "*"), ("glob", "*"), ("glob", s + "[0]"), ("glob", s + "{a,b}"),
           ("backslash-quote", s + "\\"), ("backslash-quote", s + "\\" + s), ("backslash-quote", s + "'"), ("backslash-quote", s + '"'),
           ("control", s + "\t"), ("control", s + "\n"), ("control", s + "\r"), ("control", s + "\r\n"), ("control", "\t" + s), ("control", s + "\t" + s),
           ("prefix", s + s), ("prefix", s + "_"), ("prefix", s + "0"),
           ("unicode", unicodedata.normalize("NFC", s + "ü")), ("unicode", unicodedata.normalize("NFD", s + "ü")), ("unicode", s + "\u00a0"), ("unicode", s + "\u200b"),
           ("unicode", s + "\u2028"), ("unicode", s + "ß"), ("unicode", s + "ss")]
    if s.swapcase() != s:
        out.append(("case", s.swapcase()))
    if s.capitalize() not in (s, s.swapcase()):
        out.append(("case", s.capitalize()))
    segs = [v for _, v in out]
    assert len(set(segs)) == len(segs) and s not in segs and not any(v in ("", ".", "..") or "/" in v for v in segs), s
    return out


N_VARIANTS = max(len(seg_variants(st)) for st in STEMS)
CLASSES = sorted(set(c for c, _ in seg_variants("x")))


def gen_family(rng, stem=None, variants=None, n=None, tail=None):
    """Paths that differ in one segment only: parent segments + (the stem | one of its variants) + tail segments; the variable segment is the
    last one, a directory, or the first one.  ({path: class}, position); the path of the stem itself has class 'stem' (left out where it
    would be the reserved first segment, finding F35)."""
    stem = stem if stem is not None else rng.choice(STEMS)
    if variants is None:
        variants = rng.sample(seg_variants(stem), n or rng.randint(2, 5))
    parent = [rng.choice(SEGS) for _ in range(rng.choice([0, 1, 1, 1, 2]))]
    tail = [rng.choice(SEGS) for _ in range(rng.choice([0, 0, 0, 1]) if tail is None else tail)]
    fam = {}
    for cls, seg in [("stem", stem)] + list(variants):
        if not parent and seg == RESERVED:
            continue
        fam["/" + "/".join(parent + [seg] + tail)] = cls
    return fam, ("only" if not parent and not tail else "first" if not parent else "last" if not tail else "directory")


def gen_family_history(rng, ct, fam_pos):
    """An admissible history (every blob first, written once) over a family of paths: one call commits all of them to keys of their own, then
    single paths move to a spare key or to the key of a sibling, and a last call commits every path again to the key it has (nothing to write)."""
    fam, pos = fam_pos
    paths = list(fam)
    rng.shuffle(paths)
    keys = FKEYS[:len(paths) + 2]
    assert len(keys) == len(paths) + 2, "family too large"
    ops = [["blob", k, ("content-é-%s" % k[-3:]).encode("utf-8").hex()] for k in keys]
    cur = dict(zip(paths, keys))
    if rng.random() < 0.7:
        ops.append(["sync", [[p, cur[p]] for p in paths]])
    else:
        ops += [["sync", [[p, cur[p]]]] for p in paths]
    for _ in range(rng.randint(1, 3)):
        ps = rng.sample(paths, rng.randint(1, min(2, len(paths))))
        for p in ps:
            cur[p] = rng.choice(keys[-2:] + [cur[q] for q in paths if q != p])
        ops.append(["sync", [[p, cur[p]] for p in ps]])
    if rng.random() < 0.7:
        rng.shuffle(paths)
        ops.append(["sync", [[p, cur[p]] for p in paths]])
    return {"commit_type": ct, "hist": ops, "paths": sorted(paths), "family": fam, "variable_segment": pos, "admissible": True}


def family_histories(rng, tier):
    """Quick: every variant (of a stem drawn per family) once as last segment, the families alternately under 'full' and 'links_only', one
    family under 'none', and random families (variable segment anywhere).  Thorough: every variant of every stem as last segment, of two
    stems as a directory, under the three commit types, and many random families."""
    hs = []

    def sweep(ct, stem, tail, limit=None):
        order = list(range(N_VARIANTS))
        rng.shuffle(order)
        for n, i in enumerate(range(0, len(order[:limit]), 8)):
            st = stem or rng.choice(STEMS)
            sv = seg_variants(st)
            ct_ = ct if isinstance(ct, str) else ct[n % len(ct)]
            hs.append(gen_family_history(rng, ct_, gen_family(rng, st, [sv[j] for j in order[:limit][i:i + 8] if j < len(sv)], tail=tail)))
    if tier == "quick":
        sweep(rng.choice([["full", "links_only"], ["links_only", "full"]]), None, 0)
        sweep("none", None, 0, limit=8)
    else:
        for ct in ("full", "links_only", "none"):
            for stem in STEMS:
                sweep(ct, stem, 0)
            for stem in rng.sample(STEMS, 2):
                sweep(ct, stem, 1)
    for _ in range(5 if tier == "quick" else 150):
        fam = gen_family(rng)
        if rng.random() < 0.7:
            hs.append(gen_family_history(rng, rng.choice(["full", "full", "links_only", "none"]), fam))
        else:           # any history over these paths (overwritten blobs, keys without blob): compared with the model only
            hs.append(dict(gen_history(rng, rng.choice(["full", "links_only"]), sorted(fam[0])), family=fam[0], variable_segment=fam[1]))
    return hs


def alphabet_case(rng, ct, whole):
    """dds.keep / dds.load over a family of paths: every path gets a result of its own (type drawn per path); then (small families) one path
    gets a new result - a sibling stored at the same place would go stale - and one a new result and the former one back; every path is
    loaded and the data directory listed.  whole: the stem and every variant of it, as last segment."""
    stem = rng.choice(STEMS)
    fam, pos = gen_family(rng, stem, seg_variants(stem) if whole else None, tail=0 if whole else None)
    paths = list(fam)
    rng.shuffle(paths)
    plan, steps = {}, []
    for i, p in enumerate(paths):
        plan[p] = (rng.choice(["str", "bytes", "none", "obj"]), "a%d" % i)
        steps.append({"keep": [p, plan[p][0], plan[p][1]]})
    if not whole:
        p = rng.choice(paths)
        plan[p] = (plan[p][0], "b")
        steps.append({"keep": [p, plan[p][0], "b"]})
        q = rng.choice(paths)
        steps.append({"keep": [q, plan[q][0], "c"]})
        steps.append({"keep": [q, plan[q][0], plan[q][1]]})
    steps += [{"load": p} for p in paths] + [{"listing": True}]
    return {"commit_type": ct, "steps": steps, "plan": [(p, plan[p][0], plan[p][1]) for p in paths], "alphabet": fam, "variable_segment": pos}


def gen_history(rng, ct, paths=None):
    """Blobs (write-once contents, now and then an overwrite), multi-path commits sharing keys between paths, commits of keys
    without a blob (the call raises under 'full'); first segments are never the reserved directory name (finding F35)."""
    if paths is None:
        paths = []
        for _ in range(rng.randint(2, 6)):
            paths.append("/" + "/".join(rng.choice(SEGS) for _ in range(rng.randint(1, 3))))
        paths = sorted(set(paths))
    content = {}
    ops = []
    have = []
    for _ in range(rng.randint(3, 10)):
        r = rng.random()
        if r < 0.35 or not have:
            k = rng.choice(KEYS)
            if k not in content or rng.random() < 0.1:
                content[k] = ("content-é-%d" % rng.randrange(1000)).encode("utf-8").hex()
            ops.append(["blob", k, content[k]])
            if k not in have:
                have.append(k)
        else:
            n = rng.randint(1, min(4, len(paths)))
            ps = rng.sample(paths, n)
            pool = have if rng.random() < 0.9 else KEYS
            ops.append(["sync", [[p, rng.choice(pool)] for p in ps]])
    return {"commit_type": ct, "hist": ops, "paths": paths}


def coq_history(h):
    ctc = {"FULL": "CFull", "LINK_ONLY": "CLink", "NO_COMMIT": "CNone"}[expected_mode(h["commit_type"])]
    ops = []
    for op in h["hist"]:
        if op[0] == "blob":
            ops.append(f'DBlob {C.hexs(op[1])} (hx "{op[2]}")')
        else:
            items = "; ".join("([" + "; ".join(C.hexs(seg) for seg in p.strip("/").split("/")) + f"], {C.hexs(k)})" for p, k in op[1])
            ops.append(f"DSync [{items}]")
    return f"run_show (S0 {ctc}) [" + "; ".join(ops) + "]"


def check_histories(rep, rng, n, tier="quick"):
    hs = [gen_history(rng, rng.choice(["full", "links_only", "none"])) for _ in range(n)]
    # the alphabet of path segments: families of paths that differ in one segment only, by a character a URI parser / posix path handling /
    # text handling may drop or rewrite; same comparison (file for file with the model, dictionary semantics)
    hs += family_histories(rng, tier)
    # targeted: a path whose record is up to date followed, in one call, by a new path committed to the same key
    k0, k1 = KEYS[0], KEYS[1]
    c0, c1 = b"zero".hex(), b"one".hex()
    for ct in ("full", "links_only"):
        hs.append({"commit_type": ct, "paths": ["/out/report", "/latest/report", "/z"],
                   "hist": [["blob", k0, c0], ["sync", [["/out/report", k0]]], ["sync", [["/out/report", k0], ["/latest/report", k0]]],
                            ["blob", k1, c1], ["sync", [["/z", k1], ["/out/report", k1], ["/latest/report", k0]]]]})

    def one(h):
        base = tempfile.mkdtemp(prefix="c19h_", dir=C.scratch_dir())
        try:
            open(os.path.join(base, "dbfsmod.py"), "w").write(MOD)
            return C.run_driver("drive_dbfs.py", {"base": base, "commit_type": h["commit_type"], "steps": [{"hist": h["hist"], "fetch": h["paths"]}]})
        except Exception as e:  # noqa
            return {"error": str(e)[-400:]}
        finally:
            shutil.rmtree(base, ignore_errors=True)
    with cf.ThreadPoolExecutor(max_workers=C.NPROC) as ex:
        res = list(ex.map(one, hs))
    model = C.coq_eval_strings(PRELUDE, [coq_history(h) for h in hs], label="c19h")
    # the write-level model (DbfsSteps.v): which dbutils writes each operation makes, in which order
    mtraces = C.coq_eval_strings(PRELUDE.replace("L5_Stores.DbfsHist.", "L5_Stores.DbfsHist L5_Stores.DbfsSteps."),
                                 [coq_history(h).replace("run_show", "run_trace", 1) for h in hs], label="c19t")
    n_multi = n_raise = 0
    n_writes = 0
    fams = [h for h in hs if "family" in h]
    by_class = {}
    for h in fams:
        for c in h["family"].values():
            by_class[c] = by_class.get(c, 0) + 1

    def alpha(h, paths):
        """Suffix of the violation key and of its text when the paths concerned belong to a family: the class of the variable segment."""
        cl = sorted(set(h["family"][p] for p in paths if p in h.get("family", {})) - {"stem"}) or (["stem"] if "family" in h else [])
        if not cl:
            return "", ""
        return ":path-alphabet:" + cl[0], f" [paths of the history that differ in one segment only: {sorted(h['family'])}]"
    for h, r, mt in zip(hs, res, mtraces):
        if isinstance(r, dict):
            continue
        it = r[1].get("traces", [])
        want = mt.split(";") if h["hist"] else []
        n_writes += sum(len(x.split(",")) for x in it if x)
        if it != want:
            k = next((i for i, (a, b) in enumerate(zip(it, want)) if a != b), min(len(it), len(want)))
            dec = lambda t: [w.split(">")[0] + ">" + bytes.fromhex(w.split(">")[1]).decode("utf-8", "replace") for w in t.split(",") if w]
            rep.violation("model-mismatch:dbfs-write-order", f"history under {h['commit_type']}, operation {k} ({json.dumps(h['hist'][k])[:120] if k < len(h['hist']) else '-'}): "
                          f"the store makes the writes {dec(it[k]) if k < len(it) else None}, the write-level model {dec(want[k]) if k < len(want) else None}",
                          {"history": h, "impl_traces": it, "model_traces": want})
    for h, r, m in zip(hs, res, model):
        rep.case("history:" + json.dumps(h)[:400], nontrivial=any(op[0] == "sync" and len(op[1]) > 1 for op in h["hist"]))
        if isinstance(r, dict):
            rep.violation("harness-error:c19h", r["error"][-300:], {"history": h}, no_input=True)
            continue
        o = r[1]
        n_multi += sum(1 for op in h["hist"] if op[0] == "sync" and len(op[1]) > 1)
        n_raise += o["oks"].count("0")
        moks, _, mfs = m.partition("|")
        mfiles = dict(e.split("=") for e in mfs.split(";") if e)
        ifiles = {k.encode("utf-8").hex(): v for k, v in o["files"].items()}
        if moks != o["oks"]:
            rep.violation("model-mismatch:dbfs-call-outcomes", f"history under {h['commit_type']}: calls completed {o['oks']} (1 = returned, 0 = raised), model {moks}",
                          {"history": h, "impl": o["oks"], "model": moks})
        if mfiles != ifiles:
            diff = sorted(set(mfiles.items()) ^ set(ifiles.items()))[:3]
            where = [bytes.fromhex(k).decode('utf-8', 'replace') for k, _ in diff]
            ak, at = alpha(h, [p for p in h["paths"] if any(w.endswith(p) for w in where)])
            rep.violation("model-mismatch:dbfs-files" + ak, f"history under {h['commit_type']}: the file system differs from the model at "
                          f"{where}" + at, {"history": h, "impl": o["files"], "model": mfiles})
        # the property itself, on histories where every call completed: dictionary semantics, copies, nothing else
        seen_content = {}
        write_once = all(seen_content.setdefault(op[1], op[2]) == op[2] for op in h["hist"] if op[0] == "blob")
        if "0" in o["oks"] or not write_once:
            continue            # not an admissible history (hist_ok): only the comparison with the model applies
        mode = expected_mode(h["commit_type"])
        want, blobs = {}, {}
        for op in h["hist"]:
            if op[0] == "blob":
                blobs[op[1]] = op[2]
            else:
                for p, k in op[1]:
                    want[p] = (k, blobs.get(k))
        for p in h["paths"]:
            got = o["fetched"].get(p)
            rec, obj = "dbfs:/s/data/_dds_meta" + p, "dbfs:/s/data" + p
            if mode == "NO_COMMIT" or p not in want:
                if not str(got).startswith("!") or rec in o["files"] or obj in o["files"]:
                    rep.violation("history:uncommitted-path-visible", f"{p} was never committed under {mode} but is readable / has files", {"history": h, "path": p, "out": o})
                continue
            k, content = want[p]
            ak, at = alpha(h, [p])
            if got != k:
                others = [q for q in want if q != p and want[q][0] == got and want[q][0] != k]
                rep.violation("history:record-missing-or-stale:" + mode + ak, f"after the history {p!r} should be committed to {k[-4:]}, fetch_paths gives {str(got)[-12:]}"
                              + (f" (the key committed to {others[0]!r})" if len(others) == 1 else f" (the key committed to one of {others[:4]})" if others else "") + at, {"history": h, "path": p, "out": o})
            if mode == "FULL" and o["files"].get(obj) != content:
                rep.violation("history:full-copy-missing-or-stale" + ak, f"no byte-identical copy of the result at {obj!r}" + at, {"history": h, "path": p, "out": o})
            if mode == "LINK_ONLY" and obj in o["files"]:
                rep.violation("history:links-only-copies-data", f"links-only commit wrote {obj}", {"history": h, "path": p, "out": o})
    return {"histories": len(hs), "multi_path_commits": n_multi, "calls_that_raised": n_raise, "dbutils_writes_compared_with_the_write_level_model": n_writes,
            "path_alphabet": {"family_histories": len(fams), "admissible": sum(1 for h in fams if h.get("admissible")),
                              "paths": sum(len(h["family"]) for h in fams), "paths_by_class_of_the_variable_segment": by_class,
                              "variable_segment_is": {w: sum(1 for h in fams if h["variable_segment"] == w) for w in ("only", "first", "directory", "last")},
                              "by_commit_type": {ct: sum(1 for h in fams if h["commit_type"] == ct) for ct in ("full", "links_only", "none")}}}


def check_findings(rep):
    """The two hypotheses the history proofs need and the code does not enforce (theorems C19b_*_refuted), on the real store."""
    k0, k1 = KEYS[0], KEYS[1]
    c0, c1 = b"zero".hex(), b"one".hex()
    base = tempfile.mkdtemp(prefix="c19f_", dir=C.scratch_dir())
    try:
        open(os.path.join(base, "dbfsmod.py"), "w").write(MOD)
        # F35: a path under the reserved directory name, commit type full
        h = [["blob", k0, c0], ["blob", k1, c1], ["sync", [["/x", k0]]], ["sync", [["/_dds_meta/x", k1]]]]
        o = C.run_driver("drive_dbfs.py", {"base": base, "commit_type": "full", "steps": [{"hist": h, "fetch": ["/x", "/_dds_meta/x"]}]})[1]
        rep.case("reserved-directory-as-first-segment")
        if o["fetched"].get("/x") != k0:
            rep.violation("reserved-directory:record-destroyed", f"full commit of /_dds_meta/x after /x: fetch_paths(/x) gives {o['fetched'].get('/x')}",
                          {"history": {"commit_type": "full", "hist": h, "paths": ["/x", "/_dds_meta/x"]}})
        # F36: links only, then the same directories with full
        h1 = [["blob", k0, c0], ["sync", [["/x", k0]]]]
        h2 = [["sync", [["/x", k0]]]]
        o = C.run_driver("drive_dbfs.py", {"base": base, "commit_type": "links_only", "steps": [{"hist": h1, "fetch": []}, {"set_commit_type": "full"}, {"hist": h2, "fetch": ["/x"]}]})[3]
        rep.case("links-only-then-full")
        if o["files"].get("dbfs:/s/data/x") != c0:
            rep.violation("links-then-full:no-copy", "a path committed under links-only and committed again, unchanged, under full has no copy in the data directory",
                          {"steps": [{"hist": h1}, {"set_commit_type": "full"}, {"hist": h2}], "files": o["files"]})
    finally:
        shutil.rmtree(base, ignore_errors=True)


# --------------------------------------------------------------------------- fault dimension
# A second module, with nested keeps and a load: its plain execution (dds.keep(p, f) = f(), dds.load(p) = the value last kept at p)
# gives every expected value; nothing below is taken from what the store does.
FMOD = '''import dds

KA = "str"
KB = "bytes"
KT = "obj"
SALT = "s0"


def fa():
    if KA == "str":
        return "a-é-" + SALT
    if KA == "bytes":
        return b"\\x00a\\xff" + SALT.encode()
    if KA == "none":
        return None
    return {"a": [1, SALT]}


def fb():
    if KB == "str":
        return "b-é-" + SALT
    if KB == "bytes":
        return b"\\x00b\\xff" + SALT.encode()
    if KB == "none":
        return None
    return {"b": [2, SALT]}


def inner():
    a = dds.keep("/n/a", fa)
    b = dds.keep("/n/d/b", fb)
    if KT == "str":
        return "t-" + repr(a) + repr(b)
    if KT == "bytes":
        return b"\\x00t\\xff" + repr((a, b)).encode()
    return [a, b, SALT]


def top():
    return dds.keep("/n/top", inner)


def user():
    return ["u", dds.load("/n/a"), SALT]
'''
FAULT_MODES = {"head": ["before"], "put": ["before", "after"], "cp": ["before", "after", "torn"], "rm": ["before", "after"]}
FAULT_EXCS = ["error", "kill"]
DATA = "dbfs:/s/data"
BLOBS = "dbfs:/s/internal/blobs/"


class Plain(object):
    """Plain execution of FMOD: the reference the store is compared with."""

    def __init__(self, defaults):
        self.kept = {}
        plain = self

        class Stub(object):
            @staticmethod
            def keep(p, f, *a, **k):
                plain.kept[p] = f(*a, **k)
                return plain.kept[p]

            @staticmethod
            def load(p):
                return plain.kept[p]

            @staticmethod
            def eval(f, *a, **k):
                return f(*a, **k)
        self.g = {"dds": Stub}
        exec(FMOD.replace("import dds\n", ""), self.g)
        self.g.update(defaults)

    def do(self, step):
        self.g.update(step.get("set", {}))
        if "keep" in step:
            return self.g["dds"].keep(step["keep"][0], self.g[step["keep"][1]])
        if "eval" in step:
            return self.g[step["eval"]]()
        return self.kept[step["load"]]


def fault_scenarios(rng, tier):
    """(shape, commit type, payload) for every scenario of the fault sweep.  In each of them the steps after the fault keep again
    every path the faulted step keeps, so the expected final state is the one of the plain execution of prefix + after."""
    kinds = ["str", "bytes", "obj"] + ([] if tier == "quick" else ["none"])
    few, some = (10, 14) if tier == "quick" else (None, None)      # quick: a sample of the faults of the longer scenarios (the first keep: every one)
    out = []

    def add(shape, ct, defaults, prefix, faulted, after, paths, mx=None):
        d = dict({"KA": "str", "KB": "bytes", "KT": "obj", "SALT": "s0"}, **defaults)
        out.append({"shape": shape, "commit_type": ct, "defaults": d, "prefix": prefix, "faulted": faulted, "after": after, "paths": paths,
                    "modes": FAULT_MODES, "excs": FAULT_EXCS, "torn_put": False, "only": None, "max": mx, "seed": rng.randrange(1 << 30)})
    s0, s1 = {"set": {"SALT": "s0"}}, {"set": {"SALT": "s1"}}
    nested_paths = ["/n/top", "/n/a", "/n/d/b"]
    for ct in ("full", "links_only", "none"):
        # a first keep of one result, every value type
        for k in kinds:
            p = rng.choice(["/p", "/d/q", "/d/e/r"])
            st = dict(s0, keep=[p, "fa"])
            add("first-keep", ct, {"KA": k}, [], st, [st], [p])
        k = rng.choice(kinds)
        # the code changed: the path has a record (and a copy) of the previous result
        st0, st1 = dict(s0, keep=["/d/q", "fa"]), dict(s1, keep=["/d/q", "fa"])
        add("keep-after-change", ct, {"KA": k}, [st0], st1, [st1], ["/d/q"], mx=few)
        # nothing changed: the blob is there, the evaluation only reads it back
        add("keep-unchanged", ct, {"KA": k}, [st0], st0, [st0], ["/d/q"], mx=few)
        # the same result kept at a second path: the blob is there, only the path is new
        st2 = dict(s0, keep=["/d2/q", "fa"])
        add("keep-at-second-path", ct, {"KA": k}, [st0], st2, [st2], ["/d/q", "/d2/q"], mx=few)
        # nested keeps, committed by one call for three paths; through keep and through eval
        ks = {"KA": rng.choice(kinds), "KB": rng.choice(kinds), "KT": rng.choice(["str", "bytes", "obj"])}
        stn = dict(s0, keep=["/n/top", "inner"]) if rng.random() < 0.5 else dict(s0, eval="top")
        add("nested-keeps", ct, ks, [], stn, [stn], nested_paths, mx=some)
        # ... when one of the inner results is already there
        add("nested-keeps-one-present", ct, ks, [dict(s0, keep=["/n/a", "fa"])], stn, [stn], nested_paths, mx=few)
        if tier != "quick":
            stn1 = dict(stn, set={"SALT": "s1"})
            add("nested-keeps-after-change", ct, ks, [stn], stn1, [stn1], nested_paths)
            for _ in range(3):
                ks2 = {"KA": rng.choice(kinds), "KB": rng.choice(kinds), "KT": rng.choice(["str", "bytes", "obj"])}
                add("nested-keeps", ct, ks2, [], stn, [stn], nested_paths)
        # the change is taken back after the fault: the path returns to the result its record names
        add("revert-after-fault", ct, {"KA": k}, [st0], st1, [st0], ["/d/q"], mx=few)
        add("revert-after-fault-then-again", ct, {"KA": k}, [st0], st1, [st0, st1], ["/d/q"], mx=few)
        if ct != "none":
            # a load (outside any evaluation) hits the fault; loading again must work
            ld = {"load": "/d/q"}
            add("load", ct, {"KA": k}, [st0], ld, [ld], ["/d/q"])
            # an evaluation that loads a path kept before
            su = dict(s0, keep=["/u", "user"])
            add("keep-with-load", ct, {"KA": k}, [dict(s0, keep=["/n/a", "fa"])], su, [su], ["/n/a", "/u"], mx=few)
    return out


def raw_bytes(v):
    return v.encode("utf-8") if isinstance(v, str) else v if isinstance(v, bytes) else None


def check_fault_trial(sc, t, refmap, plain_values):
    """The violations (key, text) of one trial, and how many of them concern the faulted call and the state right after it.
    Expected values: plain execution; refmap: key -> value of the fault-free trial, used only after it has been checked against the plain values."""
    mode = expected_mode(sc["commit_type"])
    bad = []
    pl = Plain(sc["defaults"])
    want_prefix = ["V:" + repr(pl.do(s)) for s in sc["prefix"]]
    if t["prefix"] != want_prefix:
        return [("prefix-wrong", f"the steps before the fault returned {t['prefix']} instead of {want_prefix}")], 1
    kept_before = dict(pl.kept)
    try:
        want_faulted = "V:" + repr(pl.do(sc["faulted"]))
    except KeyError:
        want_faulted = None
    kept_faulted = dict(pl.kept)

    def blobs_ok(probe, when):
        for k, b in probe["blobs"].items():
            if b["has"] == "V:True" and (not str(b["fetch"]).startswith("V:") or (k in refmap and b["fetch"] != refmap[k])):
                bad.append(("blob-present-but-not-fetchable", f"{when} has_blob({k[:6]}..) is True but fetch_blob gives {str(b['fetch'])[:70]}"
                            + (f" (the value of this key is {refmap[k][2:40]})" if k in refmap else "")))

    def state_ok(probe, files, kept, when, strict):
        """strict: the state the property demands after a completed evaluation; otherwise only 'load works when the record exists'."""
        for p, o in probe["paths"].items():
            rec, obj = DATA + "/_dds_meta" + p, DATA + p
            has_rec = o["record"].startswith("V:")
            if has_rec:
                k = o["record"][3:-1]
                if not str(o["load"]).startswith("V:") or (k in refmap and o["load"] != refmap[k]):
                    bad.append(("record-but-load-fails", f"{when} the record of {p} exists (key {k[:6]}..) but load gives {str(o['load'])[:70]}"))
            if not strict:
                continue
            if mode == "NO_COMMIT" or p not in kept:
                if has_rec or rec in files or obj in files:
                    bad.append(("uncommitted-path-visible:" + mode, f"{when} {p} has a record or a file under {mode}" + ("" if p in kept else " although it was never kept")))
                continue
            want = "V:" + repr(kept[p])
            if not has_rec:
                bad.append(("record-missing:" + mode, f"{when} no redirect record for {p} under {mode}"))
            elif o["load"] != want:
                bad.append(("load-wrong:" + mode, f"{when} load({p}) gives {str(o['load'])[:60]} instead of {want[:60]}"))
            if mode == "FULL":
                blob = files.get(BLOBS + o["record"][3:-1]) if has_rec else None
                raw = raw_bytes(kept[p])
                if obj not in files or (blob is not None and files[obj] != blob) or (raw is not None and files[obj] != raw.hex()):
                    bad.append(("full-copy-missing-or-stale", f"{when} the copy at {obj} is {'missing' if obj not in files else 'not byte-identical to the result'}"))
            if mode == "LINK_ONLY" and obj in files:
                bad.append(("links-only-copies-data", f"{when} links-only commit wrote {obj}"))
        if strict:
            known = set(DATA + "/_dds_meta" + p for p in kept) | set(DATA + p for p in kept)
            extra = sorted(f for f in files if f.startswith(DATA) and f not in known)
            if extra:
                bad.append(("stray-files", f"{when} unexpected files below the data directory: {extra[:3]}"))

    # 1. the faulted call: it may raise anything, but a value it returns is the right one, and then its work is complete
    when = "after the faulted call"
    if t["faulted"].startswith("V:"):
        if t["faulted"] != want_faulted:
            bad.append(("faulted-call-returns-wrong-value", f"the faulted call returned {t['faulted'][2:50]} instead of {str(want_faulted)[2:50]}"))
        elif "load" not in sc["faulted"]:
            state_ok(t["mid"], t["mid_files"], kept_faulted, "the faulted call returned normally, and", True)
    # 2. right after the fault: nothing is reported present that cannot be read back
    blobs_ok(t["mid"], when)
    state_ok(t["mid"], t["mid_files"], kept_before, when, False)
    # 3. the evaluations after, without fault
    early = len(bad)
    pl.kept = dict(kept_before)
    for s, o in zip(sc["after"], t["after"]):
        want = "V:" + repr(pl.do(s))
        if o != want:
            what = "load" if "load" in s else "evaluation"
            bad.append(("retry-fails" if not o.startswith("V:") else "retry-wrong-value",
                        f"the {what} run again without fault (SALT={pl.g['SALT']}) gives {o[:90]} instead of {want[:50]}"))
    when = "after the run without fault"
    blobs_ok(t["end"], when)
    state_ok(t["end"], t["files"], pl.kept, when, True)
    for p, o in t["loads"].items():
        if (p not in pl.kept or mode == "NO_COMMIT") and o.startswith("V:"):
            bad.append(("none-load-works", f"{when} load({p}) returned {o[:40]} although nothing was committed"))
    if bad and bad[0][0] == "faulted-call-returns-wrong-value":
        later = [x for x in bad[early:] if x[0] == "retry-wrong-value"]
        if later:       # the wrong value was written under the key of the right one
            bad[0] = ("wrong-value-stored-for-good", bad[0][1] + ", and it stays: " + later[0][1])
    return bad, early


def run_fault_scenario(sc):
    base = tempfile.mkdtemp(prefix="c19f_", dir=C.scratch_dir())
    try:
        open(os.path.join(base, "dbfsfault.py"), "w").write(FMOD)
        return C.run_driver("drive_dbfs_fault.py", dict({k: v for k, v in sc.items() if k != "shape"}, base=base))
    except Exception as e:  # noqa
        return {"error": str(e)[-400:]}
    finally:
        shutil.rmtree(base, ignore_errors=True)


def describe_fault(sc, t):
    f = t["fault"]
    step = sc["faulted"]
    op = f"keep({step['keep'][0]}, {step['keep'][1]})" if "keep" in step else f"eval({step['eval']})" if "eval" in step else f"load({step['load']})"
    kinds = "/".join(sc["defaults"][k] for k in ("KA", "KB", "KT")) if "nested" in sc["shape"] else sc["defaults"]["KA"]
    call = "?" if not t["fired"] else t["fired"][0] + "(" + " -> ".join(c.replace(BLOBS, "blobs/")[:30] for c in t["fired"][1:]) + ")"
    how = {"before": "raised without effect", "after": "took effect and then raised", "torn": "left a truncated file and raised"}[f[1]]
    return (f"commit type {sc['commit_type']}, scenario {sc['shape']} ({op}, result type {kinds}, {len(sc['prefix'])} evaluation(s) before): file-system call #{f[0]} "
            f"of it, {call}, {how} ({'Exception' if f[2] == 'error' else 'BaseException'})")


def check_faults(rep, rng, tier):
    t0 = time.time()
    scs = fault_scenarios(rng, tier)
    with cf.ThreadPoolExecutor(max_workers=C.NPROC) as ex:
        res = list(ex.map(run_fault_scenario, scs))
    stats = {"scenarios": len(scs), "shapes": sorted(set(s["shape"] for s in scs)), "faults_enumerated": 0, "trials": 0, "fault_fired": 0,
             "by_call": {}, "by_mode": {}, "by_exception": {}, "faulted_call": {"raised": 0, "returned": 0}}
    for sc, r in zip(scs, res):
        replay = {"fault_case": sc}
        if "error" in r:
            rep.violation("harness-error:c19-fault", r["error"][-300:], replay, no_input=True)
            continue
        ref = r["ref"]
        head = f"commit type {sc['commit_type']}, scenario {sc['shape']}, no fault: "
        # the fault-free trial: the property itself; and its blobs (key -> value) are values of the plain execution
        pl = Plain(sc["defaults"])
        plain_values = set()
        for s in sc["prefix"] + [sc["faulted"]] + sc["after"]:
            try:
                pl.do(s)
            except KeyError:
                pass
            plain_values |= set("V:" + repr(v) for v in pl.kept.values())
        refmap = {k: b["fetch"] for k, b in ref["end"]["blobs"].items() if b["has"] == "V:True"}
        rep.case(json.dumps({"fault": None, "shape": sc["shape"], "commit_type": sc["commit_type"], "defaults": sc["defaults"]}), nontrivial=False)
        if ref["mode"] != expected_mode(sc["commit_type"]):
            rep.violation(f"commit-type-wrong:{sc['commit_type']}", head + f"mode {ref['mode']}", replay)
            continue
        ref_bad = check_fault_trial(sc, ref, {}, plain_values)[0]
        ref_bad += [("blob-of-no-result", f"blob {k[:6]}.. holds {v[:50]}, which no kept function returned") for k, v in refmap.items() if v not in plain_values]
        for key, text in ref_bad:
            rep.violation("no-fault:" + key, head + text, dict(replay, trial=ref))
        if ref_bad:
            continue            # no trustworthy reference for the trials
        stats["faults_enumerated"] += r["enumerated"]
        for t in r["trials"]:
            n, fmode, exc = t["fault"]
            stats["trials"] += 1
            rep.case(json.dumps({"fault": t["fault"], "shape": sc["shape"], "commit_type": sc["commit_type"], "defaults": sc["defaults"]}), nontrivial=t["fired"] is not None)
            if t["fired"] is None:
                continue
            stats["fault_fired"] += 1
            for d, v in (("by_call", t["fired"][0]), ("by_mode", fmode), ("by_exception", exc)):
                stats[d][v] = stats[d].get(v, 0) + 1
            stats["faulted_call"]["returned" if t["faulted"].startswith("V:") else "raised"] += 1
            # input classes with a key of their own: a read (head) that fails with an ordinary Exception - code that takes any failed
            # read for 'no such file' cannot tell it from absence -, and what only shows when the change is taken back after the fault
            bad, early = check_fault_trial(sc, t, refmap, plain_values)
            pre = "fault-read-error:" if (t["fired"][0], exc) == ("head", "error") else "fault-then-revert:" if sc["shape"].startswith("revert") and not early else "fault:"
            for key, text in bad[:1]:       # the first one: the others follow from it
                rep.violation(pre + key, describe_fault(sc, t) + "; " + text, {"fault_case": dict(sc, only=[t["fault"]]), "trial": t})
    stats["wall_s"] = round(time.time() - t0, 1)
    return stats


# --------------------------------------------------------------------------- re-declarations of the store in one process
# The commit type is an argument of dds.set_store: the one of the LATEST declaration is in force, also when the same directories and the very
# same dbutils object were declared before with another one (a notebook that re-runs its configuration cell with another argument).
def redeclaration_cases(tier):
    import itertools
    seqs = [list(q) for n in (2, 3) for q in itertools.permutations(["full", "links_only", "none"], n)]
    seqs += [["full", "full", "none"], ["none", "none", "full"], ["links_only", "full", "links_only", "none", "full"]]
    cases = []
    for i, q in enumerate(seqs):
        kind = ["str", "bytes", "obj"][i % 3]
        steps, plan = [{"keep": ["/r0", kind, "s0"]}], [("/r0", kind, "s0", q[0])]
        for j, ct in enumerate(q[1:], 1):
            steps += [{"set_commit_type": ct}, {"keep": [f"/r{j}", kind, f"s{j}"]}]
            plan.append((f"/r{j}", kind, f"s{j}", ct))
        steps += [{"load": p_} for p_, _, _, _ in plan] + [{"listing": True}]
        cases.append({"commit_type": q[0], "steps": steps, "plan": plan, "declarations": q})
    return cases


def check_redeclarations(rep, tier):
    cases = redeclaration_cases(tier)
    with cf.ThreadPoolExecutor(max_workers=C.NPROC) as ex:
        results = list(ex.map(run_case, cases))
    for r in results:
        c = r["case"]
        rep.case("redeclare:" + ">".join(c["declarations"]))
        if "error" in r:
            rep.violation("harness-error:c19-redeclare", r["error"][-300:], r, no_input=True)
            continue
        out = r["out"]
        replay = {"redeclaration_case": c, "out": out}
        what = "store declared " + " then ".join(c["declarations"]) + " on the same directories and dbutils object in one process"
        decl = [o for o in out if isinstance(o, str) and o.startswith("U:")]
        if [o[2:] for o in decl] != [expected_mode(ct) for ct in c["declarations"]]:
            rep.violation("redeclare:commit-type-not-in-force", f"{what}: the stores in use after each declaration have modes {[o[2:] for o in decl]}", replay)
        listing = out[-1]["data_files"] if isinstance(out[-1], dict) else {}
        loads = out[-1 - len(c["plan"]):-1]
        expected_files = set()
        for (p_, k, salt, ct), o in zip(c["plan"], loads):
            mode, rec, obj = expected_mode(ct), "dbfs:/s/data/_dds_meta" + p_, "dbfs:/s/data" + p_
            if mode == "NO_COMMIT":
                if rec in listing or obj in listing:
                    rep.violation("redeclare:none-writes-files", f"{what}: the keep of {p_!r} made while 'none' was in force wrote {rec if rec in listing else obj!r}", replay)
                continue
            expected_files |= {rec, obj} if mode == "FULL" else {rec}
            if rec not in listing:
                rep.violation("redeclare:record-missing:" + mode, f"{what}: no redirect record for {p_!r}, kept while {ct!r} was in force", replay)
            elif o != "L:" + value_of(k, salt):
                rep.violation("redeclare:load-wrong:" + mode, f"{what}: load({p_!r}) gave {str(o)[:60]} instead of {value_of(k, salt)[:60]}", replay)
            if mode == "FULL" and (obj not in listing or (raw_of(k, salt) is not None and listing[obj] != raw_of(k, salt))):
                rep.violation("redeclare:full-copy-missing", f"{what}: no byte-identical copy of the result at {obj!r}, kept while 'full' was in force", replay)
            if mode == "LINK_ONLY" and obj in listing:
                rep.violation("redeclare:links-only-copies-data", f"{what}: the keep of {p_!r} made while 'links_only' was in force wrote the data file {obj!r}", replay)
        stray = sorted(f for f in listing if f not in expected_files)
        if stray:
            rep.violation("redeclare:stray-files", f"{what}: files below the data directory that no declaration in force asked for: {stray[:3]}", replay)
    return {"declaration_sequences": len(cases)}



def expected_mode(ct):
    n = (ct or "full").lower()
    return {"full": "FULL", "links_only": "LINK_ONLY", "link_only": "LINK_ONLY", "none": "NO_COMMIT", "no_commit": "NO_COMMIT"}[n]


def run(rep, tier, seed, proof_ok):
    rng = random.Random(seed)
    rep.rule = ("the real DBFSStore over an in-process fake of dbutils.fs: every documented commit type (and spelling) through dds.set_store x "
                "operation sequences (keep of str / bytes / None / object results at paths with 1..3 segments, re-keep with changed "
                "code, re-keep with the code reverted, load) - checks: keep returns the plain value; 'full' leaves a byte-identical copy of each result plus a redirect "
                "record, 'links only' only the record, 'none' nothing; load works iff the record exists; and blobs whose metadata names "
                "a legacy or current codec reference decode with the codec of that kind, also when a path is committed to them under each commit type; "
                "+ store-level histories (blobs, sync_paths calls with 1..4 paths sharing keys, keys without blob) compared file for file and call "
                "outcome for call outcome with the Coq model drun, and against the dictionary semantics; "
                "+ the alphabet of path segments: families of paths that differ in ONE segment only (the last one, a directory or the first one) - a stem "
                "(x, rep, p.q, é, 'r s', and the reserved name _dds_meta, itself never a first segment) and variants of it by what a URI parser ('?', '#', "
                "'?q=1', '#frag', bare '?' / '#'), URL quoting ('%', '%20', '%3F', '%2F', '%25', '+'), URI delimiters ('&', '=', ';', ':', '@', ',', '!', '$', '|'), "
                "posix path handling (trailing / leading dots, '...', suffixes .csv / .json / .tar / .tar.gz / .meta on one stem, '~', '*', '[0]', '{a,b}', "
                "backslash, quotes), white space (leading / trailing / bare space, tab, CR, LF) or text handling (case, NFC / NFD, NBSP, zero-width space, "
                "U+2028, ß / ss, one name a prefix of the other) may drop or identify - committed in ONE store-level history to keys of their own "
                "(one multi-path call, then paths moved to a spare key or to the key of a sibling, then everything committed again unchanged), compared "
                "file for file and write for write with the Coq model (uri = data_dir [/_dds_meta] / segments, byte for byte) and with the dictionary "
                "semantics; and through dds.keep / dds.load (each path a result of its own, one result changed, one changed and taken back; every path loads "
                "its own result, has its own record / copy, and nothing else is below the data directory); quick: every variant once as last segment at store level (families alternately under full and "
                "links_only) and once per commit type through keep / load, thorough: every variant of every stem under the three commit types as last segment, of two stems as directory; "
                "+ fault dimension: for each commit type x scenario (first keep of a str / bytes / object result, keep after a code change, unchanged keep, "
                "keep of a present result at a second path, nested keeps committed by one call, nested keeps with one result present, evaluation that "
                "loads, load, and a change taken back after the fault) the n-th dbutils.fs call (head / put / cp) of the evaluation fails, for EVERY n "
                "(sampled for the nested scenarios in the quick tier), before its effect, after its effect, or leaving a truncated copy (cp; a put is taken to be atomic), with an "
                "Exception or a BaseException; + re-declarations: sequences of 2..5 dds.set_store('dbfs') calls with different commit types on the SAME directories and the "
                "same dbutils object in one process, a keep at a fresh path after each: every keep leaves what the declaration in force demands;  checks: a value the faulted call returns is the plain one; right after the fault no blob is reported "
                "present (has_blob) unless fetch_blob returns its value, and load works for every record that exists; the same evaluation run again "
                "without fault returns the plain value, leaves exactly the record / copy its commit type demands (copy byte-identical to blob and "
                "result) and every path loads; expected values from plain execution of the module; distinct = distinct case")
    cases = []
    kinds = ["str", "bytes", "none", "obj"]
    for ct in DOCUMENTED + ENUM_NAMES:
        for _ in range(2 if tier == "quick" else 8):
            steps = []
            paths = rng.sample(["/p", "/d/q", "/d/e/r", "/t"], 3)
            plan = []
            for p in paths:
                k = rng.choice(kinds)
                steps.append({"keep": [p, k, "s0"]})
                plan.append((p, k, "s0"))
            p0, k0, _ = plan[0]
            steps.append({"keep": [p0, k0, "s1"]})
            plan[0] = (p0, k0, "s1")
            if len(cases) % 2 == 0:
                # ... and back: the path returns to a signature it was committed with before (same store object)
                steps.append({"keep": [p0, k0, "s0"]})
                plan[0] = (p0, k0, "s0")
                p1, k1, _ = plan[1]
                steps.append({"keep": [p1, k1, "s2"]})
                steps.append({"keep": [p1, k1, "s0"]})
            for p, _, _ in plan:
                steps.append({"load": p})
            steps.append({"listing": True})
            cases.append({"commit_type": ct, "steps": steps, "plan": plan})
    cases.append({"commit_type": "full", "steps": [{"legacy": [f"abc{i}", ref, kind]} for i, (ref, kind) in enumerate(LEGACY)], "plan": [], "legacy": True})
    # paths committed to legacy blobs under every commit type
    for ct in ("full", "links_only", "none"):
        cases.append({"commit_type": ct, "plan": [], "legacy_sync": True,
                      "steps": [{"legacy_sync": [f"def{i}", ref, kind, f"/leg/p{i}"]} for i, (ref, kind) in enumerate(LEGACY)] + [{"listing": True}]})
    # the alphabet of path segments through dds.keep / dds.load: per commit type the stem and every variant of it in one directory, and small
    # families (variable segment anywhere) with results that change and come back
    for ct in ("full", "links_only", "none"):
        for whole in [True] + [False] * (1 if tier == "quick" else 12):
            cases.append(alphabet_case(rng, ct, whole))
    alpha_cases = [c for c in cases if "alphabet" in c]
    with cf.ThreadPoolExecutor(max_workers=C.NPROC) as ex:
        res = list(ex.map(run_case, cases))
    for r in res:
        c = r["case"]
        rep.case(json.dumps({"commit_type": c["commit_type"], "plan": c["plan"], "legacy": c.get("legacy", False)}))
        if "error" in r:
            rep.violation("harness-error:c19", r["error"][-300:], r, no_input=True)
            continue
        out = r["out"]
        replay = {"case": c, "out": out}
        if c.get("legacy_sync"):
            listing = out[-1]["data_files"] if isinstance(out[-1], dict) else {}
            mode = expected_mode(c["commit_type"])
            raw = {"string": "legacy-text".encode("utf-8").hex(), "bytes": b"\x00legacy\xff".hex()}
            for i, ((ref, kind), o) in enumerate(zip(LEGACY, out[1:-1])):
                obj, rec = f"dbfs:/s/data/leg/p{i}", f"dbfs:/s/data/_dds_meta/leg/p{i}"
                if mode == "NO_COMMIT":
                    if str(o).startswith("S:equal") or str(o).startswith("S:DIFFERENT") or obj in listing or rec in listing:
                        rep.violation("legacy-commit:none", f"commit type none with a legacy blob ({ref}): {str(o)[:60]}, files written: {obj in listing or rec in listing}", dict(replay, ref=ref))
                    continue
                if o != "S:equal":
                    rep.violation(f"legacy-commit:{mode}:{ref}", f"a path committed to a blob whose metadata names {ref} under {mode}: {str(o)[:80]}", dict(replay, ref=ref))
                if rec not in listing:
                    rep.violation("record-missing:" + mode, f"no redirect record for a path committed to a legacy blob ({ref})", dict(replay, ref=ref))
                if mode == "FULL" and kind in raw and listing.get(obj) != raw[kind]:
                    rep.violation("full-copy-not-identical", f"the copy of a legacy {kind} blob ({ref}) at {obj} is missing or not byte-identical", dict(replay, ref=ref))
                if mode == "LINK_ONLY" and obj in listing:
                    rep.violation("links-only-copies-data", f"links-only commit wrote the data file {obj}", dict(replay, ref=ref))
            continue
        if c.get("legacy"):
            for (ref, kind), o in zip(LEGACY, out[1:]):
                if o != "G:equal":
                    rep.violation(f"legacy-codec:{ref}", f"a blob whose metadata names {ref} is not decoded as {kind}: {o[:80]}", dict(replay, ref=ref))
            continue
        if not out[0].startswith("U:"):
            rep.violation(f"commit-type-rejected:{c['commit_type']}", f"documented commit type {c['commit_type']!r} is not accepted: {out[0][:80]}", replay)
            continue
        mode = out[0][2:]
        if mode != expected_mode(c["commit_type"]):
            rep.violation(f"commit-type-wrong:{c['commit_type']}", f"commit type {c['commit_type']!r} gives mode {mode}", replay)
        # keeps
        nk = sum(1 for s in c["steps"] if "keep" in s)
        for s, o in zip([s for s in c["steps"] if "keep" in s], out[1:1 + nk]):
            want = "V:" + value_of(s["keep"][1], s["keep"][2])
            if o != want:
                rep.violation("keep-wrong:" + mode, f"keep returned {o[:60]} instead of {want[:60]} under {mode}", replay)
        loads = out[1 + nk: 1 + nk + len(c["plan"])]
        listing = out[-1]["data_files"] if isinstance(out[-1], dict) else {}
        fam = c.get("alphabet", {})
        stem_paths = [q for q in fam if fam[q] == "stem"]
        sibs = (f" [{len(fam)} paths that differ in one segment only are kept in this run" + (f": {sorted(fam)}]" if len(fam) <= 8 else
                f", the stem {stem_paths[0]!r} and every variant of it]" if stem_paths else f", every variant of {RESERVED!r} as first segment]")) if fam else ""
        expected_files = set()
        for (p, k, salt), o in zip(c["plan"], loads):
            rec = "dbfs:/s/data/_dds_meta" + p
            obj = "dbfs:/s/data" + p
            ak = ":path-alphabet:" + fam[p] if p in fam else ""
            if mode == "NO_COMMIT":
                if rec in listing or obj in listing:
                    rep.violation("none-writes-files" + ak, f"commit type none wrote {rec if rec in listing else obj!r}" + sibs, replay)
                if not o.startswith("X:") and not o.startswith("E:"):
                    rep.violation("none-load-works" + ak, f"load({p!r}) returned {o[:40]} although nothing was committed" + sibs, replay)
                continue
            expected_files |= {rec, obj} if mode == "FULL" else {rec}
            if rec not in listing:
                rep.violation("record-missing:" + mode + ak, f"no redirect record for {p!r} under {mode}" + sibs, replay)
            if o != "L:" + value_of(k, salt):
                same = [q for q, k2, s2 in c["plan"] if q != p and o == "L:" + value_of(k2, s2) and value_of(k2, s2) != value_of(k, salt)]
                rep.violation("load-wrong:" + mode + ak, f"load({p!r}) returned {o[:60]} instead of {value_of(k, salt)[:60]} under {mode}"
                              + (f" (the result kept at {same[0]!r})" if len(same) == 1 else f" (the result kept at one of {same[:4]})" if same else "") + sibs, replay)
            if mode == "FULL":
                raw = raw_of(k, salt)
                if obj not in listing:
                    rep.violation("full-copy-missing" + ak, f"no copy of the result at {obj!r}" + sibs, replay)
                elif raw is not None and listing[obj] != raw:
                    rep.violation("full-copy-not-identical" + ak, f"the copy at {obj!r} is not byte-identical to the result" + sibs, replay)
            if mode == "LINK_ONLY" and obj in listing:
                rep.violation("links-only-copies-data" + ak, f"links-only commit wrote the data file {obj!r}" + sibs, replay)
        stray = sorted(f for f in listing if f not in expected_files)
        if stray:
            rep.violation("stray-files:" + mode + (":path-alphabet" if fam else ""), f"files below the data directory that belong to no kept path under {mode}: {stray[:3]}" + sibs, replay)
    check_findings(rep)
    rd = check_redeclarations(rep, tier)
    fd = check_faults(rep, random.Random(seed + 1), tier)
    hd = check_histories(rep, rng, 40 if tier == "quick" and proof_ok else 600, tier)
    rep.extra["input_distribution"] = {"redeclarations": rd, "store_level_histories": hd, "fault_injection": fd, "cases": len(cases),
                                       "path_alphabet": {"classes_of_segment_variants": CLASSES, "variants_per_stem": N_VARIANTS, "stems": STEMS,
                                                         "keep_load_cases": len(alpha_cases), "of_them_whole_alphabet": sum(1 for c in alpha_cases if len(c["alphabet"]) > 8),
                                                         "paths_kept": sum(len(c["alphabet"]) for c in alpha_cases)}, "commit_types": [str(x) for x in DOCUMENTED + ENUM_NAMES], "legacy_references": [x[0] for x in LEGACY]}
    rep.sample({"commit_type": cases[0]["commit_type"], "plan": cases[0]["plan"]})


def replay(path):
    r = json.load(open(path))["replay"]
    if "fault_case" in r:
        sc = r["fault_case"]
        out = run_fault_scenario(sc)
        for t in out.get("trials", []):
            print(describe_fault(sc, t))
            print(json.dumps({k: t[k] for k in ("faulted", "mid", "after", "loads", "end")}, indent=1)[:3000])
        return 1
    if "history" in r:
        h = r["history"]
        base = tempfile.mkdtemp(prefix="c19h_", dir=C.scratch_dir())
        open(os.path.join(base, "dbfsmod.py"), "w").write(MOD)
        print(json.dumps(C.run_driver("drive_dbfs.py", {"base": base, "commit_type": h["commit_type"], "steps": [{"hist": h["hist"], "fetch": h["paths"]}]}), indent=1)[:3000])
        print("model:", C.coq_eval_strings(PRELUDE, [coq_history(h)], label="c19r")[0][:1500])
        shutil.rmtree(base, ignore_errors=True)
        return 1
    print(json.dumps(run_case(r.get("redeclaration_case") or r["case"]).get("out"), indent=1)[:3000])
    return 1
