"""C19 - the DBFS store honours its commit type and keeps legacy blobs readable."""
import concurrent.futures as cf
import itertools
import json
import os
import random
import shutil
import tempfile

import common as C

COQ_FILES = ("L5_Stores/Dbfs.v", "L5_Stores/DbfsProofs.v", "Properties/C19.v")
EXTRACTED = ("ConstDbfs",)
ALLOWED_AXIOMS = ()

MOD = '''KIND = "str"
SALT = "s0"

def f():
    if KIND == "str":
        return "text-é-" + SALT
    if KIND == "bytes":
        return b"\\x00bytes\\xff" + SALT.encode()
    if KIND == "none":
        return None
    return {"obj": [1, SALT]}
'''
DOCUMENTED = ["full", "links_only", "none", None, "FULL", "Links_Only"]
ENUM_NAMES = ["no_commit", "link_only"]      # the names of the enum members, accepted as well
LEGACY = [("dbfs.string", "string"), ("dbfs.bytes", "bytes"), ("dbfs.pickle", "pickle"),
          ("local.string", "string"), ("local.bytes", "bytes"), ("local.pickle", "pickle")]


def value_of(kind, salt):
    return {"str": repr("text-é-" + salt), "bytes": repr(b"\x00bytes\xff" + salt.encode()), "none": "None", "obj": repr({"obj": [1, salt]})}[kind]


def raw_of(kind, salt):
    if kind == "str":
        return ("text-é-" + salt).encode("utf-8").hex()
    if kind == "bytes":
        return (b"\x00bytes\xff" + salt.encode()).hex()
    return None


def run_case(case):
    base = tempfile.mkdtemp(prefix="c19_", dir=C.scratch_dir())
    try:
        open(os.path.join(base, "dbfsmod.py"), "w").write(MOD)
        return {"case": case, "out": C.run_driver("drive_dbfs.py", {"base": base, "commit_type": case["commit_type"], "steps": case["steps"]})}
    except Exception as e:  # noqa
        return {"case": case, "error": str(e)[-400:]}
    finally:
        shutil.rmtree(base, ignore_errors=True)


def expected_mode(ct):
    n = (ct or "full").lower()
    return {"full": "FULL", "links_only": "LINK_ONLY", "link_only": "LINK_ONLY", "none": "NO_COMMIT", "no_commit": "NO_COMMIT"}[n]


def run(rep, tier, seed, proof_ok):
    rng = random.Random(seed)
    rep.rule = ("the real DBFSStore over an in-process fake of dbutils.fs: every documented commit type (and spelling) through dds.set_store x "
                "operation sequences (keep of str / bytes / None / object results at paths with 1..3 segments, re-keep with changed "
                "code, re-keep with the code reverted, load) - checks: keep returns the plain value; 'full' leaves a byte-identical copy of each result plus a redirect "
                "record, 'links only' only the record, 'none' nothing; load works iff the record exists; and blobs whose metadata names "
                "a legacy or current codec reference decode with the codec of that kind, also when a path is committed to them under each commit type; distinct = distinct case")
    cases = []
    kinds = ["str", "bytes", "none", "obj"]
    for ct in DOCUMENTED + ENUM_NAMES:
        for _ in range(2 if tier == "quick" else 8):
            steps = []
            paths = rng.sample(["/p", "/d/q", "/d/e/r", "/t"], 3)
            plan = []
            for p in paths:
                k = rng.choice(kinds)
                steps.append({"keep": [p, k, "s0"]})
                plan.append((p, k, "s0"))
            p0, k0, _ = plan[0]
            steps.append({"keep": [p0, k0, "s1"]})
            plan[0] = (p0, k0, "s1")
            if len(cases) % 2 == 0:
                # ... and back: the path returns to a signature it was committed with before (same store object)
                steps.append({"keep": [p0, k0, "s0"]})
                plan[0] = (p0, k0, "s0")
                p1, k1, _ = plan[1]
                steps.append({"keep": [p1, k1, "s2"]})
                steps.append({"keep": [p1, k1, "s0"]})
            for p, _, _ in plan:
                steps.append({"load": p})
            steps.append({"listing": True})
            cases.append({"commit_type": ct, "steps": steps, "plan": plan})
    cases.append({"commit_type": "full", "steps": [{"legacy": [f"abc{i}", ref, kind]} for i, (ref, kind) in enumerate(LEGACY)], "plan": [], "legacy": True})
    # paths committed to legacy blobs under every commit type
    for ct in ("full", "links_only", "none"):
        cases.append({"commit_type": ct, "plan": [], "legacy_sync": True,
                      "steps": [{"legacy_sync": [f"def{i}", ref, kind, f"/leg/p{i}"]} for i, (ref, kind) in enumerate(LEGACY)] + [{"listing": True}]})
    with cf.ThreadPoolExecutor(max_workers=C.NPROC) as ex:
        res = list(ex.map(run_case, cases))
    for r in res:
        c = r["case"]
        rep.case(json.dumps({"commit_type": c["commit_type"], "plan": c["plan"], "legacy": c.get("legacy", False)}))
        if "error" in r:
            rep.violation("harness-error:c19", r["error"][-300:], r, no_input=True)
            continue
        out = r["out"]
        replay = {"case": c, "out": out}
        if c.get("legacy_sync"):
            listing = out[-1]["data_files"] if isinstance(out[-1], dict) else {}
            mode = expected_mode(c["commit_type"])
            raw = {"string": "legacy-text".encode("utf-8").hex(), "bytes": b"\x00legacy\xff".hex()}
            for i, ((ref, kind), o) in enumerate(zip(LEGACY, out[1:-1])):
                obj, rec = f"dbfs:/s/data/leg/p{i}", f"dbfs:/s/data/_dds_meta/leg/p{i}"
                if mode == "NO_COMMIT":
                    if str(o).startswith("S:equal") or str(o).startswith("S:DIFFERENT") or obj in listing or rec in listing:
                        rep.violation("legacy-commit:none", f"commit type none with a legacy blob ({ref}): {str(o)[:60]}, files written: {obj in listing or rec in listing}", dict(replay, ref=ref))
                    continue
                if o != "S:equal":
                    rep.violation(f"legacy-commit:{mode}:{ref}", f"a path committed to a blob whose metadata names {ref} under {mode}: {str(o)[:80]}", dict(replay, ref=ref))
                if rec not in listing:
                    rep.violation("record-missing:" + mode, f"no redirect record for a path committed to a legacy blob ({ref})", dict(replay, ref=ref))
                if mode == "FULL" and kind in raw and listing.get(obj) != raw[kind]:
                    rep.violation("full-copy-not-identical", f"the copy of a legacy {kind} blob ({ref}) at {obj} is missing or not byte-identical", dict(replay, ref=ref))
                if mode == "LINK_ONLY" and obj in listing:
                    rep.violation("links-only-copies-data", f"links-only commit wrote the data file {obj}", dict(replay, ref=ref))
            continue
        if c.get("legacy"):
            for (ref, kind), o in zip(LEGACY, out[1:]):
                if o != "G:equal":
                    rep.violation(f"legacy-codec:{ref}", f"a blob whose metadata names {ref} is not decoded as {kind}: {o[:80]}", dict(replay, ref=ref))
            continue
        if not out[0].startswith("U:"):
            rep.violation(f"commit-type-rejected:{c['commit_type']}", f"documented commit type {c['commit_type']!r} is not accepted: {out[0][:80]}", replay)
            continue
        mode = out[0][2:]
        if mode != expected_mode(c["commit_type"]):
            rep.violation(f"commit-type-wrong:{c['commit_type']}", f"commit type {c['commit_type']!r} gives mode {mode}", replay)
        # keeps
        nk = sum(1 for s in c["steps"] if "keep" in s)
        for s, o in zip([s for s in c["steps"] if "keep" in s], out[1:1 + nk]):
            want = "V:" + value_of(s["keep"][1], s["keep"][2])
            if o != want:
                rep.violation("keep-wrong:" + mode, f"keep returned {o[:60]} instead of {want[:60]} under {mode}", replay)
        loads = out[1 + nk: 1 + nk + len(c["plan"])]
        listing = out[-1]["data_files"] if isinstance(out[-1], dict) else {}
        for (p, k, salt), o in zip(c["plan"], loads):
            rec = "dbfs:/s/data/_dds_meta" + p
            obj = "dbfs:/s/data" + p
            if mode == "NO_COMMIT":
                if rec in listing or obj in listing:
                    rep.violation("none-writes-files", f"commit type none wrote {rec if rec in listing else obj}", replay)
                if not o.startswith("X:") and not o.startswith("E:"):
                    rep.violation("none-load-works", f"load returned {o[:40]} although nothing was committed", replay)
                continue
            if rec not in listing:
                rep.violation("record-missing:" + mode, f"no redirect record for {p} under {mode}", replay)
            if o != "L:" + value_of(k, salt):
                rep.violation("load-wrong:" + mode, f"load({p}) returned {o[:60]} instead of {value_of(k, salt)[:60]} under {mode}", replay)
            if mode == "FULL":
                raw = raw_of(k, salt)
                if obj not in listing:
                    rep.violation("full-copy-missing", f"no copy of the result at {obj}", replay)
                elif raw is not None and listing[obj] != raw:
                    rep.violation("full-copy-not-identical", f"the copy at {obj} is not byte-identical to the result", replay)
            if mode == "LINK_ONLY" and obj in listing:
                rep.violation("links-only-copies-data", f"links-only commit wrote the data file {obj}", replay)
    rep.extra["input_distribution"] = {"cases": len(cases), "commit_types": [str(x) for x in DOCUMENTED + ENUM_NAMES], "legacy_references": [x[0] for x in LEGACY]}
    rep.sample({"commit_type": cases[0]["commit_type"], "plan": cases[0]["plan"]})


def replay(path):
    r = json.load(open(path))["replay"]
    print(json.dumps(run_case(r["case"]).get("out"), indent=1)[:3000])
    return 1
