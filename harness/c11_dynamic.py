"""C11, dynamic part: the offending call is one that only the run-time checks of the library can see (the nested dds.eval
/ the dds.keep under a kept path is reached through a non-accepted helper module, getattr, a function object held as data,
a bound method of a foreign object, a helper two calls deep), and it is executed under the exception handlers that user
code and helper libraries put around calls: try / except Exception with a default value, handlers that log and continue,
tuples of classes, contextlib.suppress(Exception), try / finally, re-raising and wrapping handlers, retry loops,
best-effort callback runners two calls deep, context managers and decorators that swallow Exception - in the helper
module (invisible to the analysis), in the accepted function that makes the call, or in its accepted caller.  No handler
catches BaseException (a user who does that has asked for the error).

Expected, from the property: the evaluation is rejected with the error code of the offence whatever surrounds the
offending call; nothing of it is committed; what runs and what is stored is what plain Python execution gives when the
offence is an error that no `except Exception` sees (harness/drive_c11dyn.py: keep = call, results remembered, committed at the
end; nested eval / overlapping keep = error): the functions entered before the offence, the finally blocks, the blobs of the
keeps completed before it, nothing after.  The well-formed twins of every scenario (the helper calls the function instead
of evaluating it; the helper raises a user exception that the handler is there for) must give the result, the execution
log, the stored blobs and the committed paths of that plain execution."""
import concurrent.futures as cf
import itertools
import json
import os
import shutil
import tempfile

import common as C
import progs as P

PKG = "vpd"

# non-accepted helpers: carriers of the hidden call and handlers around a call, appended to the log module
LOGMOD_EXTRA = '''

import contextlib
import functools

import dds
from dds import eval as evaluate, keep as keeper


def hidden_eval(f):
    return dds.eval(f)


def hidden_keep(p, f):
    return dds.keep(p, f)


def hidden_call(f):
    return f()


def hidden_raise(f):
    raise ValueError("expected")


OPS = {"eval": dds.eval, "keep": dds.keep, "call": hidden_call, "raise": hidden_raise}


def apply1(op, *a):
    return op(*a)


class Runner(object):
    def __init__(self, op):
        self.op = OPS[op]

    def run(self, *a):
        return self.op(*a)


def _level2(op, *a):
    return OPS[op](*a)


def _level1(op, *a):
    r = _level2(op, *a)
    return r


def deep_eval(*a):
    return _level1("eval", *a)


def deep_keep(*a):
    return _level1("keep", *a)


def deep_call(*a):
    return _level1("call", *a)


def deep_raise(*a):
    return _level1("raise", *a)


# ---- handlers around a call made by the helper module


def guard_default(f, *a):
    try:
        return f(*a)
    except Exception:
        return "dflt"


def guard_log(f, *a):
    try:
        return f(*a)
    except Exception as e:
        log("swallowed:" + type(e).__name__)
    return "dflt"


def guard_tuple(f, *a):
    try:
        return f(*a)
    except (KeyError, OSError, Exception):
        return "dflt"


def guard_specific_first(f, *a):
    try:
        return f(*a)
    except KeyError:
        return "key"
    except Exception:
        return "dflt"


def guard_suppress(f, *a):
    with contextlib.suppress(Exception):
        return f(*a)
    return "dflt"


def guard_finally(f, *a):
    try:
        return f(*a)
    finally:
        log("cleanup")


def guard_reraise(f, *a):
    try:
        return f(*a)
    except Exception:
        log("seen")
        raise


def guard_wrap(f, *a):
    try:
        return f(*a)
    except Exception as e:
        raise RuntimeError("wrapped") from e


def guard_else(f, *a):
    try:
        r = f(*a)
    except Exception:
        r = "dflt"
    else:
        log("no-error")
    return r


def guard_retry(f, *a):
    for _i in range(2):
        try:
            return f(*a)
        except Exception:
            log("retry")
    return "gave-up"


def _run_one(cb, default):
    try:
        return cb()
    except Exception as e:
        log("callback failed:" + type(e).__name__)
        return default


def _run_callbacks(cbs, default):
    return [_run_one(cb, default) for cb in cbs]


def guard_runner(f, *a):
    # a best-effort plugin runner: a failing callback must not take the job down
    return _run_callbacks([lambda: "first", lambda: f(*a)], "dflt")[-1]


@contextlib.contextmanager
def _quiet():
    try:
        yield
    except Exception:
        log("quiet")


def guard_ctxmgr(f, *a):
    r = "dflt"
    with _quiet():
        r = f(*a)
    return r


def _best_effort(g):
    @functools.wraps(g)
    def w(*a, **k):
        try:
            return g(*a, **k)
        except Exception:
            return "dflt"
    return w


def guard_decorator(f, *a):
    return _best_effort(f)(*a)


def guard_nested(f, *a):
    try:
        try:
            return f(*a)
        finally:
            log("inner-cleanup")
    except Exception:
        return "dflt"


def guard_generator(f, *a):
    def gen():
        try:
            yield f(*a)
        except Exception:
            yield "dflt"
    return list(gen())[0]
'''
LOGMOD_SRC = P.LOGMOD_SRC + LOGMOD_EXTRA

# handlers written in the accepted function itself; {E} is the call, the statement sets x
ACCEPTED_HANDLERS = {
    "default": "try:\n    x = {E}\nexcept Exception:\n    x = 'dflt'",
    "log": "try:\n    x = {E}\nexcept Exception as e:\n    vlogmod.log('swallowed:' + type(e).__name__)\n    x = 'dflt'",
    "tuple": "try:\n    x = {E}\nexcept (KeyError, OSError, Exception):\n    x = 'dflt'",
    "suppress": "x = 'dflt'\nwith contextlib.suppress(Exception):\n    x = {E}",
    "finally": "try:\n    x = {E}\nfinally:\n    vlogmod.log('cleanup')",
    "reraise": "try:\n    x = {E}\nexcept Exception:\n    vlogmod.log('seen')\n    raise",
    "else": "try:\n    x = {E}\nexcept Exception:\n    x = 'dflt'\nelse:\n    vlogmod.log('no-error')",
    "retry": "x = 'gave-up'\nfor _i in range(2):\n    try:\n        x = {E}\n        break\n    except Exception:\n        vlogmod.log('retry')",
}
HELPER_HANDLERS = ["default", "log", "tuple", "specific_first", "suppress", "finally", "reraise", "wrap", "else", "retry", "runner",
                   "ctxmgr", "decorator", "nested", "generator"]
# "none": no handler (control); "h:": in the helper module; "a:": in the accepted function making the call; "c:": in
# its accepted caller (the call is made one plain call deeper)
HANDLERS = ["none"] + ["h:" + h for h in HELPER_HANDLERS] + ["a:" + h for h in ACCEPTED_HANDLERS] + ["c:" + h for h in ACCEPTED_HANDLERS]

# how the call is hidden from the analysis: mode -> (callable expression written in the accepted function, leading arguments)
CARRIERS = {
    "helper": {m: (f"vlogmod.hidden_{m}", "") for m in ("eval", "keep", "call", "raise")},
    "helper-deep": {m: (f"vlogmod.deep_{m}", "") for m in ("eval", "keep", "call", "raise")},
    "alias": {"eval": ("vlogmod.evaluate", ""), "keep": ("vlogmod.keeper", ""), "call": ("vlogmod.hidden_call", ""), "raise": ("vlogmod.hidden_raise", "")},
    "getattr": {"eval": ("getattr(dds, 'ev' + 'al')", ""), "keep": ("getattr(dds, 'ke' + 'ep')", ""),
                "call": ("getattr(vlogmod, 'hidden_' + 'call')", ""), "raise": ("getattr(vlogmod, 'hidden_' + 'raise')", "")},
    "data": {m: (f"vlogmod.OPS[{m!r}]", "") for m in ("eval", "keep", "call", "raise")},
    "passed": {"eval": ("vlogmod.apply1", "dds.eval, "), "keep": ("vlogmod.apply1", "dds.keep, "),
               "call": ("vlogmod.apply1", "vlogmod.hidden_call, "), "raise": ("vlogmod.apply1", "vlogmod.hidden_raise, ")},
    "method": {m: (f"vlogmod.Runner({m!r}).run", "") for m in ("eval", "keep", "call", "raise")},
}
SHAPES = ["kept", "kept-kept", "root", "sibling-before", "sibling-after", "xmod"]
TOPS = ["eval", "keep"]
# eval: hidden nested dds.eval; keep: hidden dds.keep of a path under the path of the running keep; call, raise: twins
MODES = ["eval", "keep", "call", "raise"]
EXPECTED = {"eval": "dds:EVAL_IN_EVAL", "keep": "dds:OVERLAPPING_PATH"}


def valid(sc):
    shape, top, carrier, handler, mode = sc
    # the hidden keep needs a keep that is running around it
    return not (mode == "keep" and shape == "root" and top == "eval")


def fn(name, stmts, after=True):
    return ([f"def {name}():", f"    vlogmod.log({name!r})", "    x = None"] + ["    " + s for s in stmts]
            + ([f"    vlogmod.log('after-{name}')"] if after else []) + ["    return x", "", ""])


def scenario(sc, s):
    """Source lines for modules m0, m1 of scenario number s; the top-level action; the paths it may commit."""
    shape, top, carrier, handler, mode = sc
    r, a, b, c, m, t = f"r{s}", f"a{s}", f"b{s}", f"c{s}", f"k{s}", f"t{s}"
    own = "m1" if shape == "xmod" else "m0"  # module of the function making the call
    tq = t  # (the function handed to the hidden call lives in the module of the function making the call)
    call, lead = CARRIERS[carrier][mode]
    args = lead + (f'"/p{s}/q", ' if mode == "keep" else "") + tq
    place, h = (handler.split(":") + [None])[:2] if handler != "none" else ("none", None)
    if place == "h":
        E = f"vlogmod.guard_{h}({call}, {args})"
    else:
        E = f"{call}({args})"
    offending = [f"x = {E}"] if place in ("none", "h", "c") else ACCEPTED_HANDLERS[h].format(E=E).split("\n")
    src = {"m0": [], "m1": []}
    src[own] += fn(t, [f"x = 'v_{t}'"], after=False)
    if place == "c":
        src[own] += fn(b, offending)
        offending = ACCEPTED_HANDLERS[h].format(E=f"{b}()").split("\n")
    aq = a if own == "m0" else f"m1.{a}"
    if shape == "root":
        src["m0"] += fn(r, offending)
        paths = [f"/p{s}"] if top == "keep" else []
    else:
        src[own] += fn(a, offending)
        paths = [f"/p{s}"]
        keep_a = f'x = dds.keep("/p{s}", {aq})'
        if shape == "kept":
            body = [keep_a]
        elif shape == "xmod":
            # (dds.keep wants a plain name: the function of the other module is called by the kept function)
            src["m0"] += fn(m, [f"x = {aq}()"])
            body = [f'x = dds.keep("/p{s}", {m})']
        elif shape == "kept-kept":
            src["m0"] += fn(m, [keep_a])
            body = [f'x = dds.keep("/o{s}", {m})']
            paths.append(f"/o{s}")
        else:
            src["m0"] += fn(c, [f"x = 'v_{c}'"], after=False)
            sib = f'y = dds.keep("/s{s}", {c})'
            body = [sib, keep_a] if shape == "sibling-before" else [keep_a, sib]
            paths.append(f"/s{s}")
        src["m0"] += fn(r, body)
        if top == "keep":
            paths.append(f"/top{s}")
    act = {"a": "call", "mod": "m0", "fn": r, "style": top, "pos": [], "kw": []}
    if top == "keep":
        act["path"] = f"/p{s}" if shape == "root" else f"/top{s}"
    return src, act, sorted(paths)


def describe(sc):
    shape, top, carrier, handler, mode = sc
    what = {"eval": "nested dds.eval", "keep": "dds.keep of a path under the path being kept", "call": "plain call (well-formed twin)",
            "raise": "user exception (well-formed twin)"}[mode]
    where = {"none": "no handler around it", "h": "under handler '%s' of the helper module", "a": "under handler '%s' in the accepted function making the call",
             "c": "under handler '%s' in the accepted caller, one call above"}
    place, h = (handler.split(":") + [None])[:2] if handler != "none" else ("none", None)
    return (f"{what} hidden from the analysis (carrier '{carrier}': {CARRIERS[carrier][mode][0]}), "
            + (where[place] % h if h else where[place]) + f", shape '{shape}', top-level dds.{top}")


def write_pkg(root, scen):
    head = ["import contextlib", "import dds", "import vlogmod"]
    src = {"m0": head + ["from . import m1", "", ""], "m1": head + ["from . import m0", "", ""]}
    acts, meta = [], []
    for s, sc in scen:
        ssrc, act, paths = scenario(sc, s)
        for k in src:
            src[k] += ssrc[k]
        acts.append(act)
        # the store afterwards, as dds.load sees it
        acts += [{"a": "load", "path": p} for p in paths]
        meta.append({"s": s, "sc": list(sc), "paths": paths, "n_acts": 1 + len(paths), "src": {k: "\n".join(v) for k, v in ssrc.items()}})
    pdir = os.path.join(root, PKG)
    os.makedirs(pdir, exist_ok=True)
    open(os.path.join(pdir, "__init__.py"), "w").write("")
    for k in src:
        open(os.path.join(pdir, k + ".py"), "w").write("\n".join(src[k]) + "\n")
    open(os.path.join(root, P.LOGMOD + ".py"), "w").write(LOGMOD_SRC)
    open(os.path.join(root, P.EXTMOD + ".py"), "w").write("")
    return acts, meta


def run_batch(scen):
    """The scenarios [(s, scenario)] of one batch in one process on one local store (distinct functions and paths: they are
    independent whatever each of them leaves behind), and in a second process by the plain-execution reference."""
    root = tempfile.mkdtemp(prefix="c11d_", dir=C.scratch_dir())
    try:
        acts, meta = write_pkg(root, scen)
        store = {"kind": "local", "internal_dir": os.path.join(root, "i"), "data_dir": os.path.join(root, "d")}
        out = C.run_driver("drive_prog.py", {"root": root, "pkg": PKG, "store": store, "actions": acts})
        ref = C.run_driver("drive_c11dyn.py", {"root": root, "pkg": PKG, "actions": acts})
        # what is committed in the end, as the file system shows it (one entry of the data directory per committed path)
        files = sorted("/" + os.path.relpath(os.path.join(d, f), store["data_dir"]) for d, _, fs in os.walk(store["data_dir"]) for f in fs)
        res, i = [], 0
        for mt in meta:
            n = mt["n_acts"]
            res.append(dict(mt, impl=out[i:i + n], ref=ref[i:i + n], files=[f for f in files if f in mt["paths"]]))
            i += n
        return res
    except Exception as e:  # noqa
        return [{"error": str(e)[-800:], "scen": [[s, list(sc)] for s, sc in scen[:3]]}]
    finally:
        shutil.rmtree(root, ignore_errors=True)


def judge(r):
    """List of (violation key, what) for one scenario result.  Keys: dynamic:<offence>:<handler>:<what>."""
    sc = tuple(r["sc"])
    shape, top, carrier, handler, mode = sc
    impl, ref = r["impl"][0], r["ref"][0]
    out, log = impl["out"], impl["log"]
    puts = [x[2] for x in impl["rec"] if x[0] == "put"]
    syncs = [sorted(p for p, _ in x[1]) for x in impl["rec"] if x[0] == "sync"]
    loads = {p: (a["out"], b["out"]) for p, a, b in zip(r["paths"], r["impl"][1:], r["ref"][1:])}
    where = describe(sc) + f", m0.r{r['s']}"
    bad = []
    if mode in EXPECTED:
        exp = EXPECTED[mode]
        fam = {"eval": "nested-eval", "keep": "hidden-keep-overlap"}[mode]
        handler = handler if mode == "eval" else "*"
        if ref["out"] != exp or ref["sync"] is not None:
            return [("harness-error:c11d-reference", f"{where}: the reference gave {ref['out']}")]
        # rejected by the analysis after all (nothing at all runs: what the property states), or at the offending call
        static = out == exp and not log and not puts
        committed = sorted(set([p for p in r["paths"] if loads[p][0].startswith("ok:")] + r["files"]))
        probs = []
        if out != exp:
            probs.append(("not-rejected" if out.startswith("ok:") else "wrong-error", f"expected {exp} but the evaluation gave {out[:60]}"))
        if log != ref["log"] and not static:
            probs.append(("execution-differs", f"it executed {log} but execution stopping at the offence gives {ref['log']}"))
        if syncs or (puts != ref["puts"] and not static) or committed:
            probs.append(("store-touched", f"it stored blobs {puts} (keeps completed before the offence: {ref['puts']}), committed {syncs}, afterwards "
                          f"dds.load / the data directory show {committed}"))
        if probs:
            bad.append((f"dynamic:{fam}:{handler}:{probs[0][0]}", f"{where}: " + "; ".join(p[1] for p in probs)))
    else:
        same = (out == ref["out"] and log == ref["log"] and puts == ref["puts"]
                and syncs == ([ref["sync"]] if ref["sync"] is not None else []) and all(a == b for a, b in loads.values()))
        if not same:
            key = "well-formed-rejected" if out.startswith("dds:") else "well-formed-differs-from-plain-execution"
            bad.append((f"dynamic:{mode}-twin:{handler}:{key}", f"{where}: {out[:60]} log {log} blobs {puts} committed {syncs} loads "
                        f"{[v[0][:20] for v in loads.values()]} but plain execution gives {ref['out'][:60]} log {ref['log']} blobs {ref['puts']} "
                        f"committed {ref['sync']} loads {[v[1][:20] for v in loads.values()]}"))
    if impl.get("in_eval"):
        bad.append((f"dynamic:{mode}:{handler}:context-left-open", f"{where}: the library is still inside an evaluation after the call returned"))
    return bad


def sweep_cases(tier, rng):
    """quick: every handler x every carrier x {nested eval, the two twins} and every handler x two carriers x hidden keep
    (shape and top-level entry rotate), every handler x every shape x both top-level entries for the nested eval (carrier
    rotates); thorough: the full product."""
    if tier != "quick":
        return [sc for sc in itertools.product(SHAPES, TOPS, CARRIERS, HANDLERS, MODES) if valid(sc)]
    out, k = [], rng.randrange(1000)
    shtop = [(sh, tp) for sh in SHAPES for tp in TOPS]
    for handler in HANDLERS:
        for ci, carrier in enumerate(CARRIERS):
            for mode in MODES:
                k += 1
                if mode == "keep" and (ci + k) % 7 > 1:
                    continue
                sh, tp = shtop[k % len(shtop)]
                if not valid((sh, tp, carrier, handler, mode)):
                    sh = "kept"
                out.append((sh, tp, carrier, handler, mode))
        for sh, tp in shtop:
            k += 1
            out.append((sh, tp, list(CARRIERS)[k % len(CARRIERS)], handler, "eval"))
    return list(dict.fromkeys(out))


def run(rep, tier, seed, proof_ok, rng):
    cases = sweep_cases(tier, rng)
    rng.shuffle(cases)
    per = 60
    jobs = [[(i + j, sc) for j, sc in enumerate(cases[i:i + per])] for i in range(0, len(cases), per)]
    with cf.ThreadPoolExecutor(max_workers=C.NPROC) as ex:
        res = list(ex.map(run_batch, jobs))
    n, verdicts, by_kind = 0, {}, {}
    for rs in res:
        for r in rs:
            if "error" in r:
                rep.violation("harness-error:c11d", "dynamic sweep batch could not be run: " + r["error"][-300:], r, no_input=True)
                continue
            n += 1
            sc = r["sc"]
            rep.case("dynamic:" + ":".join(sc))
            out = r["impl"][0]["out"]
            v = sc[4] + " -> " + (out if not out.startswith("ok") else "ok")
            verdicts[v] = verdicts.get(v, 0) + 1
            by_kind[sc[4]] = by_kind.get(sc[4], 0) + 1
            for key, what in judge(r):
                rep.violation(key, what, {"dynamic_sweep": True, "scenario": sc, "expected": EXPECTED.get(sc[4], "plain execution"),
                                          "impl": [{k: x.get(k) for k in ("out", "log", "rec", "tb")} for x in r["impl"]], "ref": r["ref"],
                                          "src": r["src"], "cmd": "harness/c11_dynamic.py: run_batch([(0, scenario)]) then dds." + sc[1] + "(vpd.m0.r0)"},
                              no_input=key.startswith("harness-error"))
    rep.extra["dynamic_sweep"] = {"scenarios": n, "handlers": len(HANDLERS), "carriers": len(CARRIERS), "shapes": len(SHAPES),
                                  "top_level_entries": len(TOPS), "kinds_of_hidden_call": len(MODES), "by_kind": by_kind, "verdicts": verdicts}
    return n


def replay(r):
    res = run_batch([(0, tuple(r["scenario"]))])[0]
    if "error" in res:
        print(res["error"])
        return 2
    bad = judge(res)
    print("# vlogmod.py (non-accepted): harness/c11_dynamic.py LOGMOD_SRC")
    for k in ("m0", "m1"):
        print(f"# {PKG}/{k}.py (accepted)")
        print(res["src"][k])
    print(json.dumps({"scenario": res["sc"], "what": describe(tuple(res["sc"])), "expected": EXPECTED.get(res["sc"][4], "plain execution"),
                      "impl": [{k: x.get(k) for k in ("out", "log", "rec")} for x in res["impl"]], "ref": res["ref"], "violations": bad}, indent=1))
    print("REPRODUCED" if bad else "not reproduced")
    return 1 if bad else 0
