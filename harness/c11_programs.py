"""C11, program part: call cycles, nested dds.eval and overlapping paths through full evaluations."""
import concurrent.futures as cf
import itertools
import json
import os
import random
import shutil
import tempfile

import common as C
import progs as P

PRELUDE = """From Coq Require Import List String.
From DDS Require Import Base.Bytes L2_Disc.Cycle L4_Eval.RunSmall.
Import ListNotations.
"""


def gen_graph(rng, want, positions=False):
    """Random call graph over functions f0..f(n-1) (root = f0) in two modules; want in {'cycle','eval','ok','both'}.
    positions: every edge also gets a syntactic position (c11_positions.GRAPH_POSITIONS) for the call that realises it
    (last element of the edge); the edge closing the cycle and the nested eval never sit in a plain assignment."""
    n = rng.randint(2, 6)
    mods = [rng.choice(["m0", "m1"]) for _ in range(n)]
    mods[0] = "m0"
    edges = {i: [] for i in range(n)}
    # a spanning DAG (i -> j with j > i) so that everything is reachable at some depth
    for j in range(1, n):
        i = rng.randrange(0, j)
        edges[i].append(["to", rng.choice(["call", "keep", "ref", "method"]), j])
    for _ in range(rng.randint(0, 3)):
        i, j = sorted(rng.sample(range(n), 2))
        edges[i].append(["to", rng.choice(["call", "keep", "ref", "method"]), j])
    offending = []
    if want in ("cycle", "both"):
        # back edge closing a cycle of length 1..4
        j = rng.randrange(n)
        anc = [j]
        # walk up to 3 steps along existing forward edges to find a descendant chain
        cur = j
        for _ in range(rng.randint(0, 3)):
            outs = [e[2] for e in edges[cur] if e[0] == "to" and e[2] > cur]
            if not outs:
                break
            cur = rng.choice(outs)
            anc.append(cur)
        edges[cur].append(["to", rng.choice(["call", "keep", "ref", "method"]), j])
        offending.append(edges[cur][-1])
    if want in ("eval", "both"):
        i = rng.randrange(n)
        offending.append(["eval", rng.randrange(n)])
        edges[i].insert(rng.randint(0, len(edges[i])), offending[-1])
    for i in range(n):
        rng.shuffle(edges[i]) if rng.random() < 0.5 else None
    # cross-module edges can only be plain calls through the module attribute
    for i in range(n):
        for e in edges[i]:
            if e[0] == "to" and mods[e[2]] != mods[i] and e[1] != "call":
                e[1] = "call"
    # some functions that are only reached by plain calls get the name of a Python builtin; dds.eval may be imported and
    # called as a bare name (from dds import eval)
    names = [f"f{i}" for i in range(n)]
    builtin_names = ["format", "filter", "hash", "input", "compile", "sorted", "print", "len"]
    rng.shuffle(builtin_names)
    for j in range(1, n):
        incoming = [e for i in range(n) for e in edges[i] if e[0] == "to" and e[2] == j]
        if incoming and all(e[1] == "call" for e in incoming) and rng.random() < 0.35:
            names[j] = builtin_names.pop()
    bare_eval = rng.random() < 0.5
    if positions:
        import c11_positions as CP
        classes = sorted(CP.GRAPH_CLASSES)
        for i in range(n):
            for e in edges[i]:
                e.append(rng.choice(CP.GRAPH_CLASSES[rng.choice(classes)]) if any(e is o for o in offending) or rng.random() < 0.5 else "assign")
    return {"n": n, "mods": mods, "edges": edges, "names": names, "bare_eval": bare_eval, "positions": bool(positions)}


def render(gr, root_dir, pkg="vpg"):
    """Writes the package; returns the graph as the analysis sees it: list of (name, [edge...]) with pseudo edges."""
    n, mods, edges = gr["n"], gr["mods"], gr["edges"]
    names = gr.get("names") or [f"f{i}" for i in range(n)]
    ev = "eval" if gr.get("bare_eval") else "dds.eval"
    imp = ["from dds import eval"] if gr.get("bare_eval") else []
    src = {"m0": ["import dds", "import vlogmod", "from . import m1"] + imp + [""], "m1": ["import dds", "import vlogmod", "from . import m0"] + imp + [""]}
    logmod_src = P.LOGMOD_SRC
    if gr.get("positions"):
        # the call of every edge is placed in the syntactic position the edge carries; the accepted helpers of the
        # positions (leaves of the call graph: they do not change what is reachable) are not part of the model graph
        import c11_positions as CP
        for m in src:
            src[m] += CP.HELPERS
        logmod_src = CP.LOGMOD_SRC

    def stmt(k, e, E):
        if not gr.get("positions"):
            return [f"    x{k} = {E}"]
        return ["    " + l for l in CP.place(e[-1], E)]
    model = []
    npath = 0
    for i in range(n):
        m = mods[i]
        body, medges, seen = [], [], set()
        classes = []
        for k, e in enumerate(edges[i]):
            if e[0] == "eval":
                tgt = names[e[1]] if mods[e[1]] == m else f"{mods[e[1]]}.{names[e[1]]}"
                body += stmt(k, e, f"{ev}({tgt})")
                medges.append("EEval")
                continue
            kind, j = e[1], e[2]
            same = mods[j] == m
            name = names[j]
            if kind == "call":
                if same:
                    body += stmt(k, e, f"{name}()")
                    seen.add(name)
                else:
                    body += stmt(k, e, f"{mods[j]}.{name}()")
                    seen.add(mods[j])
                medges.append(f"ETo KCall {C.hexs(name)}")
            elif kind == "keep":
                npath += 1
                body += stmt(k, e, f'dds.keep("/c{npath}", {name})')
                medges.append(f"ETo KKeep {C.hexs(name)}")
                if name not in seen:
                    seen.add(name)
                    medges.append(f"ETo KRef {C.hexs(name)}")
            elif kind == "ref":
                body += stmt(k, e, f"vlogmod.apply({name})")
                if name not in seen:
                    seen.add(name)
                    medges.append(f"ETo KRef {C.hexs(name)}")
            elif kind == "method":
                cname = f"C{i}_{k}"
                classes.append((cname, name))
                body += stmt(k, e, f"{cname}().run()")
                seen.add(cname)
                medges.append(f"ETo KMethod {C.hexs(cname)}")
                model.append((cname, [f"ETo KCall {C.hexs(name)}"]))
        for cname, name in classes:
            src[m] += [f"class {cname}:", "    def run(self):", f"        return {name}()", "", ""]
        src[m] += [f"def {names[i]}():"] + body + [f"    vlogmod.log('f{i}')", f"    return 'f{i}'", "", ""]
        model.append((names[i], medges))
    pdir = os.path.join(root_dir, pkg)
    os.makedirs(pdir, exist_ok=True)
    open(os.path.join(pdir, "__init__.py"), "w").write("")
    for m in src:
        open(os.path.join(pdir, m + ".py"), "w").write("\n".join(src[m]) + "\n")
    open(os.path.join(root_dir, P.LOGMOD + ".py"), "w").write(logmod_src)
    open(os.path.join(root_dir, P.EXTMOD + ".py"), "w").write("")
    return model


def spec_expect(gr):
    """Specification: is a cycle / a dds.eval reachable from the root f0?"""
    n, edges = gr["n"], gr["edges"]
    adj = {i: [e[2] for e in edges[i] if e[0] == "to"] for i in range(n)}
    reach, todo = {0}, [0]
    while todo:
        a = todo.pop()
        for b in adj[a]:
            if b not in reach:
                reach.add(b)
                todo.append(b)

    def reaches(a, b):
        s, t = set(), [a]
        while t:
            x = t.pop()
            for y in adj[x]:
                if y == b:
                    return True
                if y not in s:
                    s.add(y)
                    t.append(y)
        return False
    cyc = any(reaches(a, a) for a in reach)
    ev = any(e[0] == "eval" for a in reach for e in edges[a])
    return cyc, ev


def run_graph_case(args):
    seed, want, positions = args
    rng = random.Random(seed)
    gr = gen_graph(rng, want, positions)
    root = tempfile.mkdtemp(prefix="c11g_", dir=C.scratch_dir())
    try:
        model_graph = render(gr, root)
        store = {"kind": "local", "internal_dir": os.path.join(root, "i"), "data_dir": os.path.join(root, "d")}
        acts = [{"a": "call", "mod": "m0", "fn": "f0", "style": "eval", "pos": [], "kw": []}]
        out = C.run_driver("drive_prog.py", {"root": root, "pkg": "vpg", "store": store, "actions": acts})[0]
        g_coq = "[" + "; ".join(f"({C.hexs(n)}, [" + "; ".join(es) + "])" for n, es in model_graph) + "]"
        return {"seed": seed, "want": want, "graph": gr, "impl": out, "g_coq": g_coq, "spec": spec_expect(gr),
                "src": {m: open(os.path.join(root, "vpg", m + ".py")).read() for m in ("m0", "m1")}}
    except Exception as e:  # noqa
        return {"seed": seed, "error": str(e)[-800:]}
    finally:
        shutil.rmtree(root, ignore_errors=True)


def overlap_program(paths, nest):
    """root keeps paths[i] through callees; nest[i] = index of the keep inside whose callee keep i is placed (or None)."""
    funcs = []
    for i, p in enumerate(paths):
        funcs.append({"name": f"g{i}", "params": [], "annot": None, "salt": f"g{i}", "stmts": [], "reads": []})
    root = {"name": "root", "params": [], "annot": None, "salt": "r", "stmts": [], "reads": []}
    for i, p in enumerate(paths):
        st = {"k": "keep", "path": p, "callee": ("m0", f"g{i}"), "pos": [], "kw": [], "layout": "single"}
        if nest[i] is None:
            root["stmts"].append(st)
        else:
            funcs[nest[i]]["stmts"].append(st)
    # callees must be defined before use in fn_term recursion order: g_i may keep g_j only for j > i (nest[j] = i < j)
    return {"pkg": "vpo", "ext_helpers": {}, "root": ("m0", "root"), "modules": {"m0": {"vars": {}, "funcs": funcs + [root]}}}


def run(rep, tier, seed, proof_ok, rng):
    import hist
    n_graphs = 40 if tier == "quick" and proof_ok else 400
    wants = ["cycle", "eval", "ok", "both"]
    jobs = [(seed * 10000 + i, wants[i % 4], False) for i in range(n_graphs)]
    # the same, the call of every edge in a random syntactic position (call chains, arguments, operands, statements)
    n_pos_graphs = 24 if tier == "quick" and proof_ok else 300
    jobs += [(seed * 10000 + 5000 + i, wants[i % 4], True) for i in range(n_pos_graphs)]
    with cf.ThreadPoolExecutor(max_workers=C.NPROC) as ex:
        res = list(ex.map(run_graph_case, jobs))
    good = [r for r in res if "error" not in r]
    model = C.coq_eval_strings(PRELUDE, [f"run_graph {r['g_coq']} {C.hexs('f0')}" for r in good], label="c11g")
    verdicts = {}
    for r, m in zip(good, model):
        cyc, ev = r["spec"]
        rep.case(f"graph:{r['seed']}", nontrivial=cyc or ev)
        out = r["impl"]["out"]
        verdicts[out if not out.startswith("ok") else "ok"] = verdicts.get(out if not out.startswith("ok") else "ok", 0) + 1
        replay = {"graph": r["graph"], "src": r["src"], "impl": out, "model": m, "seed": r["seed"]}
        sfx = note = ""
        if r["graph"].get("positions"):
            sfx = ":positions"
            note = " [calls placed in positions " + ", ".join(sorted({e[-1] for es in r["graph"]["edges"].values() for e in es} - {"assign"})) + "]"
        iv = "ok" if out.startswith("ok:") else out
        if iv != m:
            rep.violation("model-mismatch:graph" + sfx, f"call-graph analysis: implementation {out[:60]} vs model {m}" + note, replay)
        if cyc and not ev and out != "dds:CIRCULAR_CALL":
            rep.violation("cycle-not-rejected" + sfx, f"a call cycle is reachable from the root but the evaluation gave {out[:60]}" + note, replay)
        if ev and not cyc and out != "dds:EVAL_IN_EVAL":
            rep.violation("nested-eval-not-rejected" + sfx, f"a nested dds.eval is reachable from the root but the evaluation gave {out[:60]}" + note, replay)
        if (cyc or ev) and out not in ("dds:CIRCULAR_CALL", "dds:EVAL_IN_EVAL"):
            rep.violation("ill-formed-not-rejected" + sfx, f"ill-formed evaluation gave {out[:60]}" + note, replay)
        if not cyc and not ev and not out.startswith("ok:"):
            rep.violation("well-formed-rejected" + sfx, f"well-formed evaluation was rejected: {out[:60]}" + note, replay)
        if (cyc or ev) and (r["impl"]["log"] or any(x[0] in ("put", "sync") for x in r["impl"]["rec"])):
            rep.violation("rejected-but-ran" + sfx, f"rejected evaluation executed {r['impl']['log']} or touched the store" + note, replay)
    for r in res:
        if "error" in r:
            rep.violation("harness-error:c11", "graph case could not be run: " + r["error"][-300:], r, no_input=True)
    # overlapping paths through full evaluations, every order and nesting placement
    ocases = []
    base = [["/f", "/f/h"], ["/f", "/g", "/f/h"], ["/f/a", "/g", "/f/a/b", "/h"], ["/f", "/g"], ["/f/a", "/f/b", "/g"]]
    for paths in base:
        perms = list(itertools.permutations(paths))
        rng.shuffle(perms)
        for perm in perms[: (3 if tier == "quick" else 24)]:
            for nest_kind in ("flat", "chain", "mixed"):
                k = len(perm)
                if nest_kind == "flat":
                    nest = [None] * k
                elif nest_kind == "chain":
                    nest = [None] + list(range(k - 1))
                else:
                    nest = [None] + [rng.choice([None] + list(range(i))) for i in range(1, k)]
                ocases.append((list(perm), nest))

    def run_o(case):
        paths, nest = case
        prog = overlap_program(paths, nest)
        call = {"a": "call", "mod": "m0", "fn": "root", "style": "eval", "pos": [], "kw": []}
        try:
            return hist.run_history([("prog", prog), ("act", call)], run_ref=False)
        except Exception as e:  # noqa
            return {"error": str(e)[-500:]}
    with cf.ThreadPoolExecutor(max_workers=C.NPROC) as ex:
        ores = list(ex.map(run_o, ocases))
    import c11
    for (paths, nest), recs in zip(ocases, ores):
        rep.case(json.dumps(["overlap-eval", paths, nest]))
        if isinstance(recs, dict):
            rep.violation("harness-error:c11o", recs["error"][-300:], {"paths": paths, "nest": nest}, no_input=True)
            continue
        r = recs[0]
        exp = c11.expected_overlap(paths)
        out = r["impl"]["out"]
        replay = {"overlap_eval": True, "paths": paths, "nest": nest, "impl": out}
        d = hist.compare(r)
        if d:
            rep.violation("model-mismatch:overlap-eval", f"implementation and model disagree: {json.dumps(d[:2])[:300]}", replay)
        if exp and out != "dds:OVERLAPPING_PATH":
            rep.violation("overlap-eval-missed", f"evaluation keeping {paths} (nesting {nest}) was not rejected: {out[:60]}", replay)
        if exp and (r["impl"]["log"] or any(x[0] in ("put", "sync") for x in r["impl"]["rec"])):
            rep.violation("rejected-but-ran", f"rejected evaluation executed {r['impl']['log']} or touched the store", replay)
        if not exp and not out.startswith("ok:"):
            rep.violation("well-formed-rejected", f"evaluation keeping {paths} was rejected: {out[:60]}", replay)
    # the path given to a top-level dds.keep overlaps a path kept inside the function, on a store that already holds the
    # result of the same function kept at a harmless path (the root blob is present: nothing needs to run)
    rcases = []
    for inner in (["/f/h", "/g"], ["/a/b/c"], ["/f"]):
        for rootp in ("/f", "/g/z", "/f/h/k", "/a", "/a/b", "/q", "/f/h"):
            if rootp in inner:
                continue
            for warm in (True, False):
                rcases.append((inner, rootp, warm))

    def run_r(case):
        inner, rootp, warm = case
        prog = overlap_program(inner, [None] * len(inner))
        k1 = {"a": "call", "mod": "m0", "fn": "root", "style": "keep", "path": "/x_harmless", "pos": [], "kw": []}
        k2 = dict(k1, path=rootp)
        try:
            return hist.run_history([("prog", prog)] + ([("act", k1)] if warm else []) + [("act", k2)], run_ref=False)
        except Exception as e:  # noqa
            return {"error": str(e)[-500:]}
    with cf.ThreadPoolExecutor(max_workers=C.NPROC) as ex:
        rres = list(ex.map(run_r, rcases))
    for (inner, rootp, warm), recs in zip(rcases, rres):
        rep.case(json.dumps(["overlap-root-path", inner, rootp, warm]))
        if isinstance(recs, dict):
            rep.violation("harness-error:c11r", recs["error"][-300:], {"inner": inner, "root_path": rootp}, no_input=True)
            continue
        r = recs[-1]
        exp = c11.expected_overlap(inner + [rootp])
        out = r["impl"]["out"]
        replay = {"overlap_root_path": True, "inner": inner, "root_path": rootp, "store_warm": warm, "impl": out}
        for rr in recs:
            d = hist.compare(rr)
            if d:
                rep.violation("model-mismatch:overlap-root-path", f"implementation and model disagree: {json.dumps(d[:2])[:300]}", replay)
        if exp and out != "dds:OVERLAPPING_PATH":
            rep.violation("overlap-eval-missed:root-path" + (":cached-root" if warm else ""),
                          f"dds.keep({rootp!r}, f) with f keeping {inner} ({'result of f already stored' if warm else 'fresh store'}) was not rejected: {out[:60]}", replay)
        if exp and (r["impl"]["log"] or any(x[0] in ("put", "sync") for x in r["impl"]["rec"])):
            rep.violation("rejected-but-ran", f"rejected evaluation executed {r['impl']['log']} or touched the store", replay)
        if not exp and not out.startswith("ok:"):
            rep.violation("well-formed-rejected", f"dds.keep({rootp!r}, f) with f keeping {inner} was rejected: {out[:60]}", replay)
    # the offending call in every syntactic position, with every kind of offence (and the well-formed twins)
    import c11_positions
    c11_positions.run(rep, tier, seed, proof_ok, rng)
    # the offending call visible to the run-time checks only, under the exception handlers of user code and helper libraries
    import c11_dynamic
    c11_dynamic.run(rep, tier, seed, proof_ok, rng)
    # the offending calls in structurally identical / shared sub-trees (same callee, same arguments; twin functions, sibling
    # methods, a helper reached twice): whatever the analysis de-duplicates by signature must not hide an offence
    import c11_shared
    c11_shared.run(rep, tier, seed, proof_ok, rng)
    rep.extra["program_part"] = {"call_graphs": len(good), "call_graphs_with_positions": sum(1 for r in good if r["graph"].get("positions")), "verdicts": verdicts, "overlap_evaluations": len(ocases), "overlap_root_path": len(rcases)}


def replay(r):
    if r.get("position_sweep"):
        import c11_positions
        return c11_positions.replay(r)
    if r.get("dynamic_sweep"):
        import c11_dynamic
        return c11_dynamic.replay(r)
    if r.get("shared_sweep"):
        import c11_shared
        return c11_shared.replay(r)
    print(json.dumps({k: r[k] for k in r if k != "src"}, indent=1)[:2000])
    print("replay: re-run ./check C11 quick with the same seed; sources are in the replay file")
    return 1
