"""Implementation driver for C03, import state of the process: ONE program (a tree of modules given as source text) is
evaluated in one process after a sequence of steps that only change what the interpreter has imported so far.

stdin: {"root": dir (created here), "files": {relpath: text}, "accept": [module names], "module": "pkg.main",
        "watch": [module names whose presence in sys.modules is reported with every evaluation],
        "plain": bool   the plain execution of the same text: a pass-through stub stands for dds (first on sys.path, the library is not
                        imported at all); only "eval" steps are meaningful,
        "steps": [step ...]}
step: {"op": "import", "mods": [names]}       unrelated code of the host program imports these modules
      {"op": "evict", "mods": [names], "detach": bool}   the modules are removed from sys.modules (what test runners / reloaders do), except
                                               those that the interpreter / the library had loaded at start; detach: also the attribute of the parent package
      {"op": "import_entry"}                   the module of the pipeline is imported now (otherwise: right before its first evaluation)
      {"op": "eval", "fn": name}               dds.eval(<module>.<fn>) on a fresh recording memory store

-> {"evals": [{"step": index, "fn":..., "error": None | "dds:<code>:<text>" | "exc:<type>:<text>", "value": repr | None,
               "synced": [ {path: sig} per sync_paths call ], "stored": [keys handed to store_blob],
               "present": {module: bool}  (sys.modules right BEFORE the evaluation), "ctx_left": bool}],
    "import_error": None | "exc:..."}"""
import importlib
import json
import os
import sys
import warnings

STUB = '''_kept = {}


def keep(path, f, *a, **k):
    r = f(*a, **k)
    _kept[str(path)] = r
    return r


def eval(f, *a, **k):
    return f(*a, **k)


def load(path):
    return _kept[str(path)]


def data_function(path):
    def deco(f):
        def g(*a, **k):
            return keep(path, f, *a, **k)
        return g
    return deco


dds_function = data_function
'''


def main():
    payload = json.load(sys.stdin)
    root = payload["root"]
    for rel, text in payload["files"].items():
        p = os.path.join(root, rel)
        os.makedirs(os.path.dirname(p), exist_ok=True)
        with open(p, "w") as f:
            f.write(text)
    plain = bool(payload.get("plain"))
    if plain:
        sdir = os.path.join(root, "_stub")
        os.makedirs(sdir, exist_ok=True)
        with open(os.path.join(sdir, "dds.py"), "w") as f:
            f.write(STUB)
        sys.path.insert(0, sdir)
    sys.path.insert(0 if not plain else 1, root)
    warnings.simplefilter("ignore")
    import logging
    logging.disable(logging.CRITICAL)
    import dds
    out = {"evals": [], "import_error": None}
    if not plain:
        import dds._api as _api
        from dds.store import MemoryStore
        from dds.structures import DDSException
        for a in payload["accept"]:
            dds.accept_module(a)

        class RS(MemoryStore):
            def __init__(self):
                super().__init__()
                self.synced, self.stored = [], []

            def sync_paths(self, paths):
                self.synced.append({str(p): str(k) for p, k in paths.items()})
                return super().sync_paths(paths)

            def store_blob(self, key, blob, codec=None):
                self.stored.append(str(key))
                return super().store_blob(key, blob, codec)
    else:
        class DDSException(Exception):
            pass
    mod = None
    base = set(sys.modules)          # what the interpreter and the library loaded themselves is never evicted
    for i, st in enumerate(payload["steps"]):
        op = st["op"]
        if op == "import":
            for m in st["mods"]:
                importlib.import_module(m)
        elif op == "evict":
            for m in st["mods"]:
                if m in base:
                    continue
                sys.modules.pop(m, None)
                if st.get("detach") and "." in m:
                    par, _, leaf = m.rpartition(".")
                    if par in sys.modules and hasattr(sys.modules[par], leaf):
                        delattr(sys.modules[par], leaf)
        elif op in ("import_entry", "eval"):
            if mod is None:
                try:
                    mod = importlib.import_module(payload["module"])
                except BaseException as e:  # noqa
                    out["import_error"] = "exc:" + type(e).__name__ + ":" + str(e)[:400]
                    break
            if op == "import_entry":
                continue
            res = {"step": i, "fn": st["fn"], "error": None, "value": None, "synced": [], "stored": [], "ctx_left": False,
                   "present": {m: m in sys.modules for m in payload.get("watch", [])}}
            fun = getattr(mod, st["fn"])
            if plain:
                store = None
            else:
                store = RS()
                dds.set_store(store)
            try:
                res["value"] = repr(dds.eval(fun))
            except DDSException as e:
                res["error"] = "dds:" + (e.error_code.name if getattr(e, "error_code", None) is not None else "NONE") + ":" + str(e)[:300]
            except (KeyboardInterrupt, SystemExit):
                raise
            except BaseException as e:  # noqa
                res["error"] = "exc:" + type(e).__name__ + ":" + str(e)[:300]
            if store is not None:
                res["synced"], res["stored"] = store.synced, store.stored
                res["ctx_left"] = _api._eval_ctx is not None
                _api._eval_ctx = None
            out["evals"].append(res)
        else:
            raise ValueError(st)
    print("@@RESULT@@" + json.dumps(out))


if __name__ == "__main__":
    main()
