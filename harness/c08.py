"""C08 - stores round-trip blobs and paths; distinct paths never alias or escape."""
import concurrent.futures
import itertools
import json
import os
import random

import common as C
import c12
import c16
import drive_store_typed as DT

COQ_FILES = ("L4_Eval/Store.v", "L5_Stores/RunStore.v", "L5_Stores/PathMap.v", "L5_Stores/PathMapProofs.v", "L6_Conc/LocalProgs.v", "L6_Conc/SeqRefine.v", "Properties/C08.v", "Properties/C08b.v", "Base/PyRt.v", "Extracted/GenPath.v", "L5_Stores/GenPathProofs.v", "Properties/C08g.v")
PROPERTY_FILES = ("C08", "C08b", "C08g", "C08m")
EXTRACTED = ("ConstStore", "GenPath", "GenMemStore")
ALLOWED_AXIOMS = ()

PRELUDE = c12.PRELUDE
SEGS = ["a", "b", "ab", "a b", "é", ".x", "x.", "c"]
BAD_SEGS = [".", ".."]
KEYS = ["k0", "k1", "k2", "k3"]
VALUE = {"k0": "v0", "k1": "v1", "k2": None, "k3": "v3"}
STORES = ["memory", "local", "local+lru", "dbfs-full"]
# typed blob values (encodings of drive_store_typed.py): every codec class of the stores (text, bytes, pickle), empty / falsy
# values, the same content under two types, bytes and text that are themselves valid pickles of another value
TYPED = {"s_text": ["str", "text"], "s_empty": ["str", ""], "s_uni": ["str", "\u00e9 \u00fc\n\u4e2d"], "s_pickle0": ["str", "Vtext\np0\n."],
         "b_bin": ["bytes", "00016279746573ff"], "b_text": ["bytes", b"text".hex()], "b_empty": ["bytes", ""], "ba_bin": ["bytearray", "fffe00"],
         "b_pickle_text": ["pickled", ["str", "text"]], "b_pickle_none": ["pickled", ["none"]],
         "none": ["none"], "o_dict": ["json", {"a": 1}], "o_list": ["json", [1, "x", None]], "o_elist": ["json", []], "o_zero": ["json", 0],
         "o_false": ["json", False], "o_float": ["json", 1.5], "o_tuple": ["tuple", [["str", "text"], ["bytes", "00"]]]}
TYPED_CORE = ["s_text", "s_empty", "b_bin", "b_text", "b_pickle_text", "none", "o_dict", "o_zero"]
TYPED_STORES = ["memory", "local", "dbfs-full"]
TKEYS = ["k0", "k1", "k2"]
# shapes of the directories a store is opened on (internal directory x data directory): the ones of C16 (relative, trailing
# slash, nested not yet existing, pre-existing, a symbolic link among the ancestors or the directory itself a link) and more;
# @BASE@ is the fresh base directory of a history (prepared by drive_store_dirs.layout), @BASENAME@ its last component
DIR_SHAPES = dict(c16.DIR_SHAPES)
DIR_SHAPES.update({
    "spaces-unicode-dots": lambda base, name: os.path.join(base, "sp ace", "\u00e9 \u00fc", ".hid.d", name + ".d"),
    "dot-dot-segment": lambda base, name: os.path.join(base, "real_parent", "..", name),
    "double-slash": lambda base, name: base + "//n3//" + name + "//",
    "relative-up": lambda base, name: os.path.join("..", "@BASENAME@", name),
    "symlink-relative-target": lambda base, name: os.path.join(base, "rsl_" + name),
    "symlink-chain": lambda base, name: os.path.join(base, "ch_" + name),
    # the name of one directory is a prefix of the name of the other one
    "name-prefix-sibling": lambda base, name: os.path.join(base, "store" + ("" if name == "int" else "." + name)),
})
# how a second store object names the (same) directories of the first one; the two objects share one history
READERS = ["real", "via-link", "relative", "trailing-slash", "dot-segment", "same"]
DIR_KINDS = ["local", "local+lru", "local/2"]
DBFS_SHAPES = {"plain": "dbfs:/store/{n}", "trailing-slash": "dbfs:/store/{n}/", "nested": "dbfs:/n1/n2/n3/{n}", "top-level": "dbfs:/{n}",
               "spaces-unicode-dots": "dbfs:/sp ace/\u00e9.d/.h/{n}.d", "name-prefix-sibling": "dbfs:/store/d{p}"}


def segs_of(p):
    return tuple(s for s in p.split("/") if s)


def prefix_conflict(p, others):
    a = segs_of(p)
    for q in others:
        b = segs_of(q)
        if a != b and (a[:len(b)] == b or b[:len(a)] == a):
            return True
    return False


def gen_paths(rng, n):
    out = []
    while len(out) < n:
        k = rng.randint(1, 4)
        p = "/" + "/".join(rng.choice(SEGS) for _ in range(k))
        if p not in out and not prefix_conflict(p, out):
            out.append(p)
    return out


def gen_seq(rng, paths, length, reopen=True):
    ops, stored = [], []
    for _ in range(length):
        r = rng.random()
        k = rng.choice(KEYS)
        if r < 0.25:
            ops.append(["put", k, VALUE[k]])
            stored.append(k) if k not in stored else None
        elif r < 0.4:
            ops.append(["has", k])
        elif r < 0.6:
            ops.append(["fetch", k])
        elif r < 0.78 and stored:
            n = rng.randint(1, 3)
            ops.append(["sync", [[rng.choice(paths), rng.choice(stored)] for _ in range(n)]])
        elif r < 0.93:
            ops.append(["fpaths", [rng.choice(paths) for _ in range(rng.randint(1, 2))]])
        elif reopen:
            ops.append(["reopen"])
    return ops


def spec_ops(ops):
    return [o for o in ops if o[0] not in ("reopen", "chdir")]


def gen_dir_history(rng, two):
    """a history for a store opened on directories of a given shape: two blobs are stored and committed under two paths, which are
    read back at once, after the working directory of the process has moved, and (at the end) by a new store object; in between
    a random sequence with more reopenings and moves.  With two store objects every operation is given to one of them: the first
    one writes and the second one reads in the fixed part, at random afterwards."""
    paths = gen_paths(rng, 3)
    ops = [["put", "k0", "v0"], ["put", "k2", None], ["sync", [[paths[0], "k0"], [paths[1], "k2"]]], ["fpaths", [paths[0]]], ["chdir"],
           ["fpaths", [paths[1], paths[0]]], ["fetch", "k0"], ["has", "k2"]]
    who = [0, 0, 0, 1, 0, 1, 1, 1]
    for o in gen_seq(rng, paths, rng.randint(6, 18)):
        if rng.random() < 0.12:
            ops.append(["chdir"])
        ops.append(o)
    ops += [["reopen"], ["fpaths", [paths[0]]], ["fetch", "k0"], ["has", "k1"], ["fpaths", [paths[2]]]]
    who += [rng.randint(0, 1) for _ in range(len(ops) - len(who))]
    return ops, (who if two else None)


def dir_jobs(rng, tier, quick):
    shapes, jobs = list(DIR_SHAPES), []
    n = len(shapes)
    if quick:
        # every shape as internal directory, as data directory, and paired with another shape
        pairs = [(a, "absolute") for a in shapes] + [("absolute", b) for b in shapes[1:]] + [(a, shapes[(i + 5) % n]) for i, a in enumerate(shapes)]
    else:
        pairs = list(itertools.product(shapes, shapes))
    for i, (a, b) in enumerate(pairs):
        kind = DIR_KINDS[(i + i // n) % len(DIR_KINDS)]
        dirs = {"internal": DIR_SHAPES[a]("@BASE@", "int"), "data": DIR_SHAPES[b]("@BASE@", "dat")}
        if kind == "local/2":
            dirs["reader"] = {"internal": READERS[(i // 3) % len(READERS)], "data": READERS[(i // 3 + i // 18 + 1) % len(READERS)]}
        ops, who = gen_dir_history(rng, "reader" in dirs)
        jobs.append({"store": "local", "cap": 3 if "+lru" in kind else "bare", "kind": kind, "ishape": a, "dshape": b, "dirs": dirs, "ops": ops, "who": who})
    # the DBFS store: the shape of the two URIs; a second store object that names them with / without a trailing slash
    dshapes = list(DBFS_SHAPES)
    dpairs = [(a, "plain") for a in dshapes] + [("plain", b) for b in dshapes[1:]] if quick else list(itertools.product(dshapes, dshapes))
    for i, (a, b) in enumerate(dpairs):
        dirs = {"internal": DBFS_SHAPES[a].format(n="int", p=""), "data": DBFS_SHAPES[b].format(n="dat", p=".dat")}
        kind = ["dbfs-full", "dbfs-full/2"][i % 2]
        if kind == "dbfs-full/2":
            dirs["reader"] = {k: (u.rstrip("/") if u.endswith("/") else u + "/") for k, u in dirs.items()}
        ops, who = gen_dir_history(rng, "reader" in dirs)
        jobs.append({"store": "dbfs-full", "cap": "bare", "kind": kind, "ishape": a, "dshape": b, "dirs": dirs, "ops": ops, "who": who})
    return jobs


def dir_outs(r, j):
    # (the DBFS store lets the exception of dbutils through for a path without record; the dictionary says "error")
    return ["E" if (x == "X:Exception" and o[0] == "fpaths" and j["kind"].startswith("dbfs")) else x
            for x, o in zip(r["outs"], j["ops"]) if o[0] not in ("reopen", "chdir")]


def dir_show(j):
    d = j["dirs"]
    rd = d.get("reader")
    return (f"{j['kind']} store opened on internal_dir={d['internal']!r} ({j['ishape']}) data_dir={d['data']!r} ({j['dshape']})" +
            (f" and a second store object on the same directories named {rd['internal']!r} / {rd['data']!r}" if rd else ""))


def check_dirs(rep, djobs, dres, dmodel):
    for j, r, m in zip(djobs, dres, dmodel):
        ops, so = j["ops"], spec_ops(j["ops"])
        rep.case(json.dumps(["dirs", j["kind"], j["dirs"], ops, j["who"]]), (j["ishape"], j["dshape"]) not in (("absolute", "absolute"), ("plain", "plain")))
        replay = {"dirs": j["dirs"], "store": j["kind"], "shapes": [j["ishape"], j["dshape"]], "ops": ops, "who": j["who"], "model": m,
                  "names": r.get("names"), "physical": r.get("physical")}
        if r.get("open_error"):
            rep.violation(f"directory-shape:{j['kind']}:store-not-opened", f"{dir_show(j)}: creating the store object fails: {r['open_error']}", replay)
            continue
        io, mo = dir_outs(r, j), m.split(";")
        if io != mo:
            idx = next((i for i, (a, b) in enumerate(zip(io, mo)) if a != b), -1)
            full = [i for i, o in enumerate(ops) if o[0] not in ("reopen", "chdir")][idx] if idx >= 0 else 0
            ctx = [w for w, t in (("the store was reopened", "reopen"), ("the working directory has changed", "chdir")) if any(o[0] == t for o in ops[:full])]
            rep.violation(f"directory-shape:{j['kind']}:store-differs-from-dictionary:{so[idx][0] if idx >= 0 else '?'}",
                          f"{dir_show(j)}: {so[idx] if idx >= 0 else ''}{' by the second object' if j['who'] and idx >= 0 and j['who'][full] else ''} "
                          f"answers {io[idx] if idx >= 0 else io[:6]} where the dictionary model answers {mo[idx] if idx >= 0 else mo[:6]} "
                          f"(operation {full} of the history{'; before it ' + ' and '.join(ctx) if ctx else ''})", dict(replay, impl=";".join(io), first_diff=idx))
        if r.get("outside"):
            rep.violation(f"directory-shape:{j['kind']}:escape", f"{dir_show(j)}: entries created outside the data directory {r['physical']['data']}: {r['outside'][:4]}",
                          dict(replay, outside=r["outside"]))


def vclass(name):
    """the codec class the stores must record for a typed value"""
    return {"str": "str", "bytes": "bytes", "bytearray": "bytes", "pickled": "bytes"}.get(TYPED[name][0], "pickle")


CANON = {DT.canon(DT.decode(e)): n for n, e in TYPED.items() if n != "none"}
assert len(CANON) == len(TYPED) - 1, "typed values must be pairwise distinguishable"


def typed_show(name):
    return DT.canon(DT.decode(TYPED[name]))


def typed_impl_ops(ops):
    return [[o[0], o[1], TYPED[o[2]]] if o[0] == "put" else o for o in ops]


def typed_model_ops(ops):
    # in the dictionary model a typed value is its name (pairwise distinct values <-> pairwise distinct names)
    return [[o[0], o[1], None if o[2] == "none" else o[2]] if o[0] == "put" else o for o in spec_ops(ops)]


def typed_out(x, o, kind):
    if x.startswith("V:"):
        return "V:" + CANON.get(x[2:], "?" + x[2:])
    if x.startswith("E:") or (x.startswith("X:Exception") and o[0] == "fpaths" and kind.startswith("dbfs")):
        return "E"
    return x


def gen_typed_seq(rng, paths, length, kind):
    """a history that stores the SAME key several times with values of different types; behind the object cache the sequence is
    kept content-addressed (one value per key, stored several times): the cache is only specified under that assumption (C12)"""
    names = sorted(TYPED)
    fixed = {k: rng.choice(names) for k in TKEYS} if "+lru" in kind else None
    ops, stored = [], []
    for _ in range(length):
        r = rng.random()
        k = rng.choice(TKEYS)
        if r < 0.32:
            ops.append(["put", k, fixed[k] if fixed else rng.choice(names if rng.random() < 0.7 else TYPED_CORE)])
            stored.append(k) if k not in stored else None
        elif r < 0.45:
            ops.append(["has", k])
        elif r < 0.7:
            ops.append(["fetch", k])
        elif r < 0.8 and stored:
            ops.append(["sync", [[rng.choice(paths), rng.choice(stored)] for _ in range(rng.randint(1, 2))]])
        elif r < 0.9:
            ops.append(["fpaths", [rng.choice(paths)]])
        elif kind != "memory":
            ops.append(["reopen"])
    return ops


def overwrite_history(vals, reopen=True):
    """k0 receives the values one after the other (observed after each store), k1 holds the first value throughout, both are
    committed under a path before k0 is overwritten; everything is observed again at the end and after reopening the store"""
    ops = [["put", "k1", vals[0]]]
    for i, v in enumerate(vals):
        ops += [["put", "k0", v], ["has", "k0"], ["fetch", "k0"]]
        if i == 0:
            ops += [["sync", [["/p", "k0"], ["/q/r", "k1"]]]]
    tail = [["has", "k0"], ["fetch", "k0"], ["has", "k1"], ["fetch", "k1"], ["fpaths", ["/p", "/q/r"]]]
    return ops + tail + ([["reopen"]] + tail if reopen else [])


def typed_jobs(rng, tier):
    jobs = []
    for kind in TYPED_STORES:
        # all ordered pairs of typed values (incl. twice the same value: storing is idempotent)
        for a, b in itertools.product(sorted(TYPED), repeat=2):
            jobs.append({"kind": kind, "shape": "pair", "ops": overwrite_history([a, b], reopen=(kind != "memory"))})
        if tier != "quick":
            for t in itertools.product(TYPED_CORE, repeat=3):
                jobs.append({"kind": kind, "shape": "triple", "ops": overwrite_history(list(t), reopen=(kind != "memory"))})
    kinds = TYPED_STORES + ["local+lru"]
    for i in range(60 if tier == "quick" else 800):
        kind = kinds[i % len(kinds)]
        jobs.append({"kind": kind, "shape": "random", "ops": gen_typed_seq(rng, gen_paths(rng, 3), rng.randint(6, 24), kind)})
    for j in jobs:
        j["store"], j["cap"] = (j["kind"].split("+")[0], 2) if "+lru" in j["kind"] else (j["kind"], "bare")
    return jobs


def run_typed(jobs):
    """[(normalised answers of the store, raw answers, answers of the dictionary model)] per job"""
    # several driver processes side by side with the evaluation of the model
    exprs = sorted({c12.ops_coq(typed_model_ops(j["ops"])) for j in jobs})
    chunks = [jobs[i:i + 130] for i in range(0, len(jobs), 130)]
    C.scratch_dir()
    with concurrent.futures.ThreadPoolExecutor(max_workers=min(len(chunks), max(C.NPROC // 2, 1)) + 1) as ex:
        fm = ex.submit(C.coq_eval_strings, PRELUDE, [f"run_bare {e}" for e in exprs], label="c08t")
        parts = ex.map(lambda ch: C.run_driver("drive_store_typed.py", {"seqs": [{"store": j["store"], "cap": j["cap"], "ops": typed_impl_ops(j["ops"])} for j in ch]})["seqs"], chunks)
        out = [r for part in parts for r in part]
        model = dict(zip(exprs, fm.result()))
    res = []
    for j, r in zip(jobs, out):
        pairs = [(typed_out(x, o, j["kind"]), x) for x, o in zip(r["outs"], j["ops"]) if o[0] != "reopen"]
        res.append(([a for a, _ in pairs], [b for _, b in pairs], model[c12.ops_coq(typed_model_ops(j["ops"]))].split(";")))
    return res


def check_typed(rep, rng, tier):
    jobs = typed_jobs(rng, tier)
    for j, (impl, raw, m) in zip(jobs, run_typed(jobs)):
        ops, so = j["ops"], spec_ops(j["ops"])
        puts = {}
        for o in ops:
            if o[0] == "put":
                puts.setdefault(o[1], []).append(o[2])
        rep.case(json.dumps(["typed", j["kind"], ops]), any(len({vclass(v) for v in vs}) > 1 for vs in puts.values()))
        if impl != m:
            idx = next((i for i, (a, b) in enumerate(zip(impl, m)) if a != b), -1)
            op = so[idx] if idx >= 0 else ["?", "?"]
            # the values stored under the key of the failing operation, up to that operation
            hist = [o[2] for o in so[:max(idx, 0)] if o[0] == "put" and o[1] == op[1]]
            trans = "->".join(vclass(v) for v in hist[-2:]) or "none"
            full = [i for i, o in enumerate(ops) if o[0] != "reopen"][idx] if idx >= 0 else 0
            reopened = any(o[0] == "reopen" for o in ops[:full])
            rep.violation(f"typed-value-not-fetched-back:{j['kind']}:{op[0]}:{trans}",
                          f"{j['kind']} store: " + (f"after storing {' then '.join(typed_show(v) for v in hist) or 'nothing'} under the key {op[1]}, "
                                                   if op[0] in ("has", "fetch", "put") else "in a history that stores keys several times with values of different types, ") +
                          f"{op[0]} {op[1]} answers {raw[idx] if idx >= 0 else raw[:4]} where the dictionary model answers "
                          f"{m[idx] if idx >= 0 else m[:4]}{' = ' + typed_show(m[idx][2:]) if idx >= 0 and m[idx][2:] in TYPED else ''} "
                          f"(operation {full} of the {j['shape']} history{', the store was reopened before' if reopened else ''})",
                          {"typed": True, "store": j["kind"], "ops": ops, "values": {o[2]: TYPED[o[2]] for o in ops if o[0] == "put"},
                           "impl": impl, "model": m, "first_diff": idx})
    return jobs


def run(rep, tier, seed, proof_ok):
    rng = random.Random(seed)
    rep.rule = ("operation sequences (store/has/fetch blob, sync/fetch paths, reopen) of length 6..30 over 4 keys (incl. a None-valued "
                "blob) and prefix-free sets of paths with 1..4 segments over the alphabet {a, b, ab, 'a b', e-acute, .x, x., c} for "
                "MemoryStore, LocalFileStore, LocalFileStore+object cache and DBFSStore over the fake dbutils, all compared with the "
                "dictionary specification evaluated in Coq; exhaustive aliasing search over all pairs of paths of 1..3 segments over "
                "{a, b, ab} (+ '.', '..' segments) on the real local and DBFS stores; realpath of every created entry must stay inside "
                "the data directory; commits of paths that are prefixes / extensions of committed paths must not disturb those; "
                "typed overwrite histories: the SAME key is stored several times with values of different types (str incl. empty / "
                "unicode / text that is a pickle, bytes incl. empty / non-UTF-8 / the bytes of a str value / the pickle of another "
                "value, bytearray, None, falsy and container objects: 18 values in the 3 codec classes text / bytes / pickle), "
                "observed (has, fetch, an unrelated key, committed paths) after each store, at the end and after reopening: all "
                "ordered pairs of values (thorough: + all triples over 8 core values) and random sequences over 3 keys on the bare "
                "MemoryStore, LocalFileStore and DBFSStore, content-addressed random sequences behind an object cache of capacity 2, "
                "the answer of every operation compared with the dictionary (last value stored wins) evaluated in Coq; "
                "directory shapes: histories (two blobs committed under two paths and read back at once, after the working directory "
                "of the process has moved, after a random sequence with reopenings and moves, and by a new store object) on a "
                "LocalFileStore whose internal_dir x data_dir have the shapes {absolute, relative, ./relative, trailing slash, nested "
                "not yet existing, pre-existing, a symbolic link among the ancestors (same depth / deeper target / relative), the "
                "directory itself a symbolic link (absolute target / relative target / chain of two links), names with spaces, "
                "unicode and dots, a '..' segment, doubled slashes, relative through '..', one name a prefix of the other}, bare, "
                "behind an object cache of capacity 3, or worked on by TWO store objects that share the history and name the same "
                "directories differently (physical path / a new symbolic link / relative / trailing slash / '.' segments): one writes, "
                "the other reads, then at random; DBFSStore on URIs {plain, trailing slash, nested, top-level, spaces / unicode / dots, "
                "prefix names}, alone or with a second store object with / without the trailing slash; every answer compared with the "
                "dictionary evaluated in Coq, every file / link created must be physically inside the data (or internal) directory "
                "(quick: every shape as internal, as data and in one mixed pair; thorough: all pairs of shapes); "
                "distinct = distinct (store, sequence) or path pair; non-trivial = sequence with a sync followed by a "
                "fetch of the same path, or typed history that stores one key with values of two codec classes, or history on "
                "directories of a shape other than absolute/absolute")
    n_seq = 40 if tier == "quick" and proof_ok else 400
    jobs = []
    for i in range(n_seq):
        paths = gen_paths(rng, 4)
        kind = STORES[i % len(STORES)]
        ops = gen_seq(rng, paths, rng.randint(6, 30), reopen=(kind != "memory"))
        store, cap = (kind.split("+")[0], 3) if "+lru" in kind else (kind, "bare")
        jobs.append({"store": store, "cap": cap, "ops": ops, "listing": store == "local", "kind": kind})
    out = C.run_driver("drive_store.py", {"seqs": jobs})["seqs"]
    # the shape of the directories the store is opened on x histories (with reopenings, moves of the working directory, two
    # store objects that name the same directories differently), against the same dictionary
    djobs = dir_jobs(random.Random(f"{seed}/dirs"), tier, tier == "quick" and proof_ok)
    dres = C.run_driver("drive_store_dirs.py", {"seqs": [{k: j[k] for k in ("store", "cap", "dirs", "ops", "who")} for j in djobs]})["seqs"]
    model = C.coq_eval_strings(PRELUDE, [f"run_bare {c12.ops_coq(spec_ops(j['ops']))}" for j in jobs + djobs], label="c08")
    model, dmodel = model[:len(jobs)], model[len(jobs):]
    check_dirs(rep, djobs, dres, dmodel)
    for j, r, m in zip(jobs, out, model):
        ops = j["ops"]
        synced = set()
        nontrivial = False
        for o in ops:
            if o[0] == "sync":
                synced |= {p for p, _ in o[1]}
            if o[0] == "fpaths" and any(p in synced for p in o[1]):
                nontrivial = True
        rep.case(json.dumps([j["kind"], ops]), nontrivial)
        # the DBFS store lets the exception of dbutils through for a path without record; the dictionary says "error"
        outs = ["E" if (x == "X:Exception" and o[0] == "fpaths" and j["kind"].startswith("dbfs")) else x for x, o in zip(r["outs"], ops)]
        impl = ";".join(x for x, o in zip(outs, ops) if o[0] != "reopen")
        if impl != m:
            # locate the first differing operation
            io, mo = impl.split(";"), m.split(";")
            idx = next((i for i, (a, b) in enumerate(zip(io, mo)) if a != b), -1)
            so = spec_ops(ops)
            rep.violation(f"store-differs-from-dictionary:{j['kind']}:{so[idx][0] if idx >= 0 else '?'}",
                          f"{j['kind']} store answers {io[idx] if idx >= 0 else impl[:60]} where the dictionary model answers {mo[idx] if idx >= 0 else m[:60]} "
                          f"(operation {idx}: {so[idx] if idx >= 0 else ''})", {"store": j["kind"], "ops": ops, "impl": impl, "model": m, "first_diff": idx})
        if r.get("outside"):
            rep.violation("escape:" + j["kind"], f"entries created outside the data directory: {r['outside']}", {"store": j["kind"], "ops": ops, "outside": r["outside"]})
    # the same key stored several times with values of different types: the last value must be fetched back
    tjobs = check_typed(rep, rng, tier)
    # a path is committed that is a strict prefix (or extension) of committed paths: the commit may be refused, but what was
    # committed before must keep resolving to its key (nothing may be deleted to make room), also after reopening
    pjobs = []
    for kind in ("local", "local+lru"):
        for first, later in ((["/a/b", "/a/c/d"], "/a"), (["/a"], "/a/b"), (["/x/y/z"], "/x/y"), (["/a/b", "/q"], "/a/b/c")):
            ops = [["put", "k0", "v0"], ["put", "k1", "v1"], ["put", "k3", "v3"]]
            ops += [["sync", [[pth, ["k0", "k1"][i % 2]]]] for i, pth in enumerate(first)]
            ops += [["sync", [[later, "k3"]]]] + [["fpaths", [pth]] for pth in first] + [["reopen"]] + [["fpaths", [pth]] for pth in first]
            store, cap = (kind.split("+")[0], 3) if "+lru" in kind else (kind, "bare")
            pjobs.append({"store": store, "cap": cap, "ops": ops, "kind": kind, "first": first, "later": later})
    pres = C.run_driver("drive_store.py", {"seqs": pjobs})["seqs"]
    for j, r in zip(pjobs, pres):
        rep.case(json.dumps(["prefix-history", j["kind"], j["first"], j["later"]]))
        n0 = 3 + len(j["first"])
        refused = r["outs"][n0] != "U"
        reads = [x for x, o in zip(r["outs"], j["ops"]) if o[0] == "fpaths"]
        want = [f"P:{pth}={['k0', 'k1'][i % 2]}" for i, pth in enumerate(j["first"])] * 2
        if reads != want:
            rep.violation("committed-path-lost:prefix-related-commit:" + j["kind"],
                          f"{j['kind']} store: after committing {j['first']} the commit of {j['later']} was {'refused' if refused else 'accepted'}, and the earlier "
                          f"paths now resolve to {reads} instead of {want}", {"store": j["kind"], "ops": j["ops"], "outs": r["outs"]})
    # aliasing / escape search on the real stores
    small = ["a", "b", "ab"]
    allp = ["/" + "/".join(t) for n in (1, 2, 3) for t in itertools.product(small, repeat=n)]
    odd = ["/a/./b", "/a/../b", "/../x", "/a/..", "/./a", "/.a", "/a/.b", "/..a", "/a//b", "/a/b/"]
    cand = allp + odd
    for kind in ("local", "dbfs-full"):
        # each path alone: commit it to its own key, list what was created
        seqs = [{"store": kind, "cap": "bare", "ops": [["put", "k0", "v0"], ["sync", [[p, "k0"]]], ["fpaths", [p]]], "listing": True} for p in cand]
        res = C.run_driver("drive_store.py", {"seqs": seqs})["seqs"]
        loc = {}
        for p, r in zip(cand, res):
            rep.case(json.dumps(["location", kind, p]))
            if r["outs"][1] != "U":
                loc[p] = ("rejected", r["outs"][1])
                continue
            entries = tuple(tuple(x) if isinstance(x, list) else x for x in r.get("listing", []))
            loc[p] = ("at", entries)
            if kind == "local" and r.get("outside"):
                rep.violation("escape:local", f"path {p!r} creates {r['outside']} outside the data directory",
                              {"store": kind, "path": p, "outside": r["outside"]})
            if kind.startswith("dbfs") and any("/../" in e or e.endswith("/..") for e in r.get("listing", [])):
                rep.violation("escape:dbfs", f"path {p!r} creates {r['listing']}", {"store": kind, "path": p, "listing": r["listing"]})
        groups = {}
        for p, (st, entries) in loc.items():
            if st == "at":
                groups.setdefault(entries, []).append(p)
        for entries, ps in groups.items():
            classes = {}
            for p in ps:
                classes.setdefault(segs_of(p), []).append(p)
            if len(classes) > 1:
                reps = [v[0] for v in classes.values()]
                kind2 = "dot-segment" if any("." in s for p in reps for s in segs_of(p) if s in (".", "..") or s.startswith(".")) else "concatenation"
                rep.violation(f"alias:{kind}:{kind2}", f"{kind} store: paths {reps[:3]} with different segment sequences share the location {list(entries)[:2]}",
                              {"store": kind, "paths": reps, "location": list(entries)})
    rep.extra["input_distribution"] = {"sequences": len(jobs), "by_store": {k: sum(1 for j in jobs if j["kind"] == k) for k in STORES},
                                       "alias_candidates": len(cand), "typed_values": len(TYPED),
                                       "typed_values_by_codec_class": {c: sum(1 for v in TYPED if vclass(v) == c) for c in ("str", "bytes", "pickle")},
                                       "typed_histories": len(tjobs),
                                       "typed_by_shape": {k: sum(1 for j in tjobs if j["shape"] == k) for k in ("pair", "triple", "random")},
                                       "typed_by_store": {k: sum(1 for j in tjobs if j["kind"] == k) for k in TYPED_STORES + ["local+lru"]},
                                       "dir_histories": len(djobs), "dir_shapes": len(DIR_SHAPES), "dbfs_uri_shapes": len(DBFS_SHAPES),
                                       "dir_shape_pairs": len({(j["store"], j["ishape"], j["dshape"]) for j in djobs}),
                                       "dir_by_kind": {k: sum(1 for j in djobs if j["kind"] == k) for k in DIR_KINDS + ["dbfs-full", "dbfs-full/2"]},
                                       "dir_second_object_namings": len({(j["dirs"]["reader"]["internal"], j["dirs"]["reader"]["data"])
                                                                         for j in djobs if j["kind"] == "local/2"}),
                                       "dir_operations": sum(len(j["ops"]) for j in djobs)}
    rep.sample({"store": jobs[1]["kind"], "ops": jobs[1]["ops"][:8]})
    rep.sample({"typed": tjobs[1]["kind"], "ops": typed_impl_ops(tjobs[1]["ops"])[:8]})
    rep.sample({"alias_candidates": cand[:5] + odd[:4]})
    dj = next(j for j in djobs if j["kind"] == "local/2" and j["ishape"] != "absolute")
    rep.sample({"store": dj["kind"], "dirs": dj["dirs"], "ops": dj["ops"][:10], "who": dj["who"][:10]})


def replay(path):
    r = json.load(open(path))["replay"]
    if r.get("typed"):
        TYPED.update(r["values"])
        CANON.update({DT.canon(DT.decode(e)): n for n, e in r["values"].items() if n != "none"})
        j = {"kind": r["store"], "ops": r["ops"], "store": r["store"].split("+")[0], "cap": 2 if "+lru" in r["store"] else "bare"}
        impl, raw, m = run_typed([j])[0]
        print(json.dumps({"ops": typed_impl_ops(r["ops"]), "impl": raw, "model": m}, indent=1))
        bad = impl != m
    elif "dirs" in r:
        j = {"kind": r["store"], "store": r["store"].split("+")[0].split("/")[0], "cap": 3 if "+lru" in r["store"] else "bare", "dirs": r["dirs"],
             "ops": r["ops"], "who": r["who"]}
        o = C.run_driver("drive_store_dirs.py", {"seqs": [{k: j[k] for k in ("store", "cap", "dirs", "ops", "who")}]})["seqs"][0]
        m = C.coq_eval_strings(PRELUDE, [f"run_bare {c12.ops_coq(spec_ops(j['ops']))}"], label="c08")[0]
        print(json.dumps({"dirs": r["dirs"], "names": o.get("names"), "ops": r["ops"], "who": r["who"], "impl": o["outs"], "model": m,
                          "open_error": o.get("open_error"), "outside": o.get("outside")}, indent=1))
        bad = bool(o.get("open_error")) or dir_outs(o, j) != m.split(";") or bool(o.get("outside"))
    elif "ops" in r:
        store = r["store"].split("+")[0]
        o = C.run_driver("drive_store.py", {"seqs": [{"store": store, "cap": 3 if "+lru" in r["store"] else "bare", "ops": r["ops"], "listing": store == "local"}]})["seqs"][0]
        print(json.dumps({"ops": r["ops"], "impl": o["outs"], "model": r.get("model")}, indent=1))
        bad = ";".join(x for x, op in zip(o["outs"], r["ops"]) if op[0] != "reopen") != r.get("model") or bool(o.get("outside"))
    else:
        ps = r.get("paths") or [r["path"]]
        seqs = [{"store": r["store"], "cap": "bare", "ops": [["put", "k0", "v0"], ["sync", [[p, "k0"]]]], "listing": True} for p in ps]
        res = C.run_driver("drive_store.py", {"seqs": seqs})["seqs"]
        for p, x in zip(ps, res):
            print(p, x.get("listing"), x.get("outside"))
        bad = any(x.get("outside") for x in res) or len({json.dumps(x.get("listing")) for x in res}) < len(ps)
    print("REPRODUCED" if bad else "not reproduced")
    return 1 if bad else 0
