"""C08 - stores round-trip blobs and paths; distinct paths never alias or escape."""
import itertools
import json
import random

import common as C
import c12

COQ_FILES = ("L4_Eval/Store.v", "L5_Stores/RunStore.v", "L5_Stores/PathMap.v", "L5_Stores/PathMapProofs.v", "L6_Conc/LocalProgs.v", "L6_Conc/SeqRefine.v", "Properties/C08.v", "Properties/C08b.v", "Base/PyRt.v", "Extracted/GenPath.v", "L5_Stores/GenPathProofs.v", "Properties/C08g.v")
PROPERTY_FILES = ("C08", "C08b", "C08g")
EXTRACTED = ("ConstStore", "GenPath")
ALLOWED_AXIOMS = ()

PRELUDE = c12.PRELUDE
SEGS = ["a", "b", "ab", "a b", "é", ".x", "x.", "c"]
BAD_SEGS = [".", ".."]
KEYS = ["k0", "k1", "k2", "k3"]
VALUE = {"k0": "v0", "k1": "v1", "k2": None, "k3": "v3"}
STORES = ["memory", "local", "local+lru", "dbfs-full"]


def segs_of(p):
    return tuple(s for s in p.split("/") if s)


def prefix_conflict(p, others):
    a = segs_of(p)
    for q in others:
        b = segs_of(q)
        if a != b and (a[:len(b)] == b or b[:len(a)] == a):
            return True
    return False


def gen_paths(rng, n):
    out = []
    while len(out) < n:
        k = rng.randint(1, 4)
        p = "/" + "/".join(rng.choice(SEGS) for _ in range(k))
        if p not in out and not prefix_conflict(p, out):
            out.append(p)
    return out


def gen_seq(rng, paths, length, reopen=True):
    ops, stored = [], []
    for _ in range(length):
        r = rng.random()
        k = rng.choice(KEYS)
        if r < 0.25:
            ops.append(["put", k, VALUE[k]])
            stored.append(k) if k not in stored else None
        elif r < 0.4:
            ops.append(["has", k])
        elif r < 0.6:
            ops.append(["fetch", k])
        elif r < 0.78 and stored:
            n = rng.randint(1, 3)
            ops.append(["sync", [[rng.choice(paths), rng.choice(stored)] for _ in range(n)]])
        elif r < 0.93:
            ops.append(["fpaths", [rng.choice(paths) for _ in range(rng.randint(1, 2))]])
        elif reopen:
            ops.append(["reopen"])
    return ops


def spec_ops(ops):
    return [o for o in ops if o[0] != "reopen"]


def run(rep, tier, seed, proof_ok):
    rng = random.Random(seed)
    rep.rule = ("operation sequences (store/has/fetch blob, sync/fetch paths, reopen) of length 6..30 over 4 keys (incl. a None-valued "
                "blob) and prefix-free sets of paths with 1..4 segments over the alphabet {a, b, ab, 'a b', e-acute, .x, x., c} for "
                "MemoryStore, LocalFileStore, LocalFileStore+object cache and DBFSStore over the fake dbutils, all compared with the "
                "dictionary specification evaluated in Coq; exhaustive aliasing search over all pairs of paths of 1..3 segments over "
                "{a, b, ab} (+ '.', '..' segments) on the real local and DBFS stores; realpath of every created entry must stay inside "
                "the data directory; commits of paths that are prefixes / extensions of committed paths must not disturb those; distinct = distinct (store, sequence) or path pair; non-trivial = sequence with a sync followed by a "
                "fetch of the same path")
    n_seq = 40 if tier == "quick" and proof_ok else 400
    jobs = []
    for i in range(n_seq):
        paths = gen_paths(rng, 4)
        kind = STORES[i % len(STORES)]
        ops = gen_seq(rng, paths, rng.randint(6, 30), reopen=(kind != "memory"))
        store, cap = (kind.split("+")[0], 3) if "+lru" in kind else (kind, "bare")
        jobs.append({"store": store, "cap": cap, "ops": ops, "listing": store == "local", "kind": kind})
    out = C.run_driver("drive_store.py", {"seqs": jobs})["seqs"]
    model = C.coq_eval_strings(PRELUDE, [f"run_bare {c12.ops_coq(spec_ops(j['ops']))}" for j in jobs], label="c08")
    for j, r, m in zip(jobs, out, model):
        ops = j["ops"]
        synced = set()
        nontrivial = False
        for o in ops:
            if o[0] == "sync":
                synced |= {p for p, _ in o[1]}
            if o[0] == "fpaths" and any(p in synced for p in o[1]):
                nontrivial = True
        rep.case(json.dumps([j["kind"], ops]), nontrivial)
        # the DBFS store lets the exception of dbutils through for a path without record; the dictionary says "error"
        outs = ["E" if (x == "X:Exception" and o[0] == "fpaths" and j["kind"].startswith("dbfs")) else x for x, o in zip(r["outs"], ops)]
        impl = ";".join(x for x, o in zip(outs, ops) if o[0] != "reopen")
        if impl != m:
            # locate the first differing operation
            io, mo = impl.split(";"), m.split(";")
            idx = next((i for i, (a, b) in enumerate(zip(io, mo)) if a != b), -1)
            so = spec_ops(ops)
            rep.violation(f"store-differs-from-dictionary:{j['kind']}:{so[idx][0] if idx >= 0 else '?'}",
                          f"{j['kind']} store answers {io[idx] if idx >= 0 else impl[:60]} where the dictionary model answers {mo[idx] if idx >= 0 else m[:60]} "
                          f"(operation {idx}: {so[idx] if idx >= 0 else ''})", {"store": j["kind"], "ops": ops, "impl": impl, "model": m, "first_diff": idx})
        if r.get("outside"):
            rep.violation("escape:" + j["kind"], f"entries created outside the data directory: {r['outside']}", {"store": j["kind"], "ops": ops, "outside": r["outside"]})
    # a path is committed that is a strict prefix (or extension) of committed paths: the commit may be refused, but what was
    # committed before must keep resolving to its key (nothing may be deleted to make room), also after reopening
    pjobs = []
    for kind in ("local", "local+lru"):
        for first, later in ((["/a/b", "/a/c/d"], "/a"), (["/a"], "/a/b"), (["/x/y/z"], "/x/y"), (["/a/b", "/q"], "/a/b/c")):
            ops = [["put", "k0", "v0"], ["put", "k1", "v1"], ["put", "k3", "v3"]]
            ops += [["sync", [[pth, ["k0", "k1"][i % 2]]]] for i, pth in enumerate(first)]
            ops += [["sync", [[later, "k3"]]]] + [["fpaths", [pth]] for pth in first] + [["reopen"]] + [["fpaths", [pth]] for pth in first]
            store, cap = (kind.split("+")[0], 3) if "+lru" in kind else (kind, "bare")
            pjobs.append({"store": store, "cap": cap, "ops": ops, "kind": kind, "first": first, "later": later})
    pres = C.run_driver("drive_store.py", {"seqs": pjobs})["seqs"]
    for j, r in zip(pjobs, pres):
        rep.case(json.dumps(["prefix-history", j["kind"], j["first"], j["later"]]))
        n0 = 3 + len(j["first"])
        refused = r["outs"][n0] != "U"
        reads = [x for x, o in zip(r["outs"], j["ops"]) if o[0] == "fpaths"]
        want = [f"P:{pth}={['k0', 'k1'][i % 2]}" for i, pth in enumerate(j["first"])] * 2
        if reads != want:
            rep.violation("committed-path-lost:prefix-related-commit:" + j["kind"],
                          f"{j['kind']} store: after committing {j['first']} the commit of {j['later']} was {'refused' if refused else 'accepted'}, and the earlier "
                          f"paths now resolve to {reads} instead of {want}", {"store": j["kind"], "ops": j["ops"], "outs": r["outs"]})
    # aliasing / escape search on the real stores
    small = ["a", "b", "ab"]
    allp = ["/" + "/".join(t) for n in (1, 2, 3) for t in itertools.product(small, repeat=n)]
    odd = ["/a/./b", "/a/../b", "/../x", "/a/..", "/./a", "/.a", "/a/.b", "/..a", "/a//b", "/a/b/"]
    cand = allp + odd
    for kind in ("local", "dbfs-full"):
        # each path alone: commit it to its own key, list what was created
        seqs = [{"store": kind, "cap": "bare", "ops": [["put", "k0", "v0"], ["sync", [[p, "k0"]]], ["fpaths", [p]]], "listing": True} for p in cand]
        res = C.run_driver("drive_store.py", {"seqs": seqs})["seqs"]
        loc = {}
        for p, r in zip(cand, res):
            rep.case(json.dumps(["location", kind, p]))
            if r["outs"][1] != "U":
                loc[p] = ("rejected", r["outs"][1])
                continue
            entries = tuple(tuple(x) if isinstance(x, list) else x for x in r.get("listing", []))
            loc[p] = ("at", entries)
            if kind == "local" and r.get("outside"):
                rep.violation("escape:local", f"path {p!r} creates {r['outside']} outside the data directory",
                              {"store": kind, "path": p, "outside": r["outside"]})
            if kind.startswith("dbfs") and any("/../" in e or e.endswith("/..") for e in r.get("listing", [])):
                rep.violation("escape:dbfs", f"path {p!r} creates {r['listing']}", {"store": kind, "path": p, "listing": r["listing"]})
        groups = {}
        for p, (st, entries) in loc.items():
            if st == "at":
                groups.setdefault(entries, []).append(p)
        for entries, ps in groups.items():
            classes = {}
            for p in ps:
                classes.setdefault(segs_of(p), []).append(p)
            if len(classes) > 1:
                reps = [v[0] for v in classes.values()]
                kind2 = "dot-segment" if any("." in s for p in reps for s in segs_of(p) if s in (".", "..") or s.startswith(".")) else "concatenation"
                rep.violation(f"alias:{kind}:{kind2}", f"{kind} store: paths {reps[:3]} with different segment sequences share the location {list(entries)[:2]}",
                              {"store": kind, "paths": reps, "location": list(entries)})
    rep.extra["input_distribution"] = {"sequences": len(jobs), "by_store": {k: sum(1 for j in jobs if j["kind"] == k) for k in STORES},
                                       "alias_candidates": len(cand)}
    rep.sample({"store": jobs[1]["kind"], "ops": jobs[1]["ops"][:8]})
    rep.sample({"alias_candidates": cand[:5] + odd[:4]})


def replay(path):
    r = json.load(open(path))["replay"]
    if "ops" in r:
        store = r["store"].split("+")[0]
        o = C.run_driver("drive_store.py", {"seqs": [{"store": store, "cap": 3 if "+lru" in r["store"] else "bare", "ops": r["ops"], "listing": store == "local"}]})["seqs"][0]
        print(json.dumps({"ops": r["ops"], "impl": o["outs"], "model": r.get("model")}, indent=1))
        bad = ";".join(x for x, op in zip(o["outs"], r["ops"]) if op[0] != "reopen") != r.get("model") or bool(o.get("outside"))
    else:
        ps = r.get("paths") or [r["path"]]
        seqs = [{"store": r["store"], "cap": "bare", "ops": [["put", "k0", "v0"], ["sync", [[p, "k0"]]]], "listing": True} for p in ps]
        res = C.run_driver("drive_store.py", {"seqs": seqs})["seqs"]
        for p, x in zip(ps, res):
            print(p, x.get("listing"), x.get("outside"))
        bad = any(x.get("outside") for x in res) or len({json.dumps(x.get("listing")) for x in res}) < len(ps)
    print("REPRODUCED" if bad else "not reproduced")
    return 1 if bad else 0
